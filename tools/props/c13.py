"""C13 — imports follow the documented search order, only via the supplied Fs.

Model: lean/Grass/Import.lean (driver token `import`), theorems: lean/GrassProofs/C13.lean.

Every case is one compile job over a generated virtual tree.  Observation of the implementation:
which files were loaded (the recorded `read` calls and the marker rule each candidate file
carries, whose `s:` value also shows with which syntax the file was parsed), error / no error, and
the exact sequence of `is_file` / `is_dir` / `read` calls of the recording in-memory Fs.
  (b) TIE     observation == Lean model of the code as it stands (`chain 1110`)
  (c) DIRECT  Lean `checkLoad` (the predicate of theorem C13_checkLoad_spec) on the implementation's
              own observation, step by step along the implementation's own chain of loads.
"""
import itertools
import json
import os
from zlib import crc32 as _crc32
import re
import shutil
import subprocess
import time

from concurrent.futures import ThreadPoolExecutor

import vlib
from vlib import BUILD, Check, RunnerPool, compile_job, hexs, log, unhex


def driver(lines, nproc=8):
    """vlib.driver on several drv_import processes at once (order kept)."""
    lines = list(lines)
    if len(lines) < 400:
        return vlib.driver(lines)
    size = (len(lines) + nproc - 1) // nproc
    chunks = [lines[i:i + size] for i in range(0, len(lines), size)]
    with ThreadPoolExecutor(len(chunks)) as ex:
        outs = list(ex.map(vlib.driver, chunks))
    return [o for out in outs for o in out]

AF_CUR, AF_SPEC = "1110", "0000"          # d9 d10 d8b d8: the code as found / the specified behaviour
SWITCH_BIT = {"D9": 0, "D10": 1, "D8b": 2}


def af_without(af, tag):
    i = SWITCH_BIT[tag]
    return af[:i] + "0" + af[i + 1:]


def switch_off(af):
    """the variants with exactly one of the switches that are on in `af` turned off"""
    return {t: af_without(af, t) for t, i in SWITCH_BIT.items() if af[i] == "1"}
NOTFOUND = "Can't find stylesheet to import."
SFX = ["import.sass", "import.scss", "import.css", "sass", "scss", "css"]


# --------------------------------------------------------------------------------------------
# cases
# --------------------------------------------------------------------------------------------

def join(d, n):
    return f"{d}/{n}" if d and n else (d or n)


def dirname(p):
    return p.rsplit("/", 1)[0] if "/" in p else ""


def split_url(url):
    d, b = (url.rsplit("/", 1) + [None])[:2] if "/" in url else ("", url)
    return d, b


def explicit(base):
    """(stem, ext) when the URL's file name ends in .scss/.sass/.css (and has a stem)."""
    if "." in base:
        stem, ext = base.rsplit(".", 1)
        if stem and ext in ("scss", "sass", "css"):
            return stem, ext
    return None


def names_for(D, base):
    """(candidate-like names, decoy names) for URL file name `base` looked up in directory D."""
    ex = explicit(base)
    if ex:
        stem, ext = ex
        cands = [base, "_" + base, f"{stem}.import.{ext}", f"_{stem}.import.{ext}",
                 f"{stem}..import{ext}", f"_{stem}..import{ext}"]
        other = "sass" if ext == "scss" else "scss"
        decoys = [base + ".scss", base + "/index.scss", f"{stem}.{other}", f"_{stem}.{other}", f"{stem}/index.{ext}"]
    else:
        cands = []
        for s in SFX:
            cands += [f"{base}.{s}", f"_{base}.{s}", f"{base}/index.{s}", f"{base}/_index.{s}"]
        decoys = [base + ".txt", base + ".SCSS", base + "/other.scss"]
        if "." in base and base.rsplit(".", 1)[0]:
            st = base.rsplit(".", 1)[0]
            decoys += [st + ".scss", "_" + st + ".sass"]          # what the old with_extension code loaded (D8)
    return [join(D, c) for c in cands], [join(D, c) for c in decoys]


def stmt(kind, url, k, sass, ns="meta"):
    s = {"import": f'@import "{url}"', "use": f'@use "{url}" as n{k}', "forward": f'@forward "{url}"',
         "loadcss": f'@include {ns}.load-css("{url}")'}[kind]
    return s if sass else s + ";"


def meta_ns(path):
    """a namespace for `sass:meta` of its own per file (load-css evaluates the loaded file in the caller's
    environment, where the caller's namespace `meta` is already taken)"""
    return "mt%d" % (_crc32(path.encode("utf-8")) % 1000003)


def meta_prelude(sass, ns):
    """`meta.load-css` needs the built-in module (no Fs call is made for it).  SCSS: on the same line as
    the first statement, so line numbers do not move; indented syntax: a line of its own."""
    return f'@use "sass:meta" as {ns}\n' if sass else f'@use "sass:meta" as {ns}; '


def file_ext(path):
    b = path.rsplit("/", 1)[-1]
    if "." in b and b.rsplit(".", 1)[0]:
        return b.rsplit(".", 1)[1].lower()
    return ""


def content(path, nxt, more=()):
    """Marker rule naming the file, written in the syntax its extension selects; `nxt` = (kind, url, k)
    of the load the file performs itself (None: none), `more` further loads after it.  `s:` tells which
    parser read it: scss/sass text evaluates 1+1 to 2 (and is not valid in the other syntaxes), plain CSS
    keeps `not a` (SCSS would print `false`)."""
    e = file_ext(path)
    if e == "css":
        return 'm{f:"%s";s:not a}\n' % path
    sass = e == "sass"
    loads = ([nxt] if nxt else []) + list(more)
    ns = meta_ns(path)
    head = "".join(stmt(*l, sass=sass, ns=ns) + "\n" for l in loads)
    if any(l[0] == "loadcss" for l in loads):
        head = meta_prelude(sass, ns) + head
    if sass:
        return head + 'm\n  f: "%s"\n  s: 1+1\n' % path
    return head + 'm{f:"%s";s:1+1}\n' % path


def line_shift(path, loads):
    """lines by which the statements of `path` are moved down by the `sass:meta` prelude"""
    return 1 if file_ext(path) == "sass" and any(l[0] == "loadcss" for l in loads) else 0


def expected_s(path):
    return "not a" if file_ext(path) == "css" else "2"


TAIL = 99          # role of files that perform no load themselves


def role(j, i):
    """role of a file that is a candidate of step i (1-based) of the j-th further chain of the entry"""
    return 100 * (j + 1) + i


def mk_case(entry, steps, files, lps=(), mode="mem", rooted=True, dirs=(), decoy=False, note=None, tail=()):
    """`steps`: chain of nested loads starting in the entry; `tail`: further chains the entry starts itself
    afterwards (`@import "a"; @import "t";`), each again relative to the entry.  `files[path]` is the
    role of the file: k < 99: candidate of step k of the first chain (it performs step k+1); 99: performs
    nothing; 100(j+1)+i: candidate of step i of tail chain j (performs step i+1 of that chain)."""
    tail = [[list(s) for s in ch] if ch and isinstance(ch[0], (list, tuple)) else [list(ch)] for ch in tail]
    c = {"mode": mode, "rooted": rooted, "entry": entry, "lps": list(lps),
         "steps": [list(s) for s in steps], "tail": tail,
         "files": dict(files), "dirs": list(dirs), "decoy": decoy}
    if note:
        c["note"] = note
    return c


# minimised past failures and the known-finding witnesses: run first on every run
CORPUS = [
    mk_case("main.scss", [("use", "u")], {"u.import.scss": 1, "u.scss": 1}, rooted=False, note="D9 witness"),
    mk_case("main.scss", [("forward", "u")], {"_u.import.sass": 1, "u.scss": 1}, note="D9 witness (@forward)"),
    mk_case("main.scss", [("import", "q.scss")], {"lp/q.scss": 1}, lps=["lp"], rooted=False, note="D10 witness"),
    mk_case("main.scss", [("import", "q.scss")], {"q..importscss": 1, "q.import.scss": 1, "q.scss": 1}, note="D8b witness"),
    mk_case("main.scss", [("import", "foo.bar")], {"foo.scss": 1}, note="D8 (fixed): must be not-found"),
    mk_case("main.scss", [("import", "foo.bar")], {"foo.scss": 1, "_foo.bar.sass": 1}, note="D8 (fixed)"),
    mk_case("sub/main.scss", [("import", "d/q")], {"lp/d/q/index.scss": 1, "sub/d/q/zzz.txt": 1}, lps=["lp", "lp2"],
            note="directory without index, then load path index"),
    mk_case("main.scss", [("import", "a")], {"a.scss": 1, "_a.scss": 1, "a.sass": 1}, note="ambiguous layout (excluded from P̂)"),
    mk_case("r/main.scss", [("import", "d/a"), ("use", "../b")], {"r/d/_a.sass": 1, "r/d/../b.css": 2, "r/b.css": 2},
            note="nested load relative to the imported file, `..` kept literally"),
    mk_case("main.scss", [("import", "sub/a")], {"sub/a.scss": 1, "sub/t.scss": TAIL, "t.scss": TAIL, "sub/_t.import.sass": TAIL},
            tail=[("import", "t")], note="second load of the entry is relative to the entry again, not to sub/"),
    mk_case("main.scss", [("import", "c")], {"c.scss": TAIL, "sub/c.scss": TAIL, "sub/a.scss": role(1, 1)},
            tail=[[("import", "c")], [("import", "sub/a"), ("import", "c")]],
            note="same URL loaded again from another directory after it was cached: must resolve relative to sub/"),
    mk_case("main.sass", [("use", "n"), ("import", "k")], {"lp1/n/_index.scss": 1, "lp1/n/k.css": 2, "k.scss": 2}, lps=["lp1"],
            note="index in load path, nested import relative to it"),
]


ENTRIES = ["main.scss", "main.scss", "sub/main.scss", "sub/deep/main.scss", "sub/main.sass"]
LPS = ["lp1", "lp2", "sub/lp3", "lp1/in", "sub"]
BASES = [["n", "n", "n", "foo.bar", "foo.bar", "x.import", "a-b_c", "_p", "N.SCSS"], ["k", "k", "baz.q", "_r"], ["z"]]
UDIRS = ["", "", "", "d", "d/e", ".."]
KINDS = ["import", "use", "forward", "loadcss"]       # loadcss: `@include meta.load-css(url)` (builtin/modules/meta.rs:17)
TAIL_KINDS = ["import", "import", "loadcss"]           # loads that may follow other statements and emit every time


def pick_count(rng):
    return rng.choices([0, 1, 2, 3, 4, 6], weights=[22, 36, 22, 11, 6, 3])[0]


def gen_random(rng, mode="mem"):
    entry = rng.choice(ENTRIES)
    nl = rng.choices([0, 1, 2, 3], weights=[30, 35, 25, 10])[0]
    lps = rng.sample(LPS, nl)
    nsteps = rng.choices([1, 2, 3], weights=[60, 30, 10])[0]
    steps, files, dirs = [], {}, []
    prev_dirs = [dirname(entry)]
    for k in range(1, nsteps + 1):
        kind = rng.choice(KINDS)
        base = rng.choice(BASES[k - 1])
        if rng.random() < 0.3:
            exts = ["scss", "sass"] if kind == "import" else ["scss", "sass", "css"]    # `@import "x.css"` is a plain CSS import
            base = base + "." + rng.choice(exts)
        udirs = UDIRS if mode == "mem" else UDIRS[:-1]
        udir = rng.choice(udirs)
        url = join(udir, base)
        steps.append((kind, url))
        new_files = []
        roots = list(dict.fromkeys(prev_dirs)) + lps
        # at least one location usually has something; every location gets its own random subset
        for ri, root in enumerate(roots):
            D = join(root, udir)
            cands, decoys = names_for(D, base)
            n = pick_count(rng)
            if ri >= len(roots) - len(lps) and rng.random() < 0.35:
                n = 0
            chosen = rng.sample(cands, min(n, len(cands)))
            if rng.random() < 0.25:
                chosen += rng.sample(decoys, rng.choice([1, 1, 2]))
            if rng.random() < 0.04 and mode == "mem":
                chosen.append(join(D, base))                     # a bare file of the URL's name
            if mode == "std" and rng.random() < 0.12 and not explicit(base):
                dirs.append(join(D, base))                       # an (otherwise possibly empty) real directory
            for f in chosen:
                if f not in files and f != entry:
                    files[f] = k
                    new_files.append(f)
        prev_dirs = [dirname(f) for f in new_files if file_ext(f) != "css"] or prev_dirs
    tail = []
    if rng.random() < 0.25:
        base = rng.choice(["t", "t", "tt.x"]) + rng.choice(["", "", "", ".scss", ".sass"])
        udir = rng.choice(UDIRS[:5])
        tail = [[(rng.choice(TAIL_KINDS), join(udir, base))]]
        nested_dirs = [d for d in dict.fromkeys(dirname(f) for f in files) if d != dirname(entry)]
        for ri, root in enumerate([dirname(entry)] + lps + nested_dirs[:3]):
            cands, decoys = names_for(join(root, udir), base)
            n = pick_count(rng) if ri <= len(lps) else rng.choice([1, 2])      # traps next to the nested files
            for f in rng.sample(cands, min(n, len(cands))):
                if f not in files and f != entry:
                    files[f] = TAIL
    if mode == "std":
        # a real tree cannot hold a file and a directory of the same name
        fs = sorted(files)
        for f in fs:
            if any(g.startswith(f + "/") for g in fs):
                del files[f]
        dirs = [d for d in dict.fromkeys(dirs) if d not in files]
    return mk_case(entry, steps, files, lps=lps, mode=mode, dirs=dirs, tail=tail,
                   rooted=(rng.random() < 0.85) or mode == "std")


def gen_repeat(rng, mode="mem"):
    """The same URL string loaded several times by the entry and finally by a file in another directory:
    every load must be resolved afresh, relative to the file that performs it."""
    entry = rng.choice(["main.scss", "sub/main.scss", "main.sass"])
    E = dirname(entry)
    lps = rng.sample(LPS[:3], rng.choice([0, 0, 1, 2]))
    cudir = rng.choice(["", "", "d"])
    cbase = rng.choice(["c", "c", "cfg.v", "c.scss", "c.sass"])         # (never .css: `@import "c.css"` is a plain CSS import)
    curl = join(cudir, cbase)
    other = rng.choice(["o", "o/p", "lp1"])
    files = {}
    for root in [E, join(E, other)] + lps:
        cands, decoys = names_for(join(root, cudir), cbase)
        n = rng.choices([0, 1, 2], weights=[25, 60, 15])[0]
        for f in rng.sample(cands, n):
            if file_ext(f) != "css" or rng.random() < 0.3:
                files.setdefault(f, TAIL)
    reps = rng.choice([1, 2, 2, 3])
    files[join(join(E, other), rng.choice(["a.scss", "_a.scss", "a.sass", "a/_index.scss"]))] = role(reps, 1)
    steps = [(rng.choice(KINDS), curl)]
    tail = [[(rng.choice(TAIL_KINDS), curl)] for _ in range(reps)] + \
           [[(rng.choice(TAIL_KINDS), join(other, "a")), (rng.choice(["import", "use", "loadcss"]), curl)]]
    return mk_case(entry, steps, files, lps=lps, mode=mode, tail=tail, rooted=(rng.random() < 0.85) or mode == "std")


def gen_exhaustive(tier):
    """All single-location layouts with at most K present files, for each kind and URL shape."""
    K = 2 if tier == "quick" else 3
    out = []
    shapes = [("main.scss", "n", []), ("sub/main.scss", "foo.bar", []), ("main.scss", "d/n", []),
              ("main.scss", "n.scss", []), ("sub/main.scss", "foo.bar.sass", [])]
    if tier == "thorough":
        shapes += [("main.scss", "n", ["lp1"]), ("main.scss", "n.scss", ["lp1"])]
    for entry, url, lps in shapes:
        udir, base = split_url(url)
        root = lps[0] if lps else dirname(entry)
        cands, decoys = names_for(join(root, udir), base)
        universe = cands + decoys[:4]
        for kind in KINDS:
            for r in range(0, (K if kind != "loadcss" else 1) + 1):
                for sub in itertools.combinations(universe, r):
                    out.append(mk_case(entry, [(kind, url)], {f: 1 for f in sub}, lps=lps,
                                       rooted=(len(out) % 5 != 0)))
    return out


# --------------------------------------------------------------------------------------------
# running a batch of cases: model, implementation, verdicts
# --------------------------------------------------------------------------------------------

class Ctx:
    def __init__(self, ck, pool):
        self.ck, self.pool = ck, pool
        self.root = f"c13d-{os.getpid()}"            # decoy tree on the real disk, inside the runner's cwd
        self.std_root = os.path.join(BUILD, f"c13s-{os.getpid()}")
        self.std_n = 0
        self.decoy_n = 0
        self.af_cur = AF_CUR                         # narrowed by detect_variant() when a witness went stale

    def cleanup(self):
        """Remove the decoy tree and the real-Fs trees.  Unlinking is slow on this volume (ext4 mounted
        with `discard`), so the trees are renamed out of the way and removed by a detached `rm -rf`."""
        doomed = []
        for d in (os.path.join(BUILD, self.root), self.std_root):
            if os.path.isdir(d):
                try:
                    os.rename(d, d + ".del")
                    doomed.append(d + ".del")
                except OSError:
                    doomed.append(d)
        if doomed:
            try:
                subprocess.Popen(["rm", "-rf"] + doomed, stdin=subprocess.DEVNULL, stdout=subprocess.DEVNULL,
                                 stderr=subprocess.DEVNULL, start_new_session=True)
            except OSError:
                for d in doomed:
                    shutil.rmtree(d, ignore_errors=True)


def prefix_of(ctx, case):
    if case["mode"] == "std":
        return case["_std_dir"]
    return case.get("_root", f"{ctx.root}/x") if case["rooted"] else ""


def P(pre, p):
    return join(pre, p) if pre else p


def lst(xs):
    return ",".join(xs) if xs else "-"


def step_tok(s):
    return ("i:" if s[0] == "import" else "u:") + s[1]


def chain_line(af, pre, case):
    allf = [case["entry"]] + sorted(case["files"])
    return "import chain %s %s %s %s %s %s" % (
        af, P(pre, case["entry"]), lst([P(pre, l) for l in case["lps"]]), lst([P(pre, f) for f in allf]),
        lst([P(pre, d) for d in case["dirs"]]),
        "+".join(lst([step_tok(s) for s in ch]) for ch in [case["steps"]] + case.get("tail", [])))


def parse_chain(ans):
    """-> (steps [(res 'L:path'|'E', syn|None, [calls])], info [(doc, existing, ncands)]) or None"""
    if not ans.startswith("ok "):
        return None
    body, _, info = ans[3:].partition(" # ")
    steps = []
    for part in body.split(";"):
        res, _, calls = part.partition("|")
        syn = None
        if res.startswith("L:"):
            res, _, syn = res.rpartition(":")
        steps.append((res, syn, [] if calls == "-" else calls.split(",")))
    inf = []
    for part in info.split(";"):
        doc, ex, nc = part.rsplit(":", 2)
        inf.append((doc, int(ex), int(nc)))
    return steps, inf


def file_contents(case):
    steps, tail = case["steps"], case.get("tail", [])
    out = {}

    def nxt(k):                      # the load performed by a file of role k (0 = the entry's first statement)
        if k < TAIL:
            return (steps[k][0], steps[k][1], k + 1) if k < len(steps) else None
        if k == TAIL:
            return None
        j, i = k // 100 - 1, k % 100
        return (tail[j][i][0], tail[j][i][1], k + 1) if j < len(tail) and i < len(tail[j]) else None
    # further loads of the entry itself, after the first statement
    out[case["entry"]] = content(case["entry"], nxt(0), [(ch[0][0], ch[0][1], role(j, 0)) for j, ch in enumerate(tail)])
    for f, k in case["files"].items():
        out[f] = content(f, nxt(k))
    return out


def loads_of(case, path):
    """the load statements `path` performs, in order (kind, url)"""
    steps, tail = case["steps"], case.get("tail", [])
    if path == case["entry"]:
        return [tuple(steps[0])] + [tuple(ch[0]) for ch in tail] if steps else []
    k = case["files"].get(path)
    if k is None or k == TAIL:
        return []
    if k < TAIL:
        return [tuple(steps[k])] if k < len(steps) else []
    j, i = k // 100 - 1, k % 100
    return [tuple(tail[j][i])] if j < len(tail) and i < len(tail[j]) else []


def impl_job(ctx, case):
    pre = prefix_of(ctx, case)
    cont = file_contents(case)
    if case["mode"] == "std":
        for f, text in cont.items():
            path = os.path.join(pre, f)
            os.makedirs(os.path.dirname(path), exist_ok=True)
            with open(path, "w") as fh:
                fh.write(text)
        for d in case["dirs"]:
            os.makedirs(os.path.join(pre, d), exist_ok=True)
        j = compile_job(entry=P(pre, case["entry"]), load_paths=[P(pre, l) for l in case["lps"]])
        j["fs"] = "std"
        return j
    j = compile_job(files={P(pre, f): t for f, t in cont.items()}, entry=P(pre, case["entry"]),
                    load_paths=[P(pre, l) for l in case["lps"]])
    # both public spellings of the option: Options::load_paths (one call, what the CLI uses) and
    # one Options::load_path call per entry, chosen by a stable hash of the case
    if zlib_crc(case["entry"] + "|".join(case["lps"])) % 2:
        j["options"]["load_paths_api"] = "singular"
    return j


def zlib_crc(text):
    return _crc32(text.encode("utf-8"))


_marker = re.compile(r'm\s*\{\s*f:\s*"([^"]*)";\s*s:\s*([^;}]*?)\s*;?\s*\}')


def observe(ctx, case, ans):
    """Implementation observation, in the model's vocabulary."""
    pre = prefix_of(ctx, case)
    st = ans.get("status")
    ob = {"status": st, "steps": None, "markers": None, "anomaly": None}
    if st == "ok":
        ob["markers"] = sorted((m.group(1), m.group(2)) for m in _marker.finditer(ans.get("css", "")))
    elif st == "err":
        msg = (ans.get("err") or {}).get("message") or ""
        ob["status"] = "notfound" if msg.startswith(NOTFOUND) else "error:" + msg[:80]
        ob["err_at"] = [(ans.get("err") or {}).get("file"), (ans.get("err") or {}).get("begin_line")]
    else:
        ob["status"] = f"{st}:{(ans.get('panic') or ans.get('why') or '')[:80]}"
    if case["mode"] == "std":
        return ob
    calls = ans.get("fs") or []
    if not calls or calls[0][:2] != ["read", P(pre, case["entry"])]:
        ob["anomaly"] = "first Fs call is not the read of the entry file"
        return ob
    # one load = the probes up to the `is_file` that answered true (the file `find_import` returns),
    # followed by at most one read of it (none when the stylesheet cache serves it)
    steps, cur, hit = [], [], None
    for op, path, res in calls[1:]:
        path = path or "-"
        if op == "read":
            if hit is None or steps[-1][0] != "L:" + path or steps[-1][1][-1].startswith("r:"):
                ob["anomaly"] = "read that does not follow the successful is_file of the same path: " + path
                steps.append(("L:" + path, cur + ["r:" + path]))
                cur = []
            else:
                steps[-1][1].append("r:" + path)
            if res != "1":
                ob["anomaly"] = "read of a missing file: " + path
        elif op in ("is_file", "is_dir"):
            cur.append(("f:" if op == "is_file" else "d:") + path)
            if op == "is_file" and res == "1":
                steps.append(("L:" + path, cur))
                cur, hit = [], path
        else:
            ob["anomaly"] = "unknown Fs call " + op
    if cur:
        steps.append(("E", cur))
    ob["steps"] = steps
    return ob


def expected_markers(case, pre, results):
    """markers the output must contain when the loads had these results ('L:path' …, prefixed paths): the
    entry's, one per `@import` of a file, and one per *module* (a file loaded by @use/@forward emits its CSS
    only the first time it is loaded as a module)."""
    def unp(p):
        return p[len(pre) + 1:] if pre and p.startswith(pre + "/") else p
    fs, modules = [case["entry"]], set()
    for res, w in zip(results, plan_walk(case, pre, results)):
        if not res.startswith("L:"):
            continue
        if w is not None and w[1][0] in ("use", "forward"):
            if res in modules:
                continue
            modules.add(res)
        fs.append(unp(res[2:]))
    return sorted((f, expected_s(f)) for f in fs)


def model_obs(case, pre, steps):
    """What the implementation should show if it behaves like this model chain."""
    failed = any(r == "E" for r, _, _ in steps)
    return {"status": "notfound" if failed else "ok",
            "steps": [(r, c) for r, _, c in steps],
            "markers": None if failed else expected_markers(case, pre, [r for r, _, _ in steps])}


def same_obs(case, impl, model):
    if impl["anomaly"]:
        return False
    if impl["status"] != model["status"]:
        return False
    if impl["status"] == "ok" and impl["markers"] != model["markers"]:
        return False
    if case["mode"] == "mem" and impl["steps"] != model["steps"]:
        return False
    return True


def plan_walk(case, pre, results):
    """For the i-th observed/model load (results[i] = 'L:path' | 'E') the (importer, step) it answers to:
    the chains of the entry one after the other; inside a chain each step is relative to the file just
    loaded, and a CSS file or the last step ends the chain.  None where the program performs no further load."""
    entry = P(pre, case["entry"])
    chains = [case["steps"]] + case.get("tail", [])
    out, importer, c, j = [], entry, 0, 0
    for res in results:
        if c >= len(chains):
            out.append(None)
            continue
        out.append((importer, chains[c][j], c))
        if not res.startswith("L:"):
            break
        if file_ext(res[2:]) == "css" or j == len(chains[c]) - 1:
            c, j, importer = c + 1, 0, entry
        else:
            j, importer = j + 1, res[2:]
    return out + [None] * (len(results) - len(out))


def site_line(case, pre, imp_file, chain_no):
    """0-based line of the load statement that failed: the entry performs its chains on consecutive lines,
    every other file performs one load, on its first line; the `sass:meta` prelude may move them down."""
    unp = imp_file[len(pre) + 1:] if pre and imp_file.startswith(pre + "/") else imp_file
    return (chain_no if unp == case["entry"] else 0) + line_shift(unp, loads_of(case, unp))


def plan_complete(case, pre, results):
    """the observed loads are all the loads the program performs (it stops only at a failed load)"""
    if results and results[-1] == "E":
        return True
    chains = [case["steps"]] + case.get("tail", [])
    c, j = 0, 0
    for res in results:
        if c >= len(chains):
            return False
        if file_ext(res[2:]) == "css" or j == len(chains[c]) - 1:
            c, j = c + 1, 0
        else:
            j += 1
    return c == len(chains) and j == 0


def make_disk_decoys(ctx, cases, models):
    """Real files in the runner's cwd at every path the search could probe for these cases (and
    which the in-memory Fs does not have): the result must not depend on them."""
    lines, owner = [], []
    for ci, case in enumerate(cases):
        if not (case["decoy"] and case["mode"] == "mem" and case["rooted"] and models[ci]):
            continue
        pre = prefix_of(ctx, case)
        results = [r for r, _, _ in models[ci][0]]
        for w in plan_walk(case, pre, results):
            if w is None:
                continue
            for af in (ctx.af_cur, AF_SPEC):
                lines.append("import cands %s %s %s %s" % (af, w[0], lst([P(pre, l) for l in case["lps"]]), step_tok(w[1])))
                owner.append(ci)
    n = 0
    for ci, ans in zip(owner, driver(lines) if lines else []):
        if not ans.startswith("ok "):
            continue
        have = {P(prefix_of(ctx, cases[ci]), f) for f in cases[ci]["files"]}
        for c in ans[3:].split(","):
            kind, _, p = c.partition(":")
            if kind != "f" or p in have or "/../" in p:
                continue
            path = os.path.join(BUILD, p)
            if os.path.exists(path):
                continue
            try:
                os.makedirs(os.path.dirname(path), exist_ok=True)
                with open(path, "w") as fh:
                    fh.write(content("DISK-DECOY." + (file_ext(p) or "scss"), None))
                n += 1
            except OSError:
                pass                                   # a decoy file already sits where a directory is needed
    return n


def evaluate(ctx, cases, count=True):
    """-> list of verdict dicts (one per case)."""
    ck, pool = ctx.ck, ctx.pool
    for case in cases:
        if case["mode"] == "std":
            ctx.std_n += 1
            case["_std_dir"] = os.path.join(ctx.std_root, str(ctx.std_n))
        elif case["rooted"] and case["decoy"]:
            ctx.decoy_n += 1                             # its own tree on the real disk
            case["_root"] = f"{ctx.root}/{ctx.decoy_n}"
        elif case["rooted"]:
            case["_root"] = f"{ctx.root}/x"              # a directory that never exists on the real disk
    pres = [prefix_of(ctx, c) for c in cases]
    # the model first (both variants)
    outs = driver([chain_line(af, pre, c) for c, pre in zip(cases, pres) for af in (ctx.af_cur, AF_SPEC)])
    cur = [parse_chain(outs[2 * i]) for i in range(len(cases))]
    spec = [parse_chain(outs[2 * i + 1]) for i in range(len(cases))]
    ndecoy = make_disk_decoys(ctx, cases, cur)
    if ndecoy:
        ck.hist("disk-decoy-files-created", ndecoy)
    answers = pool.map([impl_job(ctx, c) for c in cases], timeout=20)
    impls = [observe(ctx, c, a) for c, a in zip(cases, answers)]
    # P̂ on the implementation's own observation, along its own chain
    dlines, dspan, walks = [], [], []
    for ci, (case, pre, ob) in enumerate(zip(cases, pres, impls)):
        start = len(dlines)
        walk = plan_walk(case, pre, [r for r, _ in ob["steps"]]) if ob["steps"] is not None else [None]
        walks.append(walk)
        if case["mode"] == "mem" and None not in walk:
            allf = [case["entry"]] + sorted(case["files"])
            for (importer, step, _), (res, calls) in zip(walk, ob["steps"]):
                dlines.append("import check %s %s %s %s %s %s %s %s" % (
                    AF_SPEC, importer, lst([P(pre, l) for l in case["lps"]]), lst([P(pre, f) for f in allf]),
                    lst([P(pre, d) for d in case["dirs"]]), step_tok(step), res, lst(calls)))
                if res.startswith("L:"):
                    dlines.append("import syntax " + res[2:])
        dspan.append((start, len(dlines)))
    douts = driver(dlines) if dlines else []
    verdicts = []
    variant_lines, variant_owner = [], []
    attr_lines, attr_owner = [], []
    exact_budget = 1200                                  # failing cases per batch whose class tag is computed exactly
    for ci, (case, pre, ob) in enumerate(zip(cases, pres, impls)):
        v = {"case": case, "impl": ob, "tie": None, "direct": None, "tags": [], "why": [], "ambiguous": False,
             "nontrivial": False, "unsupported": False}
        verdicts.append(v)
        if cur[ci] is None or spec[ci] is None:
            v["unsupported"] = True
            continue
        msteps, minfo = cur[ci]
        ssteps, sinfo = spec[ci]
        mo, so = model_obs(case, pre, msteps), model_obs(case, pre, ssteps)
        v["model"], v["spec"] = mo, so
        v["ambiguous"] = any(i[0] == "ambiguous" for i in minfo + sinfo)
        v["nontrivial"] = any(i[1] >= 2 for i in sinfo)
        v["tie"] = same_obs(case, ob, mo)
        # DIRECT
        why = []
        if ob["anomaly"]:
            why.append(ob["anomaly"])
        if case["mode"] == "mem":
            a, b = dspan[ci]
            if a == b and not ob["anomaly"] and ob["steps"]:
                why.append("more loads observed than the program performs")
            res_fail = False
            failing_checks = []
            for line, ans in zip(dlines[a:b], douts[a:b]):
                if line.startswith("import check"):
                    if ans != "ok holds":
                        why.append(ans)
                        failing_checks.append(line)
                        res_fail = res_fail or " result " in ans
                else:                                   # syntax of a loaded file, seen through its marker
                    p = line.split(" ")[2]
                    unp = p[len(pre) + 1:] if pre else p
                    want = {"ok css": "not a"}.get(ans, "2")
                    if ob["status"] == "ok" and (unp, want) not in (ob["markers"] or []):
                        why.append(f"file {unp} not parsed with the syntax of its extension ({ans})")
            if ob["steps"] is not None and not plan_complete(case, pre, [r for r, _ in ob["steps"]]):
                why.append("fewer loads observed than the program performs")
            last_e = bool(ob["steps"]) and ob["steps"][-1][0] == "E"
            if ob["status"] not in ("ok", "notfound") or (ob["status"] == "notfound") != last_e:
                why.append(f"status {ob['status']} does not fit the loads observed")
            walk = walks[ci]
            if ob["status"] == "notfound" and last_e and walk and walk[-1] is not None:
                # "a URL with no match is an error at the import site": the importing file, the statement's line
                imp_file, _, chain_no = walk[-1]
                site = [imp_file, site_line(case, pre, imp_file, chain_no)]
                if ob.get("err_at") != site:
                    why.append(f"error reported at {ob.get('err_at')} instead of the import site {site}")
            if ob["status"] == "ok" and ob["steps"] is not None:
                want = expected_markers(case, pre, [r for r, _ in ob["steps"]])
                if ob["markers"] != want:
                    why.append("output markers differ from the files read")
            v["result_level"] = res_fail
            if why and len(why) == len(failing_checks) and not v["ambiguous"] and v["tie"] and exact_budget <= 0:
                # grass's observation IS the as-found model's (tie holds), and that model's own output satisfies
                # `checkLoad af_cur` (theorems checkLoad_model / C13_checkLoad_cached): the failure of the `.spec`
                # predicate is the as-found switches'.  Which of them exactly is worked out for a sample only.
                v["tags"], v["by_tie"] = ["as-found"], True
            elif why and len(why) == len(failing_checks) and not v["ambiguous"]:
                exact_budget -= 1
                # every reason is a failed `checkLoad .spec`: is it explained by the known as-found switches?
                # (judged on grass's own observation, independent of the tie)
                for line in failing_checks:
                    rest = line[len("import check 0000 "):]
                    for tag, af in [("cur", ctx.af_cur)] + list(switch_off(ctx.af_cur).items()):
                        attr_lines.append("import check %s %s" % (af, rest))
                        attr_owner.append((ci, tag, " result " in douts[dlines.index(line, a, b)]))
        else:
            if not same_obs(case, ob, so):
                why.append("std Fs: outcome differs from the specified search")
            v["result_level"] = True
        v["why"] = why
        v["direct"] = not why
        if why and not v["ambiguous"] and v["tie"] and case["mode"] == "std":
            for tag, af in switch_off(ctx.af_cur).items():
                variant_lines.append(chain_line(af, pre, case))
                variant_owner.append((ci, tag))
    vouts = driver(variant_lines) if variant_lines else []
    changed = {}
    for (ci, tag), ans in zip(variant_owner, vouts):
        pc = parse_chain(ans)
        v = verdicts[ci]
        if pc is None:
            continue
        vo = model_obs(v["case"], pres[ci], pc[0])
        mo = v["model"]
        res_changed = (vo["status"], [r for r, _ in vo["steps"]]) != (mo["status"], [r for r, _ in mo["steps"]])
        any_changed = res_changed or (v["case"]["mode"] == "mem" and vo["steps"] != mo["steps"])
        changed.setdefault(ci, []).append((tag, res_changed, any_changed))
    for ci, lst3 in changed.items():
        v = verdicts[ci]
        # a wrong *result* is attributed to the switches that change the result; a probes-only failure to
        # those that change the calls; if only a combination of switches explains it, to all of them
        tags = [t for t, rc, _ in lst3 if rc] if v.get("result_level") else []
        tags = tags or [t for t, _, ac in lst3 if ac] or [t for t, _, _ in lst3]
        v["tags"] = tags
    aouts = driver(attr_lines) if attr_lines else []
    per = {}
    for (ci, tag, was_res), ans in zip(attr_owner, aouts):
        per.setdefault(ci, []).append((tag, was_res, ans))
    for ci, rows in per.items():
        v = verdicts[ci]
        if any(tag == "cur" and ans != "ok holds" for tag, _, ans in rows):
            continue                                    # not what the code as it stands is known to do: untagged
        need_res = [t for t, was_res, ans in rows if t != "cur" and was_res and " result " in ans]
        need_any = [t for t, _, ans in rows if t != "cur" and ans != "ok holds"]
        tags = need_res or need_any or list(switch_off(ctx.af_cur))
        v["tags"] = [t for t in SWITCH_BIT if t in tags]
    if count:
        for v in verdicts:
            account(ck, v)
    return verdicts


def detect_variant(ctx):
    """Replay the witness of each known finding: a switch whose witness grass no longer exhibits is
    turned off in the as-found model used for the tie (the entry is then reported as stale)."""
    wit = {"D9": CORPUS[0], "D8b": CORPUS[3], "D10": CORPUS[2]}
    af = AF_CUR
    for tag in ("D9", "D8b", "D10"):                   # D10's witness also shows the D8b probes: decide D8b first
        case = dict(wit[tag], decoy=False)
        pre = prefix_of(ctx, case)
        on, off = (parse_chain(x) for x in driver([chain_line(af, pre, case), chain_line(af_without(af, tag), pre, case)]))
        ob = observe(ctx, case, ctx.pool.map([impl_job(ctx, case)], timeout=20)[0])
        if on and off and not same_obs(case, ob, model_obs(case, pre, on[0])) and same_obs(case, ob, model_obs(case, pre, off[0])):
            af = af_without(af, tag)
    ctx.af_cur = af
    return af


def shape_of(case):
    s = case["steps"][0]
    _, base = split_url(s[1])
    return ("explicit" if explicit(base) else "dotted" if "." in base else "plain") + ("/dir" if "/" in s[1] else "")


def account(ck, v):
    case = v["case"]
    if v["unsupported"]:
        ck.cov["unsupported_dropped"] += 1
        return
    key = {k: case.get(k) for k in ("mode", "rooted", "entry", "lps", "steps", "tail", "dirs")}
    key["files"] = sorted(case["files"].items())
    ck.count(key, v["nontrivial"])
    ck.hist("fs=" + case["mode"])
    ck.hist("steps=%d" % len(case["steps"]))
    if case.get("tail"):
        ck.hist("with-further-loads-from-the-entry")
        if any(st == case["steps"][0][1] for ch in case["tail"] for _, st in ch):
            ck.hist("same-URL-loaded-repeatedly(stylesheet cache in play)")
    ck.hist("kind=" + case["steps"][0][0])
    for s in case["steps"][1:] + [s for ch in case.get("tail", []) for s in ch]:
        ck.hist("later-load-kind=" + s[0])
    ck.hist("url=" + shape_of(case))
    ck.hist("load_paths=%d" % len(case["lps"]))
    ck.hist("files=%d" % min(len(case["files"]), 8))
    if not case["rooted"]:
        ck.hist("entry-in-cwd(parent='')")
    if case["decoy"]:
        ck.hist("with-disk-decoys")
    if v["ambiguous"]:
        ck.hist("ambiguous-layout(excluded from P̂, tie still checked)")
    m = v["model"]
    ck.hist("model:" + m["status"])
    for r, _ in m["steps"]:
        if r.startswith("L:"):
            b = r.rsplit("/", 1)[-1]
            ck.hist("loaded:" + ("partial " if b.startswith("_") else "") + ("index " if b.lstrip("_").startswith("index.") else "")
                    + ("import-only " if ".import." in b else "") + "." + file_ext(b))
    if any(x != y for x, y in zip(v["model"]["steps"], v["spec"]["steps"])) or m["status"] != v["spec"]["status"]:
        ck.hist("as-found model differs from specified model")


# --------------------------------------------------------------------------------------------
# plain-CSS imports
# --------------------------------------------------------------------------------------------

PLAIN_URLS = ["a.css", "A.CSS", "d/b.css", "x.Css", "http://x/y", "HTTP://X/Y", "https://x", "Https://x.scss", "//cdn/x",
              "//a", "//ab", ".css", "a.scss", "a", "css", "abcde", "x.css.scss", "http:/x", "httpx://a", "/a/b", "a.csss",
              "n.sass", "foo.bar", "https:/", "b.css ", "acss", "ab.cs"]
PLAIN_MODS = [None, "screen", "(min-width: 1px)", "screen and (orientation: landscape), print", "supports(display: grid)",
              "supports(not (display: grid)) screen"]


def plain_cases():
    out = []
    for u in PLAIN_URLS:
        for m in PLAIN_MODS:
            out.append((u, False, m))
    for u in ["foo.scss", "a", "http://x"]:
        for m in (None, "screen"):
            out.append((u, True, m))
    return out


def run_plain(ctx):
    ck, pool = ctx.ck, ctx.pool
    cases = plain_cases()
    jobs, lines = [], []
    for u, isurl, m in cases:
        arg = (f"url({u})" if isurl else f'"{u}"') + (" " + m if m else "")
        jobs.append(compile_job(files={"main.scss": f"@import {arg};\nm{{f:\"main.scss\";s:1+1}}\n"}, entry="main.scss",
                                load_paths=["lp1"]))
        lines.append("import plain %s %d %d" % (hexs(u), 1 if isurl else 0, 1 if m else 0))
    answers = pool.map(jobs, timeout=20)
    outs = driver(lines)
    for (u, isurl, m), ans, mo in zip(cases, answers, outs):
        nfs = len(ans.get("fs") or [])
        if ans.get("status") == "ok" and "@import" in ans.get("css", "") and nfs == 1:
            obs = "plain"
        elif ans.get("status") == "err" and (ans.get("err") or {}).get("message", "").startswith(NOTFOUND) and nfs > 1:
            obs = "sass"
        else:
            obs = "other:%s:%s" % (ans.get("status"), ((ans.get("err") or {}).get("message") or "")[:60])
        mm = re.match(r"ok (plain|sass) code=(\d) doc=(\d)$", mo)
        case_text = f'@import {"url(" + u + ")" if isurl else json.dumps(u)}{" " + m if m else ""};'
        if not mm:
            ck.cov["unsupported_dropped"] += 1
            continue
        ck.count(("plain", u, isurl, m), True)
        ck.hist("plain-css:" + obs)
        documented = isurl or bool(m) or (mm.group(3) == "1" and len(u.encode("utf-8")) >= 5)
        if mm.group(3) == "1" and len(u.encode("utf-8")) < 5:
            ck.hist("plain-css:documented-predicate-true-but-url-shorter-than-5")
        if obs != mm.group(1):
            ck.cov["model_disagreements"] += 1
            ctx.disagreements.append({"source": case_text, "model_observation": mm.group(1), "impl_observation": obs})
        if obs != ("plain" if documented else "sass"):
            ck.impl_violation(case_text, {"source": case_text, "impl_observation": obs,
                                          "expected_by_property": "plain CSS import (emitted, Fs untouched)" if documented
                                          else "Sass import (looked up through the Fs)"}, tags=[])


# --------------------------------------------------------------------------------------------
# raw spellings: `.` and empty segments, trailing slash, `..` above the root, absolute paths
# (model: Grass.Import.locsR / chainsR over Rust's std::path operations; ops `chainr`, `checkr`)
# --------------------------------------------------------------------------------------------

def norm_r(p):
    """Rust `Path` equality (components): root / a leading `.` kept, empty and `.` segments dropped."""
    segs = p.split("/")
    if p.startswith("/"):
        head, body = [""], segs[1:]
    elif segs[0] == ".":
        head, body = ["."], segs[1:]
    else:
        head, body = [], segs
    return "/".join(head + [s for s in body if s not in ("", ".")]) or ("/" if head == [""] else "")


def respell(rng, p, hist):
    """another spelling of the relative path `p` that names the same components"""
    segs = p.split("/")
    out = []
    for i, s in enumerate(segs):
        out.append(s)
        if i < len(segs) - 1:
            r = rng.random()
            if r < 0.25:
                out.append(""); hist.add("empty-segment(a//b)")
            elif r < 0.5:
                out.append("."); hist.add("dot-segment(a/./b)")
    return "/".join(out)


RAW_ENTRIES = ["main.scss", "sub/main.scss", "./main.scss", "sub//main.scss", "sub/./deep/main.scss", "/abs/e/main.scss",
               "sub/main.sass", "./sub/main.scss"]
RAW_LPS = ["lp1", "lp1/", "./lp2", "lp2//in", "/abs/lp", ".", "sub/../lp1", "lp1/."]
RAW_BASES = ["n", "n", "foo.bar", "q.scss", "q.sass", "x.import", "_p"]
RAW_BASES2 = ["k", "k", "baz.v", "r.scss", "_s"]


def gen_raw(rng):
    """One or two nested loads whose URL / importing file / load paths are spelled with `.` segments, doubled and
    trailing slashes, leading `./`, `..` (also above the top of the tree) or as absolute paths.  Files are placed
    at the component-normal spelling of model-chosen candidates (and sometimes under another spelling)."""
    hist = set()
    entry = rng.choice(RAW_ENTRIES)
    lps = rng.sample(RAW_LPS, rng.choices([0, 1, 2], weights=[35, 45, 20])[0])
    nsteps = rng.choices([1, 2], weights=[70, 30])[0]
    steps = []
    for k in range(nsteps):
        kind = rng.choice(KINDS)
        base = rng.choice(RAW_BASES if k == 0 else RAW_BASES2)          # distinct names per step: no import loops
        if kind == "import" and base.endswith(".css"):
            base = "n"
        udir = rng.choice(["", "", "d", "d/e", "..", "../..", "../../..", "d/.."])
        url = join(udir, base)
        shape = rng.random()
        if shape < 0.22:
            url = "./" + url; hist.add("url:leading-./")
        elif shape < 0.34:
            url = url + "/"; hist.add("url:trailing-slash")
        elif shape < 0.46:
            url = "/abs/" + url.replace("../", ""); hist.add("url:absolute")
        elif shape < 0.50:
            url = url + "/."; hist.add("url:trailing-/.")
        elif shape < 0.54:
            url = join(udir, ".."); hist.add("url:ends-in-..")
        if "/" in url and rng.random() < 0.6:
            lead = "./" if url.startswith("./") else "/" if url.startswith("/") else ""
            url = lead + respell(rng, url[len(lead):], hist)
        if ".." in url.split("/"):
            hist.add("url:has-..")
        steps.append((kind, url))
    return {"raw": True, "mode": "mem", "rooted": False, "decoy": False, "entry": entry, "lps": lps,
            "steps": [list(s) for s in steps], "tail": [], "files": {}, "dirs": [], "_hist": sorted(hist),
            "_seed": rng.random()}


def chainr_line(case):
    allf = [case["entry"]] + sorted(case["files"])
    return "import chainr %s %s %s %s" % (case["entry"], lst(case["lps"]), lst(allf),
                                         "+".join(lst([step_tok(s) for s in ch]) for ch in [case["steps"]] + case.get("tail", [])))


def populate_raw(cases):
    """Choose the files of each raw case from the model's own candidate list (so that deep candidates, index files
    and load-path candidates are hit), step by step: ask the model for the probes of the chain so far, put a file
    at one of the probed `is_file` paths (component-normal spelling, or as probed), repeat for the next step."""
    import random as _random
    for rnd in range(2):
        lines = [chainr_line(c) for c in cases]
        outs = driver(lines)
        for c, ans in zip(cases, outs):
            pc = parse_chain(ans)
            if pc is None:
                continue
            r = _random.Random(c["_seed"] + rnd)
            msteps = pc[0]
            # the step to give a file to: the first failing one
            for si, (res, _, calls) in enumerate(msteps):
                if res != "E":
                    continue
                probes = [x[2:] for x in calls if x.startswith("f:")]
                if not probes or r.random() < 0.12:
                    break                                   # leave it not found
                for _ in range(r.choice([1, 1, 2])):
                    p = r.choice(probes)
                    key = p if r.random() < 0.3 and file_ext(p) == file_ext(norm_r(p)) else norm_r(p)
                    if key in ("", "/") or key.endswith("/") or any(norm_r(f) == norm_r(key) for f in [c["entry"]] + list(c["files"])):
                        continue
                    c["files"][key] = si + 1
                if r.random() < 0.2:                         # something that only looks like a candidate
                    c["files"].setdefault(norm_r(r.choice(probes)) + ".txt", TAIL)
                break
    return cases


def expected_markers_raw(case, results):
    keys = {norm_r(f): f for f in [case["entry"]] + list(case["files"])}
    fs, modules = [case["entry"]], set()
    for res, w in zip(results, plan_walk(case, "", results)):
        if not res.startswith("L:"):
            continue
        k = norm_r(res[2:])
        if w is not None and w[1][0] in ("use", "forward"):
            if k in modules:
                continue
            modules.add(k)
        fs.append(keys.get(k, "?" + res[2:]))
    return sorted((f, expected_s(f)) for f in fs)


def evaluate_raw(ctx, cases):
    ck, pool = ctx.ck, ctx.pool
    cases = populate_raw(cases)
    outs = driver([chainr_line(c) for c in cases])
    answers = pool.map([impl_job(ctx, c) for c in cases], timeout=20)
    impls = [observe(ctx, c, a) for c, a in zip(cases, answers)]
    dlines, dspan = [], []
    for case, ob in zip(cases, impls):
        start = len(dlines)
        walk = plan_walk(case, "", [r for r, _ in ob["steps"]]) if ob["steps"] is not None else [None]
        if None not in walk:
            allf = [case["entry"]] + sorted(case["files"])
            for (importer, step, _), (res, calls) in zip(walk, ob["steps"]):
                dlines.append("import checkr %s %s %s %s %s %s" % (importer, lst(case["lps"]), lst(allf), step_tok(step), res, lst(calls)))
        dspan.append((start, len(dlines), walk))
    douts = driver(dlines) if dlines else []
    for case, ans, ob, (a, b, walk) in zip(cases, outs, impls, dspan):
        pc = parse_chain(ans)
        if pc is None:
            ck.cov["unsupported_dropped"] += 1
            ck.hist("raw:unsupported")
            continue
        msteps, minfo = pc
        failed = any(r == "E" for r, _, _ in msteps)
        mo = {"status": "notfound" if failed else "ok", "steps": [(r, c) for r, _, c in msteps],
              "markers": None if failed else expected_markers_raw(case, [r for r, _, _ in msteps])}
        key = {k: case.get(k) for k in ("entry", "lps", "steps")}
        key["files"] = sorted(case["files"].items())
        ck.count(("raw", json.dumps(key, sort_keys=True)), any(i[1] >= 1 for i in minfo))
        ck.hist("raw:cases")
        for h in case["_hist"]:
            ck.hist("raw:" + h)
        ck.hist("raw:entry=" + ("absolute" if case["entry"].startswith("/") else "leading-./" if case["entry"].startswith("./")
                                else "respelled" if norm_r(case["entry"]) != case["entry"] else "plain"))
        for l in case["lps"]:
            ck.hist("raw:load-path=" + ("absolute" if l.startswith("/") else "." if l == "." else "trailing-slash" if l.endswith("/")
                                        else "respelled" if norm_r(l) != l or ".." in l else "plain"))
        ck.hist("raw:kind=" + case["steps"][0][0])
        ck.hist("raw:model:" + mo["status"])
        for r, _ in mo["steps"]:
            if r.startswith("L:"):
                ck.hist("raw:loaded:" + ("other-spelling-than-the-file's-key" if r[2:] not in case["files"] else "same-spelling"))
        tie = same_obs(case, ob, mo)
        why = []
        if ob["anomaly"]:
            why.append(ob["anomaly"])
        spec_seen = set()
        for line, dans in zip(dlines[a:b], douts[a:b]):
            m = re.match(r"ok (holds|fails.*) spec=(holds|fails|na)$", dans)
            if not m:
                why.append("checkr: " + dans)
                continue
            spec_seen.add(m.group(2))
            if m.group(1) != "holds":
                why.append("checkLoadR fails on the observation: " + dans + " <- " + line)
            if m.group(2) == "fails":
                why.append("a path handed to the Fs is not (a spelling of) a candidate of the documented search: " + line)
        for s in spec_seen:
            ck.hist("raw:probes-within-documented-candidates=" + s)
        if a == b and not ob["anomaly"] and ob["steps"]:
            why.append("more loads observed than the program performs")
        if ob["steps"] is not None and not plan_complete(case, "", [r for r, _ in ob["steps"]]):
            why.append("fewer loads observed than the program performs")
        last_e = bool(ob["steps"]) and ob["steps"][-1][0] == "E"
        if ob["status"] not in ("ok", "notfound") or (ob["status"] == "notfound") != last_e:
            why.append(f"status {ob['status']} does not fit the loads observed")
        if ob["status"] == "notfound" and last_e and walk and walk[-1] is not None:
            imp_file, _, chain_no = walk[-1]
            site = [imp_file, site_line(case, "", imp_file, chain_no)] if imp_file == case["entry"] else None
            if site is None:                                # a loaded file, named as grass spelled it
                keys = {norm_r(f): f for f in case["files"]}
                unp = keys.get(norm_r(imp_file), imp_file)
                site = [imp_file, line_shift(unp, loads_of(case, unp))]
            if ob.get("err_at") != site:
                why.append(f"error reported at {ob.get('err_at')} instead of the import site {site}")
        if ob["status"] == "ok" and ob["steps"] is not None:
            if ob["markers"] != expected_markers_raw(case, [r for r, _ in ob["steps"]]):
                why.append("output markers differ from the files read")
        text = json.dumps({k: case.get(k) for k in ("raw", "entry", "lps", "steps", "files")}, sort_keys=True)
        payload = {"case": {k: case.get(k) for k in ("raw", "mode", "rooted", "entry", "lps", "steps", "tail", "files", "dirs")},
                   "source_files": file_contents(case), "impl_observation": ob, "model_observation": mo, "verdict": why,
                   "expected_by_property": "loads the first existing candidate of the documented order; probes only candidates"}
        if not tie:
            ck.cov["model_disagreements"] += 1
            ctx.raw_disagreements.append(payload)
        if why:
            ck.impl_violation(text, payload, tags=[])


# --------------------------------------------------------------------------------------------
# generated `@import` argument lists: parser-level classification (model: parseImportArgs, op `args`)
# --------------------------------------------------------------------------------------------

ARG_URLS = ["a", "n", "foo.bar", "a.scss", "x.css.scss", "abcde", "css", "a.csss", "acss", "ab.cs", "http:/x", "httpx://a",
            "https:/", "/a/b", "b.css ", "url", "u", "a.css", "A.CSS", "d/b.css", "x.Css", "http://x/y", "HTTP://X/Y", "https://x",
            "Https://x.scss", "//cdn/x", "//a", "//ab", "//abc", ".css", "a b", "a,b", "(x)", "screen", "#{x}", "é.css", "//é",
            "//éa", "ü.scss", "a.css?q", "a.css#h", "a;b"]
ARG_MODS = ["screen", "(min-width: 1px)", "screen and (orientation: landscape), print", "supports(display: grid)",
            "supports(not (display: grid)) screen", "#{screen}", "-x-y", "_m", "not screen", "only screen and (color)",
            "\\73 creen", "(color)", "SCREEN", "--a"]
ARG_WS = ["", " ", "  ", "\t", " \n ", "\n"]
URL_FN_NAMES = ["url", "URL", "Url", "uRl"]
URL_FN_CONTENTS = ["foo.scss", "a", "http://x", "a.css", "x/y.scss", "//cdn/a", "a!b%c&d*e", "~tilde", "é"]


def rand_url(rng):
    if rng.random() < 0.7:
        return rng.choice(ARG_URLS)
    alphabet = "ab./:cs-_ hHtTpP"
    u = "".join(rng.choice(alphabet) for _ in range(rng.choice([1, 2, 3, 4, 5, 6, 9])))
    return u + rng.choice(["", "", ".css", ".scss", "css"])


def gen_arglist(rng):
    """1-3 arguments; each a quoted string (either quote) or url(...); only the last may carry modifiers
    (they run to the end of the statement).  -> (text, [shape]) with shape = (isUrlFn, url, hasModifiers)."""
    n = rng.choices([1, 2, 3], weights=[55, 30, 15])[0]
    parts, shapes = [], []
    for i in range(n):
        last = i == n - 1
        mods = rng.choice(ARG_MODS) if last and rng.random() < 0.4 else None
        if rng.random() < 0.18:
            name, cont = rng.choice(URL_FN_NAMES), rng.choice(URL_FN_CONTENTS)
            t = f"{name}({cont})"
            shapes.append((True, cont, bool(mods)))
        else:
            u = rand_url(rng)
            q = rng.choice('"\'')
            if q in u:
                u = u.replace(q, "")
            t = q + u + q
            shapes.append((False, u, bool(mods)))
        ws = rng.choice(ARG_WS)
        if mods:
            t += (ws or (" " if rng.random() < 0.7 else "")) + mods      # also directly attached: `"a"screen`, `"a"(color)`
        else:
            t += ws
        parts.append(rng.choice(ARG_WS[:3]) + t)
    return ",".join(parts), shapes


_import_rule = re.compile(r"@import ([^;]*);")


def arg_file(u):
    """the only file present for the Sass import of URL text `u`: the literal name when it ends in .scss/.sass
    (with a stem), else `<u>.scss`"""
    b = u.rsplit("/", 1)[-1]
    return u if re.search(r".\.(scss|sass)$", b) else u + ".scss"


def run_args(ctx, n):
    """TIE: the kinds (plain / sass with this URL text) grass gives the arguments of a generated `@import` rule
    = parseImportArgs on the same text.  DIRECT: they are the documented kinds of the shapes the text was built
    from (Lean importKind, theorem C13_import_kind).  Each Sass argument's file exists, so every argument is reached."""
    ck, pool, rng = ctx.ck, ctx.pool, ctx.ck.rng
    cases, seen = [], set()
    for _ in range(n * 3):
        text, shapes = gen_arglist(rng)
        if text not in seen:
            seen.add(text)
            cases.append((text, shapes))
        if len(cases) >= n:
            break
    jobs, lines, plines = [], [], []
    for text, shapes in cases:
        files = {"main.scss": f"@import {text};\nm{{f:\"main.scss\";s:1+1}}\n"}
        for isurl, u, mods in shapes:
            if not isurl and u:
                # the file a Sass import of this URL resolves to (harmless when the argument is a plain import)
                f = arg_file(u)
                files.setdefault(f, ('k\n  u: "%s"\n' if f.endswith(".sass") else 'k{u:"%s"}\n') % hexs(f))
        jobs.append(compile_job(files=files, entry="main.scss"))
        lines.append("import args " + hexs(text))
        for isurl, u, mods in shapes:
            plines.append("import plain %s %d %d" % (hexs(u), 1 if isurl else 0, 1 if mods else 0))
    answers = pool.map(jobs, timeout=20)
    outs = driver(lines)
    pouts = iter(driver(plines))
    for (text, shapes), ans, mo in zip(cases, answers, outs):
        docs = [next(pouts) for _ in shapes]
        src = f"@import {text};"
        if not mo.startswith("ok "):
            ck.cov["unsupported_dropped"] += 1
            ck.hist("args:unsupported-by-the-model")
            continue
        model_kinds = mo[3:].split("|")
        ck.count(("args", text), True)
        ck.hist("args:rules")
        ck.hist("args:arguments=%d" % len(shapes))
        for (isurl, u, mods), k in zip(shapes, model_kinds):
            ck.hist("args:" + ("url()" if isurl else "string") + ("+modifiers" if mods else "") + " -> " + k[:1])
            if any(ord(ch) > 127 for ch in u):
                ck.hist("args:non-ascii-url")
        # observation
        if ans.get("status") == "ok":
            css = ans.get("css", "")
            n_plain = len(_import_rule.findall(css))
            loaded = [bytes.fromhex(h).decode() if h != "-" else "" for h in re.findall(r'u:\s*"([0-9a-f-]*)"', css)]
            obs = {"plain": n_plain, "sass": loaded}
        else:
            obs = {"other": "%s:%s" % (ans.get("status"), ((ans.get("err") or {}).get("message") or "")[:80])}
        want_model = {"plain": sum(1 for k in model_kinds if k == "P"),
                      "sass": [arg_file(unhex(k[2:])) if k[2:] else "" for k in model_kinds if k.startswith("S:")]}
        doc_kinds = []
        for d in docs:
            mm = re.match(r"ok (plain|sass) ", d)
            doc_kinds.append(mm.group(1) if mm else "?")
        want_doc = {"plain": sum(1 for k in doc_kinds if k == "plain"),
                    "sass": [arg_file(u) for (isurl, u, mods), k in zip(shapes, doc_kinds) if k == "sass"]}
        if obs != want_model:
            ck.cov["model_disagreements"] += 1
            ctx.disagreements.append({"source": src, "model_observation": want_model, "impl_observation": obs})
        if obs != want_doc:
            ck.impl_violation(src, {"source": src, "impl_observation": obs, "expected_by_property": want_doc,
                                    "shapes": shapes}, tags=[])


# --------------------------------------------------------------------------------------------
# reporting
# --------------------------------------------------------------------------------------------

def case_text(case):
    return json.dumps({k: case.get(k, []) for k in ("mode", "rooted", "entry", "lps", "steps", "tail", "files", "dirs")},
                      sort_keys=True)


def describe(v):
    case = v["case"]
    d = {"case": {k: case.get(k, []) for k in ("mode", "rooted", "entry", "lps", "steps", "tail", "files", "dirs", "decoy")},
         "source_files": file_contents(case), "impl_observation": v["impl"],
         "model_observation": v.get("model"), "specified_observation": v.get("spec"),
         "verdict": v["why"], "tags": v["tags"],
         "expected_by_property": "loads exactly the files the documented search order selects, probing only its candidates"}
    if case.get("note"):
        d["note"] = case["note"]
    return d


def size(case):
    return len(case["files"]) + 3 * len(case["steps"]) + 3 * len(case.get("tail", [])) + len(case["lps"])


def bad(v):
    """untagged direct failure, or tie broken"""
    if v["unsupported"]:
        return False
    return (v["direct"] is False and not v["ambiguous"] and not v["tags"]) or v["tie"] is False


def shrink(ctx, v):
    """Greedy: drop files / load paths / trailing steps while the case stays bad (in the same way)."""
    best = v
    need_result = bool(v.get("result_level")) and v["direct"] is False
    for _ in range(40):
        case = best["case"]
        cands = []
        for f in case["files"]:
            c = dict(case, files={g: k for g, k in case["files"].items() if g != f})
            cands.append(c)
        for i in range(len(case["lps"])):
            cands.append(dict(case, lps=case["lps"][:i] + case["lps"][i + 1:]))
        if case.get("tail"):
            nt = len(case["tail"]) - 1
            cands.append(dict(case, tail=case["tail"][:nt], files={g: s for g, s in case["files"].items() if s // 100 != nt + 1}))
        if len(case["steps"]) > 1:
            k = len(case["steps"]) - 1
            cands.append(dict(case, steps=case["steps"][:k],
                              files={g: s for g, s in case["files"].items() if s <= k or s == TAIL}))
        if not cands:
            break
        vs = evaluate(ctx, [dict(c, decoy=False) for c in cands], count=False)
        nxt = next((x for x in vs if bad(x) and (not need_result or (x.get("result_level") and x["direct"] is False))), None)
        if nxt is None:
            break
        best = nxt
    return best


def run(tier, seed):
    ck = Check("C13", tier, seed)
    ck.cov["rule"] = (
        "one compile job per virtual tree: entry file in cwd / a subdirectory, 1-3 nested loads (@import / @use / @forward, each "
        "resolved relative to the file the previous one loaded), URL = optional directory (incl. `..`) + plain, dotted or "
        "`.import` basename, optionally with explicit .scss/.sass/.css; 0-3 load paths; every location (importing file's "
        "directory, each load path) populated with a random subset of the 24 candidate names (partials, index files, three "
        "extensions, .import variants; explicit URLs: literal, partial, import-only siblings) plus decoys (other extensions, "
        "bare name, stem.scss for dotted names, directory without index); exhaustive single-location layouts of <=2 (quick) / "
        "<=3 (thorough) present files for 3 kinds x 5 URL shapes; real decoy files on disk in the runner's cwd at every "
        "probed path for a sample (own tree per case); further loads started by the entry itself after the nested chain, and "
        "the same URL string loaded 2-4 times and then again from a file in another directory (stylesheet cache in play); "
        "a sample on the real Fs (temp tree); plain-CSS import arguments; for a failed load the error site (importing file, "
        "line of the statement). Loads are @import / @use / @forward / meta.load-css (also nested and repeated). "
        "Raw-spelling family: importing file, URL and load paths spelled with `.` and empty segments, leading ./, trailing "
        "slash, `..` above the top, absolute paths; files placed at candidates chosen from the model's own probe list under the "
        "same or another spelling (tie on the exact ordered Fs call list; Lean checkLoadR + probesWithinSpec on grass's observation). "
        "Argument family: generated `@import` argument lists (1-3 arguments: either quote, url() in four casings, white space, 14 modifier "
        "shapes, non-ASCII URLs) against the parser-level model parseImportArgs and the documented kinds. A case is distinct by its "
        "tree+program and non-trivial when some load has >=2 existing candidates of the specified search.")
    ck.assumptions = [
        "component-level model: paths are '/'-separated component lists; URLs relative, no empty or '.' component (driver answers "
        "`unsupported` otherwise); raw model: any spelling over [A-Za-z0-9._~+@/-], std::path semantics for unix",
        "in-memory Fs of the runner: a directory exists iff some file lies below it; Fs::canonicalize is the identity there",
        "which file was parsed with which syntax is observed through a marker rule whose text is valid only in that syntax",
        "layouts with two existing files in the winning same-priority group (dart-sass: ambiguous) are excluded from P̂ "
        "(grass has no such error and takes the first in probe order; the tie with the model is still checked on them)"]
    ck.do_prove(cores=("import",))
    log(f"[C13] proof step done at {time.time() - ck.t0:.0f}s")
    if not ck.do_build_runner():
        ck.unproved("correspondence-broken", {"why": "runner does not build against /repo", "error": getattr(ck, "build_error", "")})
        return ck.finish()
    log(f"[C13] runner built at {time.time() - ck.t0:.0f}s")
    ctx = Ctx(ck, RunnerPool())
    ctx.disagreements = []
    ctx.raw_disagreements = []
    try:
        return _run(ck, ctx, tier)
    finally:
        ctx.cleanup()
        log(f"[C13] cleaned up at {time.time() - ck.t0:.0f}s")


def _run(ck, ctx, tier):
    rng = ck.rng
    af = detect_variant(ctx)
    ck.cov["as_found_variant"] = {"d9": af[0], "d10": af[1], "d8b": af[2], "d8": af[3]}
    if af != AF_CUR:
        log(f"[C13] grass no longer shows every known finding: as-found model variant {af} used for the tie")
    cases = [dict(c) for c in CORPUS]
    cases += gen_exhaustive(tier)
    n_rand = 4000 if tier == "quick" else 140000
    n_std = 200 if tier == "quick" else 3000
    n_decoy = 300 if tier == "quick" else 2000
    n_rep = 500 if tier == "quick" else 15000
    if getattr(ck, "changed", None) and tier == "quick":
        # the modelled sources differ from the snapshot the model was validated against: look harder
        n_rand, n_rep = 2 * n_rand, 3 * n_rep
    rnd = [gen_random(rng) for _ in range(n_rand)]
    for c in rnd[:n_decoy]:
        c["decoy"] = c["rooted"]
    for c in cases[:120]:
        c["decoy"] = c["rooted"]
    cases += rnd
    cases += [gen_repeat(rng) for _ in range(n_rep)]
    cases += [gen_random(rng, mode="std") for _ in range(n_std)]
    cases += [gen_repeat(rng, mode="std") for _ in range(50 if tier == "quick" else 500)]
    verdicts = []
    CH = 20000
    for off in range(0, len(cases), CH):
        vs = evaluate(ctx, cases[off:off + CH])
        for v in vs:
            if not v["unsupported"] and not bad(v):       # keep the outcome, drop the call sequences
                for o in (v["impl"], v.get("model"), v.get("spec")):
                    if o and o.get("steps"):
                        o["steps"] = [(r, None) for r, _ in o["steps"]]
        verdicts += vs
        log(f"[C13] evaluated {min(off + CH, len(cases))}/{len(cases)} cases")
    run_plain(ctx)
    run_args(ctx, 1500 if tier == "quick" else 15000)
    log(f"[C13] import-argument lists done at {time.time() - ck.t0:.0f}s")
    n_raw = 2000 if tier == "quick" else 20000
    for off in range(0, n_raw, 20000):
        evaluate_raw(ctx, [gen_raw(rng) for _ in range(min(20000, n_raw - off))])
    log(f"[C13] raw spellings done at {time.time() - ck.t0:.0f}s")
    for v in verdicts[::max(1, len(verdicts) // 8)]:
        if not v["unsupported"]:
            ck.sample({"case": case_text(v["case"]), "impl": v["impl"]["status"],
                       "loaded": [r for r, _ in (v["impl"]["steps"] or [])] or v["impl"]["markers"],
                       "model": [r for r, _ in v["model"]["steps"]], "specified": [r for r, _ in v["spec"]["steps"]]})

    ties_broken = [v for v in verdicts if v["tie"] is False]
    ck.cov["model_disagreements"] += len(ties_broken)
    failing = [v for v in verdicts if v["direct"] is False and not v["ambiguous"]]
    for v in failing:
        ck.hist("P̂-fails:" + ("result" if v.get("result_level") else "probes-only") + ":" + ("+".join(v["tags"]) or "UNTAGGED"))

    proof_ok = bool(ck.proof and ck.proof["ok"])
    if (not proof_ok or ties_broken) and not [v for v in failing if not v["tags"]] and tier == "quick":
        log("[C13] proof or correspondence broken: enlarging the search")
        extra = [gen_random(rng) for _ in range(30000)]
        ev = []
        for off in range(0, len(extra), 15000):
            ev += evaluate(ctx, extra[off:off + 15000], count=False)
        failing += [v for v in ev if v["direct"] is False and not v["ambiguous"]]
        ties_broken += [v for v in ev if v["tie"] is False]

    # tagged failures: one KNOWN-FINDING line per id, smallest witness first
    failing.sort(key=lambda v: (size(v["case"]), case_text(v["case"])))
    untagged, seen_tagsets = [], set()
    for v in failing:
        ts = tuple(v["tags"])
        if v.get("by_tie"):
            ck.cov["impl_property_failures"] += 1          # explained by the as-found model (tie holds), see evaluate()
        elif ts and ts in seen_tagsets:
            ck.cov["impl_property_failures"] += 1          # same class as an already reported known finding
        elif ts:
            full = evaluate(ctx, [dict(v["case"], decoy=False)], count=False)[0]      # with the call sequences again
            if ck.impl_violation(case_text(v["case"]), describe(full if full["tags"] == v["tags"] else v), tags=v["tags"]):
                untagged.append(v)                          # tag without a known-findings entry
            else:
                seen_tagsets.add(ts)
        else:
            untagged.append(v)
    untagged.sort(key=lambda v: (not v.get("result_level"), size(v["case"])))     # wrong file / wrong outcome first
    reported = 0
    for i, v in enumerate(untagged):
        if i >= 3:
            ck.cov["impl_property_failures"] += 1
            continue
        small = shrink(ctx, v) if v["case"]["mode"] == "mem" else v
        d = describe(small)
        d["shrunk_from"] = case_text(v["case"])
        if ck.impl_violation(case_text(small["case"]), d, tags=small["tags"]):
            reported += 1
    stale = [k for k in ("D9", "D10", "D8b") if k not in [x["id"] for x in ck.known_seen]]
    if stale:
        ck.notes.append("known findings whose witness no longer fails (stale entries): " + ", ".join(stale))
    if ties_broken and not reported:
        ties_broken.sort(key=lambda v: size(v["case"]))
        small = shrink(ctx, ties_broken[0]) if ties_broken[0]["case"]["mode"] == "mem" else ties_broken[0]
        ck.unproved("correspondence-broken", {
            "correspondence": f"Grass.Import.chain (as-found variant {ctx.af_cur}) vs grass (loaded files, error, Fs call sequence)",
            "cases": [describe(small)] + [describe(v) for v in ties_broken[1:3]], "count": len(ties_broken)})
    elif ctx.raw_disagreements and not reported:
        ctx.raw_disagreements.sort(key=lambda d: len(json.dumps(d["case"])))
        ck.unproved("correspondence-broken", {
            "correspondence": "Grass.Import.chainsR (find_import over std::path on raw spellings) vs grass (loaded files, error, Fs call sequence)",
            "cases": ctx.raw_disagreements[:3], "count": len(ctx.raw_disagreements)})
    elif ctx.disagreements and not reported:
        ck.unproved("correspondence-broken", {"correspondence": "Grass.Import.importKind / parseImportArgs vs grass", "cases": ctx.disagreements[:5]})
    return ck.finish()


def replay(path):
    r = json.load(open(path))
    ck = Check("C13", "quick", 0)
    ck.do_build_runner()
    ctx = Ctx(ck, RunnerPool(1))
    ctx.disagreements = []
    ctx.raw_disagreements = []
    try:
        cs = []
        if "case" in r:
            cs = [r["case"]]
        elif "cases" in r:
            cs = [c["case"] for c in r["cases"] if "case" in c]
        if not cs:
            print(json.dumps(r, indent=1)[:4000])
            return 0
        rc = 0
        for case in cs:
            case = mk_case(case["entry"], case["steps"], case["files"], lps=case["lps"], mode=case["mode"],
                           rooted=case["rooted"], dirs=case.get("dirs", ()), decoy=case.get("decoy", False),
                           tail=case.get("tail", ()))
            v = evaluate(ctx, [case], count=False)[0]
            print("case   :", case_text(case))
            print("impl   :", json.dumps(v["impl"]))
            print("model  :", json.dumps(v.get("model")))
            print("spec   :", json.dumps(v.get("spec")))
            print("(a) proof: run `./check C13` | (b) tie:", v["tie"], "| (c) direct:", v["direct"], v["why"], "tags:", v["tags"],
                  "ambiguous:", v["ambiguous"])
            if bad(v):
                rc = 1
        return rc
    finally:
        ctx.cleanup()
