"""C20 — the command-line tool mirrors the library and signals failure correctly.

(a) PROOF   GrassProofs.C20: flags → Options, reading of the command line (round trip over the
            canonical rendering, load-path order), what `main` does with the library's result.
(b) TIE     the built binary (from /repo's CURRENT tree) is run on the same inputs as the library
            (the runner, in-process, std Fs + std Logger, options = the MODEL's `optionsOf` of the
            MODEL's reading of argv); model's `parse` verdict (ok / usage error) vs the binary's;
            the list of clap arguments in main.rs vs the list the model was written against.
(c) DIRECT  P̂ `agreesRun (runCli argv env) observed` — the whole tool: table-driven reading of argv, then
            `main` as an effect trace, the library's result and the text StdLogger prints for the library's
            Logger calls (`renderLog`) — evaluated by the Lean driver on the observed (exit code, stdout,
            stderr, output file) of every run.
Round 3: tools/translate_cli.py regenerates lean/Grass/Generated/CliTable.lean from main.rs before the proof
step (C20_parse_table_driven: the model's table = the regenerated one); an exhaustive grid (all 16 flag sets ×
{file, --stdin} × {stdout, file}) on a small input set; path / argv edge cases; OUTPUT = INPUT (known finding).
"""
import concurrent.futures
import json
import os
import queue
import re
import shutil
import subprocess
import threading
import time

import corpus
import translate_cli
import vlib
from vlib import BUILD, REPO, RUNNER_BIN, Check, _Worker, driver, hexs, log, unhex

# --------------------------------------------------------------------------------------------
# static tie: the clap arguments of main.rs
# --------------------------------------------------------------------------------------------

# (id, long, short, hidden, takes a value) as the model Grass/Cli.lean was written against
MODEL_ARGS = {
    "version": ("version", "v", False, False), "STDIN": ("stdin", None, False, False),
    "INDENTED": ("indented", None, True, True), "LOAD_PATH": ("load-path", "I", False, True),
    "STYLE": ("style", "s", False, True), "NO_CHARSET": ("no-charset", None, False, False),
    "UPDATE": ("update", None, True, True), "NO_ERROR_CSS": ("no-error-css", None, True, True),
    "NO_SOURCE_MAP": ("no-source-map", None, True, True), "SOURCE_MAP_URLS": ("source-map-urls", None, True, True),
    "EMBED_SOURCES": ("embed-sources", None, True, True), "EMBED_SOURCE_MAP": ("embed-source-map", None, True, True),
    "WATCH": ("watch", None, True, True), "POLL": ("poll", None, True, True),
    "NO_STOP_ON_ERROR": ("no-stop-on-error", None, True, True), "INTERACTIVE": ("interactive", "i", True, True),
    "NO_COLOR": ("no-color", "c", True, False), "VERBOSE": ("verbose", None, True, False),
    "NO_UNICODE": ("no-unicode", None, False, False), "QUIET": ("quiet", "q", False, False),
    "INPUT": (None, None, False, True), "OUTPUT": (None, None, False, True), "PRECISION": ("precision", None, True, True),
}


def read_clap_args(repo):
    src = open(os.path.join(repo, "crates/lib/src/main.rs"), encoding="utf-8").read()
    out = {}
    parts = re.split(r"Arg::new\(\"([A-Za-z_]+)\"\)", src)
    for k in range(1, len(parts), 2):
        ident, body = parts[k], parts[k + 1]
        body = body.split("Arg::new(")[0]
        body = body[:body.find("\n}")] if "\n}" in body else body
        long_ = re.search(r"\.long\(\"([^\"]+)\"\)", body)
        short = re.search(r"\.short\('(.)'\)", body)
        hidden = bool(re.search(r"\.hide\(true\)", body))
        flag = bool(re.search(r"ArgAction::(SetTrue|Version|Help|Count)", body))
        out[ident] = (long_.group(1) if long_ else None, short.group(1) if short else None, hidden, not flag)
    options_block = re.search(r"let options = &Options::default\(\)(.*?);", src, re.S)
    mapping = re.sub(r"\s+", "", options_block.group(1)) if options_block else ""
    return out, mapping


MODEL_MAPPING = ('.load_paths(&load_paths).style(style).quiet(matches.get_flag("QUIET"))'
                 '.unicode_error_messages(!matches.get_flag("NO_UNICODE")).allows_charset(!matches.get_flag("NO_CHARSET"))')

# --------------------------------------------------------------------------------------------
# runner workers with a chosen working directory (relative paths must mean the same thing to the
# binary and to the library)
# --------------------------------------------------------------------------------------------


class CwdWorker(_Worker):
    def __init__(self, cwd):
        super().__init__()
        self.cwd = cwd

    def start(self):
        self.p = subprocess.Popen([RUNNER_BIN], stdin=subprocess.PIPE, stdout=subprocess.PIPE,
                                  stderr=subprocess.DEVNULL, cwd=self.cwd)
        self.buf = b""


def runner_map(jobs, cwd, timeout=20.0, n=None):
    jobs = list(jobs)
    res = [None] * len(jobs)
    q = queue.Queue()
    for i, j in enumerate(jobs):
        q.put((i, j))

    def work():
        w = CwdWorker(cwd)
        while True:
            try:
                i, j = q.get_nowait()
            except queue.Empty:
                break
            res[i] = w.run(j, timeout)
        w.stop()

    ts = [threading.Thread(target=work) for _ in range(min(n or min(16, os.cpu_count() or 4), max(1, len(jobs))))]
    for t in ts:
        t.start()
    for t in ts:
        t.join()
    w = CwdWorker(cwd)
    for i, r in enumerate(res):
        if r.get("status") in ("timeout", "abort"):
            r2 = w.run(jobs[i], timeout * 10)
            r2["first_attempt"] = r.get("status")
            res[i] = r2
    w.stop()
    return res


# --------------------------------------------------------------------------------------------
# inputs
# --------------------------------------------------------------------------------------------

def I(name, text, ext="scss", lib=None, stdin_ok=True, tags=()):
    """text: str or bytes.  lib: {dirname: {filename: text}} load-path directories (in -I order)."""
    return {"name": name, "text": text, "ext": ext, "lib": lib or {}, "stdin_ok": stdin_ok, "tags": list(tags)}


def fixed_inputs():
    big = "".join(f".r{i} {{ width: {i}px; content: \"{'x' * 40}\"; }}\n" for i in range(1200))
    return [
        I("plain", "a { b: c; }\n"),
        I("empty", ""),
        I("only-comment", "/* hi */\n"),
        I("nested", "a { b { c: d; } &:hover { e: f } }"),
        I("non-ascii", "a { content: \"é → ü\"; }", tags=["charset"]),
        I("non-ascii-selector", ".café { b: c }", tags=["charset"]),
        I("warn", "@warn \"careful\"; a { b: c }", tags=["warn"]),
        I("debug", "@debug 1 + 1; a { b: c }", tags=["warn"]),
        I("warn-loop", "@for $i from 1 through 3 { @warn \"w#{$i}\"; @debug $i; } a { b: c }", tags=["warn"]),
        I("warn-in-mixin", "@mixin m($x) { @warn \"in m: #{$x}\"; y: $x } a { @include m(1); @include m(2) }", tags=["warn"]),
        I("warn-non-ascii", "@warn \"señal ✓\"; a { b: \"ü\" }", tags=["warn", "charset"]),
        I("warn-then-error", "@warn \"first\"; @debug \"second\"; a { b: $undefined }", tags=["warn", "error"]),
        I("warn-text-looks-like-css", "@warn \"a { injected: css }\"; x { y: z }", tags=["warn"]),
        I("undefined-var", "a { b: $x }", tags=["error"]),
        I("syntax-error", "a { b: c", tags=["error"]),
        I("at-error", "@error \"custom message\";", tags=["error"]),
        I("error-non-ascii-line", "a { b: \"héllo → wörld\" + $nope }", tags=["error", "charset"]),
        I("error-multiline", "a {\n  b: c;\n  d: {\n    e: 1 +;\n  }\n}\n", tags=["error"]),
        I("error-after-output", "a { b: c } d { e: f } g { h: 1px + 1s }", tags=["error"]),
        I("import-lp", "@import \"part\"; a { b: $from-part }", lib={"lib1": {"_part.scss": "$from-part: lib1;"}}, tags=["import"]),
        I("use-lp", "@use \"mod\"; a { b: mod.$v; c: mod.f(2) }",
          lib={"lib1": {"_mod.scss": "$v: 7; @function f($x) { @return $x * 2 }"}}, tags=["import"]),
        I("import-lp-order", "@import \"p\"; a { b: $which }",
          lib={"lib1": {"_p.scss": "$which: first;"}, "lib2": {"_p.scss": "$which: second;"}}, tags=["import", "order"]),
        I("import-lp-second-only", "@import \"only2\"; a { b: $w }",
          lib={"lib1": {"_other.scss": "$z: 0;"}, "lib2": {"_only2.scss": "$w: two;"}}, tags=["import", "order"]),
        I("import-missing", "@import \"nowhere\"; a { b: c }", lib={"lib1": {"_x.scss": ""}}, tags=["import", "error"]),
        I("import-error-inside", "@import \"bad\"; a { b: c }", lib={"lib1": {"_bad.scss": "a { b: $nope }"}}, tags=["import", "error"]),
        I("import-warn-inside", "@import \"w\"; a { b: c }", lib={"lib1": {"_w.scss": "@warn \"from lib\"; @debug \"dbg lib\";"}}, tags=["import", "warn"]),
        I("big-output", big, tags=["big"]),
        I("sass-ext", "a\n  b: c\n  d\n    e: f\n", ext="sass", stdin_ok=False),
        I("sass-ext-error", "a\n  b: $x\n", ext="sass", stdin_ok=False, tags=["error"]),
        I("css-ext", "a { b: c; }\n@media screen { d { e: f } }\n", ext="css", stdin_ok=False),
        I("css-ext-sass-feature", "a { b: $x; }\n", ext="css", stdin_ok=False, tags=["error"]),
        I("non-utf8", b"a { b: \"\xff\xfe\" }", tags=["error", "non-utf8"]),
        I("bom", "﻿a { b: c }"),
        I("charset-rule", "@charset \"UTF-8\";\na { b: \"é\" }", tags=["charset"]),
        I("compressed-sensitive", "a { b: 0.5px; c: rgba(0,0,0,0.5); d: 1 + 1 } /* loud */ e { f: #ffffff }"),
        I("keyframes-media", "@media (min-width: 1px) { a { b: c } } @keyframes k { from { a: b } to { a: c } }"),
        I("deprecation-slash", "a { b: (1/2); c: math.div(1,2) }", tags=["error"]),
    ]


def gen_inputs(rng, n):
    out = []
    for k in range(n):
        parts = []
        tags = set()
        for _ in range(rng.randint(1, 5)):
            c = rng.choice(["rule", "rule", "var", "warn", "debug", "nonascii", "mixin", "loop", "err", "import"])
            i = rng.randint(0, 99)
            if c == "rule":
                parts.append(f".s{i} {{ p{i}: {rng.choice(['1px', 'red', '1 + 2', '#abcdef', 'a b c', '0.50'])}; .n {{ q: r }} }}")
            elif c == "var":
                parts.append(f"$v{i}: {i}; .v{i} {{ w: $v{i} * 2 }}")
            elif c == "warn":
                parts.append(f"@warn \"w{i} {rng.choice(['', 'é', '{}', ';', 'a{b:c}'])}\";")
                tags.add("warn")
            elif c == "debug":
                parts.append(f"@debug \"d{i}\" {i};")
                tags.add("warn")
            elif c == "nonascii":
                parts.append(f".u{i} {{ content: \"{rng.choice(['é', '✓', '日本', 'ß→'])}\" }}")
                tags.add("charset")
            elif c == "mixin":
                parts.append(f"@mixin m{i}($a: 1) {{ m: $a }} .m{i} {{ @include m{i}({i}) }}")
            elif c == "loop":
                parts.append(f"@each $x in a, b {{ .l{i}-#{{$x}} {{ z: $x }} }}")
            elif c == "err" and rng.random() < 0.5:
                parts.append(rng.choice([f".e{i} {{ x: $undef{i} }}", f".e{i} {{ x: 1px + 1s }}", f".e{i} {{ x: ", f"@error \"boom {i} é\";",
                                         f".e{i} {{ @include nomixin }}", f".e{i} {{ x: nofn(1,) + }}"]))
                tags.add("error")
            elif c == "import":
                parts.append("@import \"gl\"; .i { j: $gl }")
                tags.add("import")
        lib = {"lib1": {"_gl.scss": "$gl: 1;"}} if "import" in tags else {}
        if "import" in tags and rng.random() < 0.3:
            lib = {"libA": {"_gl.scss": "$gl: A;"}, "libB": {"_gl.scss": "$gl: B; @warn \"B loaded\";"}}
        out.append(I(f"gen{k}", "\n".join(parts), lib=lib, tags=sorted(tags)))
    return out


def corpus_inputs(rng, n):
    cs, _ = corpus.load()
    out = []
    for c in rng.sample(cs, min(n, len(cs))):
        syn = c["options"].get("syntax", "scss")
        out.append(I("corpus:" + c["file"] + ":" + c["name"], c["input"], ext=syn, stdin_ok=(syn == "scss"),
                     tags=["corpus"] + (["error"] if c["kind"] == "error" else [])))
    return out


# --------------------------------------------------------------------------------------------
# command lines
# --------------------------------------------------------------------------------------------

def spell_flags(rng, fl, lps, canonical=False):
    """Random spelling of a flag set: list of argument groups (each group stays together)."""
    groups = []
    if fl["compressed"]:
        groups.append(["--style", "compressed"] if canonical else rng.choice(
            [["--style", "compressed"], ["--style=compressed"], ["-s", "compressed"], ["-t", "compressed"],
             ["--style=COMPRESSED"], ["-s", "Compressed"]]))
    elif not canonical and rng.random() < 0.15:
        groups.append(rng.choice([["--style", "expanded"], ["--style=Expanded"], ["-s", "expanded"]]))
    lp_groups = []
    for p in lps:
        lp_groups.append(["-I", p] if canonical else rng.choice([["-I", p], ["-I" + p], ["--load-path", p], ["--load-path=" + p]]))
    if fl["no_charset"]:
        groups.append(["--no-charset"])
    if fl["quiet"]:
        groups.append(["--quiet"] if canonical else rng.choice([["--quiet"], ["-q"]]))
    if fl["no_unicode"]:
        groups.append(["--no-unicode"])
    if canonical:
        return groups[:1 if fl["compressed"] else 0] + lp_groups + groups[1 if fl["compressed"] else 0:]
    # load paths keep their relative order (it is observable); everything else is shuffled around them
    rng.shuffle(groups)
    merged = list(groups)
    pos = sorted(rng.randint(0, len(merged)) for _ in lp_groups)
    for off, (k, g) in enumerate(zip(pos, lp_groups)):
        merged.insert(k + off, g)
    return merged


FLAG_KEYS = ["compressed", "no_charset", "quiet", "no_unicode"]


def all_flag_sets():
    out = []
    for m in range(16):
        out.append({k: bool(m >> i & 1) for i, k in enumerate(FLAG_KEYS)})
    return out


# --------------------------------------------------------------------------------------------
# one case = (input, flag set, input mode, output mode, spelling)
# --------------------------------------------------------------------------------------------

def materialise(root, idx, inp):
    d = os.path.join(root, f"c{idx}")
    os.makedirs(d, exist_ok=True)
    data = inp["text"] if isinstance(inp["text"], bytes) else inp["text"].encode("utf-8")
    with open(os.path.join(d, "in." + inp["ext"]), "wb") as f:
        f.write(data)
    lps = []
    for ld, files in inp["lib"].items():
        os.makedirs(os.path.join(d, ld), exist_ok=True)
        for fn, txt in files.items():
            with open(os.path.join(d, ld, fn), "w", encoding="utf-8") as f:
                f.write(txt)
        lps.append(f"c{idx}/{ld}")
    return d, data, lps


def run_cli(argv, cwd, stdin_bytes, timeout=30, stdout_path=None):
    """stdout_path: redirect the binary's stdout there (e.g. /dev/full) instead of capturing it."""
    t0 = time.time()
    sink = open(stdout_path, "wb") if stdout_path else None
    try:
        p = subprocess.run([vlib.GRASS_BIN] + argv, cwd=cwd, input=stdin_bytes if stdin_bytes is not None else b"",
                           stdout=sink or subprocess.PIPE, stderr=subprocess.PIPE, timeout=timeout)
        if sink:
            try:
                sink.close()
            except OSError:
                pass
        return {"code": p.returncode, "stdout": p.stdout or b"", "stderr": p.stderr, "wall": time.time() - t0}
    except subprocess.TimeoutExpired:
        return {"code": None, "stdout": b"", "stderr": b"", "timeout": True, "wall": time.time() - t0}


def kv(ans):
    """`ok k=v k=v …` → dict"""
    return dict(t.split("=", 1) for t in ans.split(" ")[1:])


def opt_dec(s):
    return None if s == "none" else unhex(s[5:])


# fixed in /repo c1728ad; replayed on every run as a regression case
FIXED_STDIN_OUTPUT = {"argv": ["--stdin", "out.css"], "stdin": "a{b:c}"}
# fixed in /repo cea0756; stays as a regression case (first case of io_failure_cases)
FIXED_UNFLUSHED = {"argv": ["--style", "compressed", "io/small.scss"], "input": "a{b:c}", "stdin": None, "stdout": "/dev/full"}
# minimised past failures / known-finding witnesses, replayed on every run (besides `fixed_inputs()`, which run first)
CORPUS = [FIXED_STDIN_OUTPUT, FIXED_UNFLUSHED]


def run(tier, seed):
    ck = Check("C20", tier, seed)
    ck.disagreements = []
    ck.cov["rule"] = (
        "case = (input, flag set, spelling of the flags, input mode file|--stdin, output mode stdout|new file|existing file|"
        "unopenable path). Inputs: hand-written (valid, invalid, @warn/@debug, non-ASCII, @import/@use through one and two -I "
        "directories, .sass/.css extensions, non-UTF-8, 100 KB output), generated mixes of those, golden-corpus programs. Flag sets: "
        "all 16 combinations of {--style compressed, --no-charset, --quiet, --no-unicode} (+ the -I paths the input needs) on the "
        "hand-written inputs, a random 4-8 of them per other input. A case is distinct by (input text, argv, modes) and non-trivial when at "
        "least one flag is set or the input fails/warns/imports. Plus usage-error command lines (repeated flag, bad value, unknown "
        "flag, missing input, extra positional). Round 3: an exhaustive grid (all 16 flag sets x {file, --stdin} x {stdout, new output file}) "
        "on 8 hand-written inputs (quick) / every stdin-capable hand-written input (thorough), histogram keys grid:<in>:<out>:<flag bits>; "
        "path and argv edge cases (edge:<tag>: directory / missing / non-UTF-8 input, `-`, empty and non-UTF-8 stdin, non-UTF-8 arguments, "
        "repeated --style, -I spellings, short-flag clusters, unknown/abbreviated flags, missing values, `--`); OUTPUT = INPUT "
        "(output-is-input:<kind>); Logger calls per run (log:warn, log:debug, log:in-imported-file, quiet:no-logger-calls).")
    ck.assumptions = [
        "the library result comes from the runner (same crate, same tree) with std Fs and std Logger in the same working directory; "
        "what StdLogger wrote is taken from the runner's captured fd 2",
        "clap's parsing is modelled for the documented flags (table regenerated from main.rs; clusters, attached values, `--`, non-UTF-8 arguments included); "
        "hidden flags and --help/--version are answered `unsupported`; of a usage error only exit 2, empty stdout, no file and the `error: ` prefix are checked",
        "the Logger calls come from the runner with a collecting Logger (same crate, same tree, same Options); the text on the binary's stderr must be their rendering by the Lean model of StdLogger",
        "process-level behaviour (signals, closed pipes, permissions — the checks run as root) is outside the model",
        "with --stdin the single positional is the OUTPUT file (main.rs since c1728ad); a second positional is a usage error",
        "as found and not contradicted by the property's text: the output file is created/truncated before compiling, so it is left EMPTY on a compile error"]
    # (b0) translator: main.rs → lean/Grass/Generated/CliTable.lean (the proof step rebuilds when it changed)
    try:
        tr = translate_cli.generate()
        ck.cov["translator"] = {"arguments": len(tr["args"]), "options_calls": len(tr["calls"]), "steps": tr["steps"], "changed": tr["changed"]}
        translator_error = None
    except (ValueError, OSError) as e:
        translator_error = str(e)
        ck.cov["translator"] = {"error": translator_error}
    ck.do_prove(cores=("cli",))
    if not ck.do_build_runner():
        ck.unproved("correspondence-broken", {"why": "runner does not build against /repo", "error": getattr(ck, "build_error", "")})
        return ck.finish()
    ok, err = vlib.build_cli()
    if not ok or not os.path.exists(vlib.GRASS_BIN):
        ck.unproved("correspondence-broken", {"why": "the grass binary does not build from /repo", "error": err})
        return ck.finish()

    # ---- static tie -----------------------------------------------------------------------------
    args, mapping = read_clap_args(REPO)
    diffs = {k: (MODEL_ARGS.get(k), args.get(k)) for k in set(MODEL_ARGS) | set(args) if MODEL_ARGS.get(k) != args.get(k)}
    ck.cov["clap_arguments"] = {k: {"long": v[0], "short": v[1], "hidden": v[2], "takes_value": v[3]} for k, v in sorted(args.items())}
    try:
        table_same = driver(["cli table"])[0].startswith("ok same=1 ")
    except Exception:                                    # noqa: BLE001  (driver not built: the proof step reports it)
        table_same = False
    ck.cov["translator_ok"] = not diffs and mapping == MODEL_MAPPING and translator_error is None and table_same
    static_broken = None
    if translator_error or not table_same:
        static_broken = {"translator": translator_error or "the table regenerated from main.rs differs from the table the model runs on "
                                                            "(C20_parse_table_driven no longer holds)",
                         "argument_table_differences(model, main.rs)": {k: [list(x) if x else None for x in v] for k, v in diffs.items()}}
        ck.notes.append("main.rs's command line no longer equals the table the model runs on")
    elif diffs or mapping != MODEL_MAPPING:
        static_broken = {"argument_table_differences(model, main.rs)": {k: [list(x) if x else None for x in v] for k, v in diffs.items()},
                         "options_expression_in_main.rs": mapping, "options_expression_modelled": MODEL_MAPPING}
        ck.notes.append("main.rs no longer matches the argument table / Options expression the model was written against")

    root = os.path.join(BUILD, f"c20-{os.getpid()}-{seed}")
    shutil.rmtree(root, ignore_errors=True)
    os.makedirs(root)
    try:
        return _run(ck, tier, root, static_broken)
    finally:
        shutil.rmtree(root, ignore_errors=True)


def _run(ck, tier, root, static_broken):
    rng = ck.rng
    t0 = time.time()
    fixed = fixed_inputs()
    # sizes: the spawn of the (debug) binary dominates; on a loaded box a run costs ~0.2 s of CPU
    n_gen, n_corp = (30, 60) if tier == "quick" else (400, 600)
    inputs = fixed + gen_inputs(rng, n_gen) + corpus_inputs(rng, n_corp)
    flagsets = all_flag_sets()

    # ---- build the cases --------------------------------------------------------------------
    cases = []
    for idx, inp in enumerate(inputs):
        d, data, lps = materialise(root, idx, inp)
        is_fixed = idx < len(fixed)
        is_gen = idx < len(fixed) + n_gen
        if is_fixed:
            n_sets = 16 if (tier == "thorough" or set(inp["tags"]) & {"error", "warn", "charset", "import"}) else 4
        else:
            n_sets = (5 if is_gen else 4) if tier == "quick" else 8
        sets = flagsets if n_sets == 16 else [flagsets[0]] + rng.sample(flagsets[1:], n_sets - 1)
        for k, fl in enumerate(sets):
            in_mode = "stdin" if (inp["stdin_ok"] and rng.random() < 0.4) else "file"
            out_mode = rng.choice(["stdout", "stdout", "stdout", "file-new", "file-existing", "unopenable"])
            lp_use = list(lps)
            if "order" in inp["tags"] and rng.random() < 0.5:
                lp_use.reverse()
            canonical = (k == 0)
            groups = spell_flags(rng, fl, lp_use, canonical)
            positionals = []
            out_path = None
            if in_mode == "file":
                positionals.append(f"c{idx}/in.{inp['ext']}")
            # with --stdin the single positional is the OUTPUT file (fix c1728ad)
            if out_mode in ("file-new", "file-existing"):
                out_path = f"c{idx}/out{k}.css"
            elif out_mode == "unopenable":
                out_path = rng.choice([f"c{idx}/no-such-dir/out.css", f"c{idx}"])
            if out_path:
                positionals.append(out_path)
            flat = [a for g in groups for a in g]
            if in_mode == "stdin":
                groups2 = [["--stdin"]] + groups
                if not canonical:
                    rng.shuffle(groups2)
                flat = [a for g in groups2 for a in g]
            if canonical or rng.random() < 0.7:
                argv = flat + positionals
            else:                                 # flags after / between positionals
                cut = rng.randint(0, len(flat))
                # keep option/value pairs together: cut only at group boundaries
                gs = ([["--stdin"]] if in_mode == "stdin" else []) + groups
                cut = rng.randint(0, len(gs))
                argv = [a for g in gs[:cut] for a in g] + positionals[:1] + [a for g in gs[cut:] for a in g] + positionals[1:]
            cases.append({"idx": idx, "inp": inp, "flags": fl, "lps": lp_use, "in_mode": in_mode, "out_mode": out_mode,
                          "out_path": out_path, "argv": argv, "stdin": data if in_mode == "stdin" else None, "canonical": canonical})
    # usage errors and other command-line shapes
    extra = []
    base = "c0/in.scss"
    for argv in [["-q", "--quiet", base], ["--no-charset", "--no-charset", base], ["-s", "compressed", "--style=expanded", base],
                 ["-s", "nested", base], ["--style", base], ["--frobnicate", base], [], ["-q"], [base, "c0/o1.css", "c0/o2.css"],
                 ["-I"], ["--no-unicode=1", base], ["--stdin", "--stdin"], ["--indented", base], ["--", base], ["-qs", "compressed", base],
                 ["--stdin", "c0/a.css", "c0/b.css"], ["c0/a.css", "--stdin", "-q", "c0/b.css"]]:
        extra.append({"idx": 0, "inp": fixed[0], "flags": None, "lps": [], "in_mode": "n/a", "out_mode": "stdout", "out_path": None,
                      "argv": argv, "stdin": b"x{y:z}", "canonical": False})
    # regression cases of the fixed defect C20-stdin-output (c1728ad): --stdin with a positional = the OUTPUT file; --stdin alone
    extra.append({"idx": 0, "inp": fixed[0], "flags": {k: False for k in FLAG_KEYS}, "lps": [], "in_mode": "stdin", "out_mode": "file-new",
                  "out_path": "c0/stdin-out.css", "argv": ["--stdin", "c0/stdin-out.css"], "stdin": b"a{b:c}", "canonical": False})
    extra.append({"idx": 0, "inp": fixed[0], "flags": {k: False for k in FLAG_KEYS}, "lps": [], "in_mode": "stdin", "out_mode": "file-existing",
                  "out_path": "c0/stdin-out2.css", "argv": ["c0/stdin-out2.css", "--stdin", "-s", "compressed"], "stdin": b"a{b:$nope}", "canonical": False})
    extra.append({"idx": 0, "inp": fixed[0], "flags": {k: False for k in FLAG_KEYS}, "lps": [], "in_mode": "stdin", "out_mode": "stdout",
                  "out_path": None, "argv": ["--stdin"], "stdin": b"a{b:c}", "canonical": False})
    # ---- exhaustive grid: every flag set x {file, --stdin} x {stdout, output file} on a small input set --------
    grid_names = ["plain", "warn", "debug", "warn-then-error", "undefined-var", "non-ascii", "import-lp-order", "import-warn-inside"]
    if tier != "quick":
        grid_names = [i["name"] for i in fixed if i["stdin_ok"] and "non-utf8" not in i["tags"] and "big" not in i["tags"]]
    n_grid = 0
    for idx, inp in enumerate(fixed):
        if inp["name"] not in grid_names:
            continue
        data = inp["text"].encode("utf-8")
        lps = [f"c{idx}/{ld}" for ld in inp["lib"]]
        for fi, fl in enumerate(flagsets):
            for in_mode in ("file", "stdin"):
                for out_mode in ("stdout", "file-new"):
                    canonical = (fi + (in_mode == "stdin") + (out_mode == "stdout")) % 2 == 0
                    groups = spell_flags(rng, fl, lps, canonical)
                    if in_mode == "stdin":
                        groups = [["--stdin"]] + groups
                        if not canonical:
                            rng.shuffle(groups)
                    out_path = f"c{idx}/grid{n_grid}.css" if out_mode == "file-new" else None
                    argv = [a for g in groups for a in g] + ([f"c{idx}/in.{inp['ext']}"] if in_mode == "file" else []) + ([out_path] if out_path else [])
                    cases.append({"idx": idx, "inp": inp, "flags": fl, "lps": lps, "in_mode": in_mode, "out_mode": out_mode, "out_path": out_path,
                                  "argv": argv, "stdin": data if in_mode == "stdin" else None, "canonical": False, "grid": True})
                    n_grid += 1
    ck.cov["grid_cases"] = n_grid
    # ---- paths and argv shapes main.rs / clap treat specially -----------------------------------------------------
    os.makedirs(os.path.join(root, "c0", "adir"), exist_ok=True)
    with open(os.path.join(root, "c0", "latin1.scss"), "wb") as f:
        f.write(b"a { b: \"\xe9\" }")
    none_fl = {k: False for k in FLAG_KEYS}

    def edge(tag, argv, stdin=None, out_mode="stdout", out_path=None, flags=none_fl, lps=()):
        extra.append({"idx": 0, "inp": I("edge:" + tag, "a { b: c; }\n", tags=["edge"]), "flags": flags, "lps": list(lps),
                      "in_mode": "stdin" if stdin is not None else "file", "out_mode": out_mode, "out_path": out_path,
                      "argv": argv, "stdin": stdin, "canonical": False, "edge": tag})
    edge("input-is-directory", ["c0/adir"])
    edge("input-is-directory-to-file", ["c0/adir", "c0/e-dir.css"], out_mode="file-new", out_path="c0/e-dir.css")
    edge("input-missing", ["c0/no-such-file.scss"])
    edge("input-missing-to-existing-file", ["c0/no-such-file.scss", "c0/e-missing.css"], out_mode="file-existing", out_path="c0/e-missing.css")
    edge("input-not-utf8", ["c0/latin1.scss"])
    edge("input-dash-is-a-file-name", ["-"])
    # (removed after a false alarm on the unchanged tree: an "output-dash" edge case created a file named `-` in the
    #  shared working directory, which a concurrently running "input-dash" case then read — a race inside the check,
    #  not a behaviour of grass; see DESIGN §11.8)
    edge("stdin-empty", ["--stdin"], stdin=b"")
    edge("stdin-empty-to-file", ["--stdin", "c0/e-empty.css"], stdin=b"", out_mode="file-new", out_path="c0/e-empty.css")
    edge("stdin-not-utf8", ["--stdin"], stdin=b"a{b:\xff}")
    edge("stdin-not-utf8-to-existing-file", ["--stdin", "c0/e-nu.css"], stdin=b"\xff", out_mode="file-existing", out_path="c0/e-nu.css")
    edge("argv-not-utf8-input", [b"c0/in\xff.scss"])
    edge("argv-not-utf8-output", [base, b"c0/o\xff.css"])
    edge("argv-not-utf8-load-path", ["-I", b"l\xff", base])
    edge("style-repeated-same", ["--style", "compressed", "--style", "compressed", base])
    edge("style-repeated-eq", ["--style=compressed", "-s", "expanded", base])
    edge("load-path-both-spellings", ["-I", "c0/x", "--load-path=c0/x", base], lps=["c0/x", "c0/x"])
    edge("load-path-four-spellings", ["-Ic0/a", "-I=c0/b", "--load-path", "c0/c", "--load-path=c0/d", base], lps=["c0/a", "c0/b", "c0/c", "c0/d"])
    edge("load-path-dash", ["-I", "-", base], lps=["-"])
    edge("cluster-q-s", ["-qscompressed", base], flags=dict(none_fl, quiet=True, compressed=True))
    edge("cluster-q-t-eq", ["-qt=compressed", base], flags=dict(none_fl, quiet=True, compressed=True))
    edge("cluster-repeated", ["-qq", base])
    edge("cluster-style-swallows", ["-sq", base])
    edge("unknown-short", ["-x", base])
    edge("unknown-long", ["--frobnicate"])
    edge("unknown-long-prefix", ["--styl", "compressed", base])
    edge("long-wrong-case", ["--STYLE", "compressed", base])
    edge("flag-with-value", ["--quiet=1", base])
    edge("value-missing-before-flag", ["--style", "--quiet", base])
    edge("value-missing-before-dashdash", ["-I", "--", base])
    edge("value-looks-negative", ["-I", "-1", base])
    edge("style-empty-value", ["--style=", base])
    edge("dashdash-input", ["--", base])
    edge("dashdash-flag-as-input", ["--", "--stdin"])
    edge("dashdash-stdin-output", ["--stdin", "--", "c0/e-dd.css"], stdin=b"a{b:c}", out_mode="file-new", out_path="c0/e-dd.css")
    edge("dashdash-quiet-after", ["-q", "--", base, "c0/e-dd2.css"], out_mode="file-new", out_path="c0/e-dd2.css", flags=dict(none_fl, quiet=True))
    cases += extra
    log(f"[C20] {len(inputs)} inputs, {len(cases)} cases prepared in {time.time() - t0:.1f}s")

    # ---- model: read the command lines ------------------------------------------------------
    enc = lambda l: ",".join(hexs(x) for x in l) if l else "-"
    parsed = driver(["cli parse " + enc_raw(c["argv"]) for c in cases])
    # round trip through the model's canonical rendering for the canonical cases
    rt_lines, rt_idx = [], []
    for ci, (c, pa) in enumerate(zip(cases, parsed)):
        if c["canonical"] and pa.startswith("ok "):
            fl = c["flags"]
            pos = [p for p in ([f"c{c['idx']}/in.{c['inp']['ext']}"] if c["in_mode"] == "file" else []) + ([c["out_path"]] if c["out_path"] else [])]
            rt_lines.append(f"cli render {int(c['in_mode'] == 'stdin')} {'compressed' if fl['compressed'] else 'expanded'} "
                            f"{int(fl['no_charset'])} {int(fl['quiet'])} {int(fl['no_unicode'])} {enc(c['lps'])} {enc(pos)}")
            rt_idx.append(ci)
    for ci, o in zip(rt_idx, driver(rt_lines)):
        want = "ok " + enc(cases[ci]["argv"])
        if o != want:
            ck.cov["model_disagreements"] += 1
            ck.disagreements.append({"what": "canonical rendering differs between model and check", "model": o, "check": want})

    # ---- library: the runner under the model's Options ---------------------------------------
    lib_jobs, lib_key_idx, keys = [], {}, []
    for c, pa in zip(cases, parsed):
        c["parsed"] = kv(pa) if pa.startswith("ok ") else None
        c["lib_key"] = None
        if not c["parsed"]:
            continue
        m = c["parsed"]
        options = {"style": m["style"], "quiet": m["quiet"] == "1", "unicode": m["unicode"] == "1", "charset": m["charset"] == "1",
                   "load_paths": [unhex(x) for x in m["load_paths"].split(",")] if m["load_paths"] != "-" else []}
        if options["style"] == "expanded":
            del options["style"]
        # reference = one `Options::load_path` call per -I, in the order given (the documented meaning of the flag);
        # the binary itself goes through `Options::load_paths`, so a defect in either spelling shows as a difference
        options["load_paths_api"] = "singular"
        inp_path = opt_dec(m["input"])
        if m["kind"] == "file":
            job = {"mode": "compile", "entry": inp_path, "fs": "std", "logger": "collect", "options": options}
            key = json.dumps(["file", inp_path, options], sort_keys=True)
        else:
            try:
                text = c["stdin"].decode("utf-8")
            except UnicodeDecodeError:
                c["lib_key"] = "stdin-not-utf8"
                continue
            job = {"mode": "compile", "input": text, "fs": "std", "logger": "collect", "options": options}
            key = json.dumps(["stdin", text, options], sort_keys=True)
        c["lib_key"] = key
        if key not in lib_key_idx:
            lib_key_idx[key] = len(lib_jobs)
            lib_jobs.append(job)
    lib_box = {}
    lib_thread = threading.Thread(target=lambda: lib_box.update(res=runner_map(lib_jobs, root, timeout=30, n=8)))
    lib_thread.start()                      # the library runs overlap the binary runs

    # ---- implementation: the binary ----------------------------------------------------------
    for c in cases:
        if c["out_mode"] == "file-existing":
            with open(os.path.join(root, c["out_path"]), "w") as f:
                f.write("OLD CONTENT\n")
    with concurrent.futures.ThreadPoolExecutor(max_workers=32) as ex:
        obs = list(ex.map(lambda c: run_cli(c["argv"], root, c["stdin"]), cases))
    for c, o in zip(cases, obs):
        if o.get("timeout"):
            o2 = run_cli(c["argv"], root, c["stdin"], timeout=300)       # re-confirm alone with a 10x budget
            o2["first_attempt"] = "timeout"
            o.clear()
            o.update(o2)
        p = c["out_path"] and os.path.join(root, c["out_path"])
        o["file"] = open(p, "rb").read() if p and os.path.isfile(p) else None
    log(f"[C20] binary runs done in {time.time() - t0:.1f}s")
    lib_thread.join()
    lib_res = lib_box["res"]
    log(f"[C20] {len(lib_jobs)} library runs done in {time.time() - t0:.1f}s")

    # ---- P̂ on every observed run: the whole tool (`runCli`: clap by the table, then `main`) ---------------------------
    lines, line_case = [], []
    for ci, (c, o) in enumerate(zip(cases, obs)):
        pa = parsed[ci]
        argv_txt = _argv_txt(c["argv"])
        usage_seen = (o["code"] == 2 and o["stderr"].startswith(b"error:") and o["stdout"] == b"")
        code = o["code"] if o["code"] is not None and o["code"] >= 0 else 255
        if c.get("edge"):
            ck.hist("edge:" + c["edge"])
        if pa == "unsupported":
            ck.cov["unsupported_dropped"] += 1
            ck.hist("model:unsupported")
            continue
        ok_kind = {"stdout": "stdout", "file-new": "file", "file-existing": "file", "unopenable": "unopenable"}[c["out_mode"]]
        file_tok = "none" if o["file"] is None else "some:" + hexs(o["file"])
        if pa.startswith("usage"):
            ck.count(("usage", argv_txt), True)
            ck.hist("model:usage-error")
            ck.hist("usage:" + unhex(pa.split(" ")[1]))
            c["expect"] = (ok_kind, "ok", "", "-", True)
            c["usage"] = True
            # evaluated by the driver as well (exit code exactly 2, nothing on stdout, no file, `error: …` on stderr)
            lines.append(f"cli agreescli {enc_raw(c['argv'])} 1 {ok_kind} 0 1 0 ok - - {code} {hexs(o['stdout'])} {hexs(o['stderr'])} {file_tok}")
            line_case.append(ci)
            continue
        if not pa.startswith("ok "):
            ck.cov["model_disagreements"] += 1
            ck.disagreements.append({"argv": argv_txt, "model": pa})
            continue
        if usage_seen and c["flags"] is None:
            # a command-line shape outside the documented flag spellings: the model's reading of clap is what is wrong
            ck.cov["model_disagreements"] += 1
            ck.disagreements.append({"argv": argv_txt, "model": pa, "binary": "usage error: " + o["stderr"][:200].decode("utf-8", "replace")})
            continue
        stdin_utf8 = 1
        if c["lib_key"] == "stdin-not-utf8":
            lkind, body, evs, events = "ok", "", "-", []       # read_to_string fails before the library is called (the output file is already open)
            stdin_utf8 = 0
            ck.hist("lib:stdin-not-utf8")
        else:
            r = lib_res[lib_key_idx[c["lib_key"]]]
            st = r.get("status")
            if st == "ok":
                lkind, body = "ok", r.get("css", "")
            elif st == "err":
                lkind, body = "err", r.get("display", "")
            else:
                ck.hist("excluded:library-" + str(st))
                # still part of the property: nothing on stdout and a non-zero exit when the library does not return
                if o["code"] == 0 or o["stdout"]:
                    ck.impl_violation(json.dumps({"argv": argv_txt, "input": c["inp"]["name"]}),
                                      {"argv": argv_txt, "input": _txt(c["inp"]["text"]), "library_status": st,
                                       "observed": _obs_json(o), "expected_by_property": "non-zero exit and empty stdout"}, tags=[])
                continue
            events = r.get("logs", [])
            evs = ",".join(f"{'w' if e['kind'] == 'warn' else 'd'}:{hexs(e['file'])}:{e['line'] - 1}:{e['col'] - 1}:{hexs(e['msg'])}" for e in events) or "-"
            ck.hist("lib:" + lkind)
            if lkind == "err":
                ck.hist("lib-error:" + ("io" if "os error" in body or "stream did not contain" in body else "compile"))
        c["events"] = events
        c["expect"] = (ok_kind, lkind, body, evs, stdin_utf8)
        lines.append(f"cli agreescli {enc_raw(c['argv'])} 1 {ok_kind} 0 {stdin_utf8} 0 {lkind} {hexs(body)} {evs} {code} "
                     f"{hexs(o['stdout'])} {hexs(o['stderr'])} {file_tok}")
        line_case.append(ci)
    verdicts = driver(lines)
    failing, failing_idx = [], []
    for ci, v in zip(line_case, verdicts):
        c, o = cases[ci], obs[ci]
        if c.get("usage"):
            if v != "ok 1":
                ck.cov["model_disagreements"] += 1
                ck.disagreements.append({"argv": _argv_txt(c["argv"]), "model": "usage error: exit 2, empty stdout, `error: …` on stderr, no file",
                                         "binary": _obs_json(o)})
            continue
        fl = c["flags"] or {}
        nontrivial = any(fl.values()) or bool(c["inp"]["tags"]) or c["in_mode"] == "stdin" or c["out_mode"] != "stdout"
        ck.count((_txt(c["inp"]["text"]), _argv_txt(c["argv"]), c["in_mode"], c["out_mode"]), nontrivial)
        ck.hist("in:" + c["in_mode"])
        ck.hist("out:" + c["out_mode"])
        ck.hist("exit:" + str(o["code"]))
        if c.get("grid"):
            ck.hist("grid:" + c["in_mode"] + ":" + c["out_mode"] + ":" + "".join(str(int(fl[k])) for k in FLAG_KEYS))
        for k, b in fl.items():
            if b:
                ck.hist("flag:" + k)
        for t in c["inp"]["tags"]:
            ck.hist("input:" + t)
        entry_name = c["parsed"] and opt_dec(c["parsed"]["input"])
        for e in c.get("events", []):
            ck.hist("log:" + e["kind"])
            if entry_name is not None and e["file"] != entry_name:
                ck.hist("log:in-imported-file")
        if c.get("events"):
            ck.hist("warnings-on-stderr")
        elif fl.get("quiet") and "warn" in c["inp"]["tags"]:
            ck.hist("quiet:no-logger-calls")
        if ci % 701 == 0:
            ck.sample({"argv": _argv_txt(c["argv"]), "input": _txt(c["inp"]["text"])[:200], "exit": o["code"],
                       "stdout": o["stdout"][:120].decode("utf-8", "replace"), "stderr": o["stderr"][:200].decode("utf-8", "replace"),
                       "library": c["expect"][1]})
        if v == "ok 1":
            continue
        if v != "ok 0":
            ck.cov["unsupported_dropped"] += 1
            continue
        failing_idx.append(ci)
    failing_idx.sort(key=lambda ci: (len(_txt(cases[ci]["inp"]["text"])), len(cases[ci]["argv"])))
    n_failing = len(failing_idx)
    ck.cov["impl_property_failures"] += max(0, n_failing - 40)       # beyond the 40 smallest: counted, not detailed
    failing_idx = failing_idx[:40]
    exps = driver(["cli runcli {} 1 {} 0 {} 0 {} {} {}".format(enc_raw(cases[ci]["argv"]), cases[ci]["expect"][0], cases[ci]["expect"][4], cases[ci]["expect"][1],
                                                              hexs(cases[ci]["expect"][2]), cases[ci]["expect"][3]) for ci in failing_idx])
    for ci, exp in zip(failing_idx, exps):
        c, o = cases[ci], obs[ci]
        ok_kind, lkind, body, evs, _su = c["expect"]
        failing.append({"argv": _argv_txt(c["argv"]), "input_name": c["inp"]["name"], "input": _txt(c["inp"]["text"]),
                        "stdin": c["stdin"] is not None, "load_path_dirs": c["inp"]["lib"], "output_mode": c["out_mode"],
                        "observed": _obs_json(o), "library": {"result": lkind, "css_or_display": body[:4000], "logger_calls": c.get("events", [])[:20]},
                        "expected(model run)": _exp_json(exp),
                        "expected_by_property": "exit 0 and exactly the library's CSS in the sink / non-zero exit, empty stdout and the rendered error on stderr; "
                                                "@warn/@debug text on stderr only, in StdLogger's format"})
    log(f"[C20] verdicts done in {time.time() - t0:.1f}s; {n_failing} failing")

    # ---- OUTPUT names the INPUT file (known finding C20-output-is-input) ------------------------------------------------
    output_is_input_cases(ck, root)

    # ---- I/O errors while delivering the CSS -------------------------------------------------------
    io_failure_cases(ck, root)

    # ---- regression: --stdin with an output file (was known finding C20-stdin-output) ---------------------------------------
    d = os.path.join(root, "kf")
    os.makedirs(d, exist_ok=True)
    o = run_cli(FIXED_STDIN_OUTPUT["argv"], d, FIXED_STDIN_OUTPUT["stdin"].encode())
    lib = runner_map([{"mode": "compile", "input": FIXED_STDIN_OUTPUT["stdin"], "fs": "std", "logger": "std", "options": {}}], d)[0]
    outp = os.path.join(d, "out.css")
    got_file = open(outp).read() if os.path.isfile(outp) else None
    ck.count(("known", FIXED_STDIN_OUTPUT["argv"]), True)
    if not (o["code"] == 0 and got_file == lib.get("css") and o["stdout"] == b""):
        ck.impl_violation(json.dumps(FIXED_STDIN_OUTPUT, sort_keys=True),
                          {"argv": FIXED_STDIN_OUTPUT["argv"], "stdin": FIXED_STDIN_OUTPUT["stdin"], "observed": _obs_json(o),
                           "output_file": got_file, "expected_by_property": "exit 0, out.css = the library's CSS for the text on stdin"})

    # ---- verdicts ------------------------------------------------------------------------------
    failing.sort(key=lambda f: (len(f["input"]), len(f["argv"])))
    reported = 0
    for f in failing:
        if ck.impl_violation(json.dumps({"argv": f["argv"], "input": f["input"]}, sort_keys=True), f):
            reported += 1
    if (ck.cov["model_disagreements"] or static_broken) and not reported and not any(v[0] == "impl" for v in ck.violations):
        ck.unproved("correspondence-broken", {"correspondence": "model's reading of argv / argument table of main.rs vs the binary",
                                              "static": static_broken, "cases": ck.disagreements[:5]})
    return ck.finish()


def io_failure_cases(ck, root):
    """A sink that cannot take the CSS: stdout redirected to /dev/full, OUTPUT=/dev/full.
    Regression cases of the fixed defect C20-unflushed-stdout (/repo cea0756).  P̂ = `outcomeIO true`, the
    code as it stands and the specified behaviour: non-zero exit + OS error on stderr whenever there was
    CSS to deliver.  A failing run that matches the pre-fix variant (`outcomeIO false`) is labelled so."""
    if not os.path.exists("/dev/full"):
        ck.notes.append("no /dev/full on this machine: I/O-failure cases skipped")
        return
    d = os.path.join(root, "io")
    os.makedirs(d, exist_ok=True)
    inputs = {
        "small": "a{b:c}",                                                                # < 1 KiB
        "small-warn": "@warn \"w\"; a{b:c}",
        "medium": "".join(f".r{i}{{w:{i}px}}\n" for i in range(150)),                     # < 8 KiB either style
        "large": "".join(f".r{i}{{w:{i}px;c:\"{'x' * 40}\"}}\n" for i in range(1500)),   # > 64 KiB either style
        "error": "a{b:$undefined}",
        "empty": "",
    }
    cases = []
    for name, text in inputs.items():
        with open(os.path.join(d, name + ".scss"), "w") as f:
            f.write(text)
        for style in ("expanded", "compressed"):
            fl = ["--style", style] if style == "compressed" else []
            cases.append({"argv": fl + [f"io/{name}.scss"], "input": text, "stdin": None, "stdout": "/dev/full", "kind": "stdout", "style": style})
            cases.append({"argv": fl + [f"io/{name}.scss", "/dev/full"], "input": text, "stdin": None, "stdout": None, "kind": "file", "style": style})
            cases.append({"argv": ["--stdin"] + fl, "input": text, "stdin": text, "stdout": "/dev/full", "kind": "stdout", "style": style})
    with concurrent.futures.ThreadPoolExecutor(max_workers=16) as ex:
        obs = list(ex.map(lambda c: run_cli(c["argv"], root, c["stdin"].encode() if c["stdin"] is not None else None,
                                            stdout_path=c["stdout"]), cases))
    jobs = []
    for c in cases:
        o = {"style": "compressed"} if c["style"] == "compressed" else {}
        jobs.append({"mode": "compile", "input": c["input"], "fs": "std", "logger": "std", "options": o} if c["stdin"] is not None
                    else {"mode": "compile", "entry": c["argv"][-1] if c["kind"] == "stdout" else c["argv"][-2], "fs": "std", "logger": "std", "options": o})
    libs = runner_map(jobs, root, timeout=30, n=8)
    lines = []
    for c, o, r in zip(cases, obs, libs):
        lk = "ok" if r.get("status") == "ok" else "err"
        body = r.get("css", "") if lk == "ok" else r.get("display", "")
        c["lib"] = (lk, body, r.get("captured", ""))
        base = f"cli agrees {c['kind']} {lk} {hexs(body)} {hexs(r.get('captured', ''))} {o['code'] if o['code'] is not None and o['code'] >= 0 else 255} " \
               f"{hexs(o['stdout'])} {hexs(o['stderr'])} none"
        lines += [base + " 1 1", base + " 0 1"]
    outs = driver(lines)
    for k, (c, o) in enumerate(zip(cases, obs)):
        spec, found = outs[2 * k], outs[2 * k + 1]
        size = len(c["lib"][1].encode())
        ck.count(("io", c["argv"], c["stdout"], c["stdin"] is not None), True)
        ck.hist("io-failure:" + c["kind"] + ":" + ("lib-err" if c["lib"][0] == "err" else "<1KiB" if size < 1024 else "<8KiB" if size < 8192 else ">64KiB" if size > 65536 else "8-64KiB"))
        if spec == "ok 1":
            continue
        key = {"argv": c["argv"], "input": c["input"], "stdin": c["stdin"], "stdout": c["stdout"]}
        ck.impl_violation(json.dumps(key, sort_keys=True),
                          {"argv": c["argv"], "input": c["input"][:300], "stdin": c["stdin"] is not None, "stdout_redirected_to": c["stdout"],
                           "css_bytes": size, "observed": _obs_json(o),
                           "matches_pre_fix_variant(no flush, C20-unflushed-stdout returned)": found == "ok 1",
                           "expected_by_property": "the CSS could not be written: non-zero exit and the I/O error on stderr"}, tags=[])



def enc_raw(argv):
    """argv for the driver: hex per argument, `!` for an argument that is not valid UTF-8"""
    out = []
    for a in argv:
        if isinstance(a, bytes):
            try:
                a = a.decode("utf-8")
            except UnicodeDecodeError:
                out.append("!")
                continue
        out.append(hexs(a))
    return ",".join(out) if out else "-"


def _argv_txt(argv):
    return [a if isinstance(a, str) else a.decode("utf-8", "backslashreplace") for a in argv]


def output_is_input_cases(ck, root):
    """`grass f.scss f.scss` (also spelled `./f.scss`): main.rs:247-252 opens OUTPUT with truncate(true) BEFORE the input is
    read, so the library compiles an empty file.  Tie: the run equals the model's as-found run (`openFirst = 1`, library
    result for the truncated input).  P̂ of the property = the specified order (`openFirst = 0`, library result for the
    file's content): fails → reported through the known finding C20-output-is-input."""
    d = os.path.join(root, "same")
    os.makedirs(d, exist_ok=True)
    texts = {"rule": "a { b: c; }\n", "warn": "@warn \"w\"; a { b: c }", "error": "a { b: $nope }"}
    rows = []
    for name, text in texts.items():
        for style in ("expanded", "compressed"):
            for spelled in (f"same/{name}-{style}.scss", f"./same/{name}-{style}.scss"):
                path = os.path.join(root, f"same/{name}-{style}.scss")
                with open(path, "w") as f:
                    f.write(text)
                with open(os.path.join(d, "ref.scss"), "w") as f:
                    f.write(text)
                with open(os.path.join(d, "empty.scss"), "w") as f:
                    pass
                opts = {"style": "compressed"} if style == "compressed" else {}
                lib_full, lib_empty = runner_map([{"mode": "compile", "entry": "same/ref.scss", "fs": "std", "logger": "collect", "options": opts},
                                                  {"mode": "compile", "entry": "same/empty.scss", "fs": "std", "logger": "collect", "options": opts}], root, n=2)
                argv = (["--style", "compressed"] if style == "compressed" else []) + [f"same/{name}-{style}.scss", spelled]
                o = run_cli(argv, root, None)
                o["file"] = open(path, "rb").read() if os.path.isfile(path) else None
                rows.append((name, text, argv, o, lib_full, lib_empty))
    lines = []
    for name, text, argv, o, lf, le in rows:
        def lib_args(r):
            kind = "ok" if r.get("status") == "ok" else "err"
            body = r.get("css", "") if kind == "ok" else r.get("display", "").replace("same/ref.scss", argv[-2])
            evs = ",".join(f"{'w' if e['kind'] == 'warn' else 'd'}:{hexs(argv[-2])}:{e['line'] - 1}:{e['col'] - 1}:{hexs(e['msg'])}" for e in r.get("logs", [])) or "-"
            return f"{kind} {hexs(body)} {evs}"
        tail = f"{o['code'] if o['code'] is not None and o['code'] >= 0 else 255} {hexs(o['stdout'])} {hexs(o['stderr'])} " + \
               ("none" if o["file"] is None else "some:" + hexs(o["file"]))
        lines.append(f"cli agreescli {enc_raw(argv)} 1 file 1 1 0 {lib_args(le)} {tail}")     # as found
        lines.append(f"cli agreescli {enc_raw(argv)} 0 file 1 1 0 {lib_args(lf)} {tail}")     # as specified
    outs = driver(lines)
    for k, (name, text, argv, o, lf, le) in enumerate(rows):
        found, specd = outs[2 * k], outs[2 * k + 1]
        ck.count(("output-is-input", argv), True)
        ck.hist("output-is-input:" + name)
        if found != "ok 1":
            ck.cov["model_disagreements"] += 1
            ck.disagreements.append({"argv": argv, "what": "OUTPUT = INPUT: the run differs from the model's as-found run (open, truncate, then compile)",
                                     "observed": _obs_json(o)})
        if specd != "ok 1":
            ck.impl_violation(json.dumps({"argv": argv, "input": text}, sort_keys=True),
                              {"argv": argv, "input": text, "observed": _obs_json(o), "input_file_after_the_run": _obs_json(o)["output_file"],
                               "library_on_the_input": {"status": lf.get("status"), "css": lf.get("css"), "display": lf.get("display")},
                               "expected_by_property": "the CSS the library returns for the file's content (or its error and a non-zero exit); "
                                                       "the tool truncated the file before reading it"},
                              tags=["output-is-input"])


def _txt(t):
    return t.decode("utf-8", "replace") if isinstance(t, bytes) else t


def _obs_json(o):
    return {"exit": o["code"], "stdout": o["stdout"][:4000].decode("utf-8", "replace"), "stderr": o["stderr"][:4000].decode("utf-8", "replace"),
            "output_file": None if o.get("file") is None else o["file"][:4000].decode("utf-8", "replace"), "timeout": bool(o.get("timeout"))}


def _exp_json(exp):
    if not exp.startswith("ok "):
        return exp
    m = kv(exp)
    segs = []
    for s in m["stderr"].split(","):
        segs.append("<operating-system error text>" if s == "os" else "<clap usage error>" if s == "clap" else unhex(s[2:]))
    if "exit" in m:
        return {"exit": int(m["exit"]), "stdout": unhex(m["stdout"])[:4000], "stderr": "".join(segs)[:4000],
                "output_file": opt_dec(m["file"]), "steps": m.get("steps", "").split(",")}
    return {"exit_zero": m["exit0"] == "1", "stdout": unhex(m["stdout"])[:4000], "stderr": "".join(segs)[:4000],
            "output_file": opt_dec(m["file"])}


def replay(path):
    r = json.load(open(path))
    if "argv" not in r:
        print(json.dumps(r, indent=1))
        return 0
    ck = Check("C20", "quick", 0)
    ck.do_build_runner()
    vlib.build_cli()
    root = os.path.join(BUILD, f"c20-replay-{os.getpid()}")
    shutil.rmtree(root, ignore_errors=True)
    os.makedirs(os.path.join(root, "kf"))
    try:
        if "input" in r:
            inp = I("replay", r["input"], lib=r.get("load_path_dirs") or {})
            m = re.search(r"c(\d+)/in\.(\w+)", " ".join(r["argv"]))
            idx = int(m.group(1)) if m else 0
            inp["ext"] = m.group(2) if m else "scss"
            materialise(root, idx, inp)
            cwd, stdin = root, (inp["text"].encode() if r.get("stdin") else None)
        else:
            cwd, stdin = os.path.join(root, "kf"), r.get("stdin", "").encode()
        o = run_cli(r["argv"], cwd, stdin)
        print("argv    :", r["argv"])
        print("observed:", json.dumps(_obs_json(o), indent=1))
        print("recorded:", json.dumps(r.get("observed"), indent=1))
        print("expected:", json.dumps(r.get("expected(model outcome)") or r.get("expected_by_property"), indent=1))
    finally:
        shutil.rmtree(root, ignore_errors=True)
    return 0
