"""C12 — modules load once, stay isolated and expose only public members.

(a) PROOF   GrassProofs.C12 about the loader / member-view / configuration model Grass/Module.lean
(b) TIE     generated multi-file projects over the in-memory Fs: obs(grass) == obs(model, switches `now`)
(c) DIRECT  P̂ on grass's own output: every module evaluated / every marker emitted at most once
            (driver `module once`), no private member ever visible, the forward relation on triangles
            (driver `module allows`), and obs(grass) == obs(model, switches `spec`) — the module model
            is the reference the property describes.  A difference is classified by the smallest set
            of (formerly found, now fixed) switches that explains it; the findings are `fixed`, so a
            reappearance is a VIOLATION carrying those tags.
"""
import json
import re

import cssread
from vlib import Check, RunnerPool, compile_job, driver, log

DIR = "p/"
SWITCHES = ["prefixedKeysBug", "fwdCfgImplicit", "viewIterPanics", "mergedInsertPanics"]

# ---------------------------------------------------------------------------------------------
# project representation
#   proj = {"entry": "main", "mods": [{"name","partial","body":[stmt…]}]}
#   stmt = ("V",name,val,guarded) | ("F",name,getterVar|None) | ("X",name) | ("C",) | ("D",)
#        | ("U",url,ns,[(name,val)…])          url = (base, underscore, ext, dotslash); ns = "=" | "*" | name
#        | ("W",url,pfx|None,vis,[(name,val,guarded)…])   vis = ("A",) | ("S",[vars],[fns]) | ("H",[vars],[fns])
#        | ("A",ns,name,val,guarded) | ("P",id,guarded,kind,ns|None,name) | ("K",id,kind,ns)
# ---------------------------------------------------------------------------------------------


def nrm(n):
    return n.replace("_", "-")


def is_private(n):
    return n.startswith("-") or n.startswith("_")


def url_segs(u):
    return list(u[4]) if len(u) > 4 else []


def url_text(u):
    base, us, ext, dot = u[:4]
    return ("./" if dot else "") + "/".join(url_segs(u) + [("_" if us else "") + base]) + (".scss" if ext else "")


def url_enc(u):
    return ("E" if u[2] else "N") + ":" + "/".join(url_segs(u)) + ":" + ("_" if u[1] else "") + u[0]


def mod_dir(m):
    return [c for c in (m.get("dir") or "").split("/") if c]


def mod_relpath(m):
    """path below the project root, e.g. p/x/_a.scss"""
    return "/".join(["p"] + mod_dir(m) + [("_" if m["partial"] else "") + (m.get("alias_of") or m["name"]) + ".scss"])


def vis_text(v):
    if v[0] == "A":
        return ""
    names = ["$" + x for x in v[1]] + list(v[2])
    return (" show " if v[0] == "S" else " hide ") + ", ".join(names)


def probe_text(mod, st):
    _, pid, guarded, kind, ns, name = st
    sel = f"p{pid}"
    q = (ns + ".") if ns else ""
    if kind == "v":
        ref = f"r: {q}${name}"
        ex = f'meta.global-variable-exists("{name}", "{ns}")'
    elif kind == "f":
        ref = f"r: {q}{name}()"
        ex = f'meta.function-exists("{name}", "{ns}")'
    else:
        ref = f"@include {q}{name}"
        ex = f'meta.mixin-exists("{name}", "{ns}")'
    if not guarded:
        return f"{sel} {{ {ref}; }}"
    if is_private(name):
        # a namespaced private name is a syntax error even in dead code: existence check only
        return f"{sel} {{ r: if({ex}, present, absent); }}"
    return f"@if {ex} {{ {sel} {{ {ref}; }} }} @else {{ {sel} {{ r: absent; }} }}"


def stmt_text(mod, st):
    k = st[0]
    if k == "V":
        return f"${st[1]}: v{st[2]}{' !default' if st[3] else ''};"
    if k == "F":
        body = f"${st[2]}" if st[2] else f"F__{mod}__{nrm(st[1])}"
        return f"@function {st[1]}() {{ @return {body}; }}"
    if k == "X":
        return f"@mixin {st[1]}() {{ r: X__{mod}__{nrm(st[1])}; }}"
    if k == "C":
        return f"m-{mod} {{ k: v; }}"
    if k == "D":
        return f"@debug dbg__{mod};"
    if k == "U":
        _, u, ns, cfg = st
        s = f'@use "{url_text(u)}"'
        if ns != "=":
            s += f" as {ns}"
        if cfg:
            s += " with (" + ", ".join(f"${n}: v{v}" for n, v in cfg) + ")"
        return s + ";"
    if k == "W":
        _, u, pfx, vis, cfg = st
        s = f'@forward "{url_text(u)}"'
        if pfx:
            s += f" as {pfx}*"
        s += vis_text(vis)
        if cfg:
            s += " with (" + ", ".join(f"${n}: v{v}{' !default' if g else ''}" for n, v, g in cfg) + ")"
        return s + ";"
    if k == "A":
        return f"{st[1]}.${st[2]}: v{st[3]}{' !default' if st[4] else ''};"
    if k == "P":
        return probe_text(mod, st)
    if k == "N":
        _, pid, ctx, n, v = st
        d = f"${n}: v{v} !default;"
        if ctx == 0:
            return f"p{pid} {{ {d} r: ${n}; }}"
        if ctx == 1:
            return f"@if true {{ {d} p{pid} {{ r: ${n}; }} }}"
        if ctx == 2:
            return f"@each $i in 1 {{ {d} p{pid} {{ r: ${n}; }} }}"
        if ctx == 3:
            return f"@mixin -nm{pid}() {{ {d} r: ${n}; }} p{pid} {{ @include -nm{pid}; }}"
        return f"@function -nf{pid}() {{ {d} @return ${n}; }} p{pid} {{ r: -nf{pid}(); }}"
    if k == "K":
        fn = "module-variables" if st[2] == "v" else "module-functions"
        return f'p{st[1]} {{ r: meta.inspect(meta.{fn}("{st[3]}")); }}'
    if k == "I":
        return f'@import "{url_text(st[1])}";'
    if k == "L":
        w = (", $with: (" + ", ".join(f'"{n}": v{v}' for n, v in st[2]) + ")") if st[2] else ""
        return f'@include meta.load-css("{url_text(st[1])}"{w});'
    raise ValueError(k)


def render(proj):
    files = {}
    for m in proj["mods"]:
        lines = []
        if any(s[0] in ("P", "K", "L") for s in m["body"]) and not m.get("sheet"):
            lines.append('@use "sass:meta";')
        lines += [stmt_text(m["name"], s) for s in m["body"]]
        files[mod_relpath(m)] = "\n".join(lines) + "\n"
    return files


def entry_path(proj):
    for m in proj["mods"]:
        if m["name"] == proj["entry"]:
            return mod_relpath(m)
    return DIR + proj["entry"] + ".scss"


def ids(l):
    return ",".join(l) if l else "-"


def enc_stmt(st):
    k = st[0]
    if k == "V":
        return ["V", st[1], str(st[2]), "1" if st[3] else "0"]
    if k == "F":
        return ["F", st[1], st[2] or "-"]
    if k == "X":
        return ["X", st[1]]
    if k in ("C", "D"):
        return [k]
    if k == "U":
        _, u, ns, cfg = st
        out = ["U", url_enc(u), ns, str(len(cfg))]
        for n, v in cfg:
            out += [n, str(v)]
        return out
    if k == "W":
        _, u, pfx, vis, cfg = st
        vs = "A" if vis[0] == "A" else f"{vis[0]}:{ids(vis[1])}:{ids(vis[2])}"
        out = ["W", url_enc(u), pfx or "-", vs, str(len(cfg))]
        for n, v, g in cfg:
            out += [n, str(v), "1" if g else "0"]
        return out
    if k == "A":
        return ["A", st[1], st[2], str(st[3]), "1" if st[4] else "0"]
    if k == "P":
        return ["P", str(st[1]), "1" if st[2] else "0", st[3], st[4] or "-", st[5]]
    if k == "K":
        return ["K", str(st[1]), st[2], st[3]]
    if k == "N":
        return ["N", str(st[1]), str(st[2]), st[3], str(st[4])]
    if k == "I":
        return ["I", url_enc(st[1])]
    if k == "L":
        out = ["L", url_enc(st[1]), str(len(st[2]))]
        for n, v in st[2]:
            out += [n, str(v)]
        return out
    raise ValueError(k)


def is_x(proj):
    """a project with @import / load-css (driver op `runx`: Grass.Module.runX)"""
    return any(m.get("sheet") or any(s[0] in ("I", "L") for s in m["body"]) for m in proj["mods"])


def enc_proj(proj, sw):
    lps = ",".join(proj.get("load_paths") or []) or "-"
    x = is_x(proj)
    toks = ["module", "runx" if x else "run", sw, proj["entry"], "1" if proj.get("lexical") else "0", lps, str(len(proj["mods"]))]
    for m in proj["mods"]:
        toks += ["S" if m.get("sheet") else "M", m["name"], mod_relpath(m)[:-len(".scss")], str(len(m["body"]))]
        for s in m["body"]:
            toks += enc_stmt(s)
    return " ".join(toks)


# ---------------------------------------------------------------------------------------------
# observations
# ---------------------------------------------------------------------------------------------

ERR_CLASSES = [
    ("Module loop", "moduleLoop"), ("Can't find stylesheet", "notFound"),
    ("There's already a module with namespace", "nsExists"), ("There is no module with the namespace", "noSuchNs"),
    ("Undefined variable", "undefVar"), ("Undefined function", "undefFn"), ("Undefined mixin", "undefMixin"),
    ("Private members can't be accessed", "privateAccess"), ("was not declared with !default", "withNotDefault"),
    ("both define a variable named", "starConflict"), ("This file is already being loaded", "importLoop"),
    ("Built-in module", "builtinConfigured"),
]


def err_class(ans):
    if ans.get("status") == "panic":
        return "panic"
    if ans.get("status") in ("timeout", "abort"):
        return ans.get("status")
    msg = (ans.get("err") or {}).get("message") or ""
    for pat, cls in ERR_CLASSES:
        if pat in msg:
            return cls
    return "other:" + msg[:60]


def pres_of_value(decls):
    """probe rule body -> canonical probe result"""
    if not decls:
        return "empty"
    name, val = decls[0]
    if val == "absent":
        return "absent"
    if val == "present":
        return "present"
    m = re.fullmatch(r"v(\d+)", val)
    if m:
        return "v" + m.group(1)
    m = re.fullmatch(r"F__(.+?)__(.+)", val)
    if m:
        return f"f:{m.group(1)}:{m.group(2)}"
    m = re.fullmatch(r"X__(.+?)__(.+)", val)
    if m:
        return f"x:{m.group(1)}:{m.group(2)}"
    if re.fullmatch(r"[-\w]+\(\)", val) and not val.startswith("("):
        return "plain"
    if val == "()" or val.startswith("("):
        return "k:" + ",".join(sorted(re.findall(r'"([^"]+)":', val)))
    return "raw:" + val


def observe_impl(ans):
    """-> {"status", "err", "dbg":[mod…], "css":[event…]}"""
    ob = {"status": ans.get("status"), "err": None, "dbg": [], "css": None}
    for l in ans.get("logs", []):
        if l.get("kind") == "debug" and l.get("msg", "").startswith("dbg__"):
            ob["dbg"].append(nrm(l["msg"][5:]))
    if ans.get("status") != "ok":
        ob["err"] = err_class(ans)
        return ob
    try:
        rules = cssread.flat_rules(cssread.parse(ans["css"]))
    except cssread.IllFormed as e:
        ob["status"], ob["err"] = "ill-formed", str(e)
        return ob
    evs = []
    for ctx, sel, decls in rules:
        if sel is None:
            continue
        m = re.fullmatch(r"m-(.+)", sel)
        if m:
            evs.append("C:" + nrm(m.group(1)))
            continue
        m = re.fullmatch(r"p(\d+)", sel)
        if m:
            evs.append(f"P{m.group(1)}={pres_of_value(decls)}")
    ob["css"] = evs
    return ob


def observe_model(line):
    """model answer line -> same shape (probe key sets sorted, guarded private 'present' stays as the model says)"""
    m = re.fullmatch(r"(ok|err (\w+)) once=(\d) entered=(\S*) \|(.*)", line)
    if not m:
        return None
    evs = m.group(5).split()
    ob = {"status": "ok" if m.group(1) == "ok" else "err", "err": m.group(2), "dbg": [], "css": [],
          "once": m.group(3) == "1", "entered": [x for x in m.group(4).split(",") if x and x != "-"]}
    for e in evs:
        if e.startswith("D:"):
            ob["dbg"].append(e[2:])
        elif e.startswith("C:"):
            ob["css"].append(e)
        else:
            k, v = e.split("=", 1)
            if v.startswith("k:"):
                v = "k:" + ",".join(sorted(x for x in v[2:].split(",") if x))
            ob["css"].append(f"{k}={v}")
    if ob["status"] == "err":
        ob["css"] = None
    return ob


def canon_for_compare(proj, ob):
    """`present` (existence-only probe of a private name) is compared as 'some value'."""
    if ob is None:
        return None
    priv = {st[1] for m in proj["mods"] for st in m["body"] if st[0] == "P" and st[2] and is_private(st[5]) and st[4]}
    css = ob["css"]
    if css is not None and priv:
        out = []
        for e in css:
            m = re.fullmatch(r"P(\d+)=(.*)", e)
            if m and int(m.group(1)) in priv and m.group(2) != "absent":
                out.append(f"P{m.group(1)}=present")
            else:
                out.append(e)
        css = out
    st = ob["status"] if ob["status"] in ("ok",) else "err"
    return (st, ob["err"], tuple(ob["dbg"]), None if css is None else tuple(css))


# ---------------------------------------------------------------------------------------------
# generator
# ---------------------------------------------------------------------------------------------

VARS = ["x", "y", "z", "w"]
FNS = ["f", "g"]
MIXINS = ["m", "n"]
PFXS = ["p-", "q-", "x"]
MODS = ["a", "b", "c", "d", "e"]


class Gen:
    def __init__(self, rng):
        self.rng = rng
        self.val = 0
        self.pid = 0
        self.targets = set()      # modules some earlier statement already loads (a later `with` would come too late)

    def v(self):
        self.val += 1
        return self.val

    def p(self):
        self.pid += 1
        return self.pid

    def spelling(self, name, partial, allow_bad=False, importer=None):
        r = self.rng
        us = partial and r.random() < 0.3
        if allow_bad and not partial and r.random() < 0.5:
            us = True
        ext, dot = r.random() < 0.25, r.random() < 0.25
        dirs = getattr(self, "dirs", None)
        if not dirs or importer is None:
            return (name, us, ext, dot)
        src, dst = dirs[importer], dirs[name]
        k = 0
        while k < len(src) and k < len(dst) and src[k] == dst[k]:
            k += 1
        segs = [".."] * (len(src) - k) + dst[k:]
        x = r.random()
        if ["p"] + dst in self.lps and src != dst and x < 0.6:
            segs = []                                 # found through a load path (with or without the `.scss`)
            self.feat.add("via-load-path")
        elif x < 0.75 or not self.lexical and x < 0.97:
            pass                                      # the plain relative spelling
        else:
            # a detour through an existing directory: `x/../…` (resolves only where canonicalize resolves `..`)
            here = src
            subs = sorted({tuple(d[:len(here) + 1]) for d in dirs.values() if len(d) > len(here) and d[:len(here)] == here})
            if subs:
                segs = [subs[r.randrange(len(subs))][-1], ".."] + segs
                self.feat.add("detour-spelling")
            elif here:
                segs = ["..", here[-1]] + segs
                self.feat.add("detour-spelling")
        if segs:
            self.feat.add("subdir-url")
        return (name, us, ext, dot and not (segs and segs[0] == ".."), segs)

    def module(self, name, earlier, info, feat, is_entry=False):
        """info: name -> {"vars":{n:guarded}, "fns":[…], "mixins":[…], "vis": approx visible names per kind}"""
        r = self.rng
        head, body = [], []
        own_v = {}
        pool = VARS + (["-p", "_q"] if r.random() < 0.35 else [])
        for n in r.sample(pool, r.choice([0, 1, 2, 2, 3])):
            own_v[n] = r.random() < 0.55
        own_f = r.sample(FNS + ["-h"], r.choice([0, 1, 1, 2]))
        own_m = r.sample(MIXINS + ["_k"], r.choice([0, 1, 1, 2]))
        vis = {"v": {}, "f": set(), "m": set()}            # approx. names visible from outside: name -> guarded?
        nss = {}                                            # namespace -> target module name
        stars = []
        # a few variable declarations may precede @use (they matter for `as *` conflicts)
        pre = [n for n in own_v if r.random() < 0.2]
        for n in pre:
            head.append(("V", n, self.v(), own_v[n]))
        loads = []
        if earlier:
            k = r.choice([1, 1, 2, 2, 3]) if not is_entry else r.choice([1, 2, 2, 3, 4])
            for _ in range(k):
                loads.append(r.choice(earlier))
        for t in loads:
            ti = info[t]
            was_target = t in self.targets
            if r.random() < (0.45 if not is_entry else 0.1):
                # @forward
                pfx = r.choice(PFXS) if r.random() < 0.45 else None
                pv = lambda n: (pfx or "") + n
                cand_v = [pv(n) for n in ti["vis"]["v"]] + [pv("zz")] + (list(ti["vis"]["v"]) if pfx else [])
                cand_f = [pv(n) for n in sorted(ti["vis"]["f"] | ti["vis"]["m"])] + [pv("zz")]
                rr = r.random()
                if rr < 0.5:
                    visr = ("A",)
                else:
                    sv = r.sample(cand_v, min(len(cand_v), r.choice([0, 1, 1, 2])))
                    sf = r.sample(cand_f, min(len(cand_f), r.choice([0, 1, 1, 2])))
                    if not sv and not sf:
                        sv = [cand_v[0]]
                    visr = ("S" if rr < 0.75 else "H", sv, sf)
                    feat.add("show" if visr[0] == "S" else "hide")
                if pfx:
                    feat.add("prefix")
                cfg = []
                if r.random() < (0.22 if t not in self.targets else 0.04):
                    names = list(ti["vis"]["v"]) or ["x"]
                    for n in r.sample(names, min(len(names), r.choice([1, 1, 2]))):
                        if not is_private(n):
                            cfg.append((n, self.v(), r.random() < 0.5))
                    if r.random() < 0.15:
                        cfg.append(("zz", self.v(), r.random() < 0.5))
                    if cfg:
                        feat.add("forward-with")
                head.append(("W", self.spelling(t, ti["partial"], importer=name), pfx, visr, cfg))
                self.targets.add(t)
                allowed = lambda lst, n: (visr[0] == "A" or (visr[0] == "S" and n in lst) or (visr[0] == "H" and n not in lst))
                for n, g in ti["vis"]["v"].items():
                    if allowed(visr[1] if visr[0] != "A" else [], pv(n)):
                        vis["v"][pv(n)] = g
                for kind in ("f", "m"):
                    for n in ti["vis"][kind]:
                        if allowed(visr[2] if visr[0] != "A" else [], pv(n)):
                            vis[kind].add(pv(n))
                feat.add("forward")
            else:
                rr = r.random()
                if rr < 0.55:
                    ns = "="
                    key = t
                elif rr < 0.85:
                    ns = r.choice(["n1", "n2", "n3", "lib", t])
                    key = ns
                else:
                    ns = "*"
                    key = None
                    feat.add("star")
                if key is not None and key in nss:
                    if r.random() < 0.9:
                        ns = f"u{len(nss)}"
                        key = ns
                    else:
                        feat.add("err:dup-ns")
                cfg = []
                if r.random() < (0.25 if t not in self.targets else 0.04):
                    names = [n for n in ti["vis"]["v"] if not is_private(n)] or ["x"]
                    if r.random() < 0.06:
                        names = names + [n for n in ti.get("own_v", {}) if is_private(n)]     # grass lets `with` reach a private !default variable
                    rr2 = r.random()
                    if rr2 < 0.85:
                        pick = [n for n in names if ti["vis"]["v"].get(n)] or names
                    else:
                        pick = names
                    for n in r.sample(pick, min(len(pick), r.choice([1, 1, 2]))):
                        cfg.append((n, self.v()))
                    if r.random() < 0.08:
                        cfg.append(("zz", self.v()))
                    feat.add("use-with")
                elif ti.get("nested_only") and r.random() < 0.35 and not was_target:
                    cfg = [(r.choice(ti["nested_only"]), self.v())]
                    feat.add("use-with")
                    feat.add("with-names-nested-only")
                head.append(("U", self.spelling(t, ti["partial"], importer=name), ns, cfg))
                self.targets.add(t)
                if key is not None:
                    nss.setdefault(key, t)
                else:
                    stars.append(t)
        # rest of own variable declarations may be interleaved with the loads
        r.shuffle(head) if r.random() < 0.3 else None
        for n in own_v:
            if n not in pre:
                body.append(("V", n, self.v(), own_v[n]))
        for n in own_f:
            getter = r.choice(list(own_v)) if own_v and r.random() < 0.4 else None
            body.append(("F", n, getter))
        for n in own_m:
            body.append(("X", n))
        # `!default` declarations that are NOT at the root: never configurable, no module member
        nested_only = []
        if r.random() < 0.3:
            for _ in range(r.choice([1, 1, 2])):
                if own_v and r.random() < 0.4:
                    n = r.choice([x for x in own_v])
                else:
                    n = r.choice([x for x in VARS if x not in own_v] or VARS)
                    if n not in own_v:
                        nested_only.append(n)
                st_n = ("N", self.p(), r.randrange(5), n, self.v())
                if r.random() < 0.3:
                    body.insert(0, st_n)         # before the top-level declarations
                else:
                    body.append(st_n)
            feat.add("nested-default")
        body.append(("D",))
        if r.random() < 0.9:
            body.append(("C",))
        # assignments through namespaces
        for ns, t in nss.items():
            if r.random() < 0.3:
                names = [n for n in info[t]["vis"]["v"] if not is_private(n)]
                if names and r.random() < 0.9:
                    body.append(("A", ns, r.choice(names), self.v(), r.random() < 0.15))
                    feat.add("assign")
                elif r.random() < 0.3:
                    body.append(("A", ns, "zz", self.v(), False))
                    feat.add("err:assign-undef")
        # probes
        universe_v = set(VARS + ["-p", "_q", "zz"])
        for ns, t in nss.items():
            tv = info[t]["vis"]
            cands = []
            for n in list(tv["v"]) + r.sample(sorted(universe_v), 2) + [p + x for p in PFXS for x in r.sample(VARS, 1)]:
                cands.append(("v", n))
            for n in sorted(tv["f"]) + ["f", "-h", "p-f"]:
                cands.append(("f", n))
            for n in sorted(tv["m"]) + ["m", "_k", "q-m"]:
                cands.append(("m", n))
            r.shuffle(cands)
            seen = set()
            for kind, n in cands[: r.choice([4, 6, 8])]:
                if (kind, n) in seen:
                    continue
                seen.add((kind, n))
                body.append(("P", self.p(), True, kind, ns, n))
            if r.random() < 0.6:
                body.append(("K", self.p(), "v", ns))
            if r.random() < 0.4:
                body.append(("K", self.p(), "f", ns))
        for t in stars:
            for n in sorted(info[t]["vis"]["f"])[:2] + ["f"]:
                body.append(("P", self.p(), False, "f", None, n))
        for n, g in own_v.items():
            if not is_private(n):
                vis["v"][n] = g
        for n in own_f:
            if not is_private(n):
                vis["f"].add(n)
        for n in own_m:
            if not is_private(n):
                vis["m"].add(n)
        partial = r.random() < 0.3 and not is_entry
        info[name] = {"vis": vis, "partial": partial, "nss": nss, "stars": stars, "own_v": own_v,
                      "nested_only": sorted(set(nested_only))}
        return {"name": name, "partial": partial, "body": head + body}

    def project(self):
        r = self.rng
        self.val, self.pid = 0, 0
        self.targets = set()
        n = r.choice([1, 2, 2, 3, 3, 4, 4, 5])
        names = MODS[:n]
        info, mods, feat = {}, [], set()
        self.feat = feat
        self.dirs, self.lps, self.lexical = None, [], False
        layout = r.random()
        if layout < 0.35:
            # modules in sub-directories; optionally a load path; optionally on the real disk (canonicalize resolves `..`)
            pool_ = [[], [], ["x"], ["x", "y"], ["z"], ["lib"]]
            self.dirs = {nm: list(r.choice(pool_)) for nm in names}
            self.dirs["main"] = list(r.choice([[], [], ["x"]]))
            if any(d == ["lib"] for d in self.dirs.values()) and r.random() < 0.8:
                self.lps = [["p", "lib"]] + ([["p", "z"]] if r.random() < 0.3 else [])
            self.lexical = r.random() < 0.55
            feat.add("dirs")
            if self.lexical:
                feat.add("disk")
        for i, nm in enumerate(names):
            mods.append(self.module(nm, names[:i], info, feat))
        mods.append(self.module("main", names, info, feat, is_entry=True))
        proj = {"entry": "main", "mods": mods}
        if self.dirs:
            for m in mods:
                m["dir"] = "/".join(self.dirs[m["name"]])
            proj["load_paths"] = ["/".join(lp) for lp in self.lps]
            proj["lexical"] = self.lexical
            if not self.lexical:
                # Fs::canonicalize is the identity on the in-memory Fs: `x/../a.scss` is a file only if that literal path
                # is a key, and then it is ANOTHER module than `a.scss`.  Register such keys for leaf targets (a copy under
                # a new name, so the two are told apart in the output); the other `..` URLs stay unresolvable.
                by_name = {m["name"]: m for m in mods}
                extra, seen = [], set()
                for m in mods:
                    for st in m["body"]:
                        if st[0] in ("U", "W") and len(st[1]) > 4 and ".." in st[1][4]:
                            t = by_name.get(st[1][0])
                            lit = "/".join(mod_dir(m) + list(st[1][4]))
                            if t is None or any(x[0] in ("U", "W") for x in t["body"]) or (lit, t["name"]) in seen or r.random() < 0.25:
                                continue
                            seen.add((lit, t["name"]))
                            extra.append({"name": t["name"] + "q" + str(len(extra)), "partial": t["partial"], "dir": lit,
                                          "body": list(t["body"]), "alias_of": t["name"]})
                            feat.add("literal-dotdot-key")
                # the file stem of an alias is the target's, its module name is new
                proj["mods"] = mods[:-1] + extra + mods[-1:]
        self.dirs = None
        # error / cycle injections
        rr = r.random()
        if rr < 0.08 and n >= 1:
            # cycle: an early module loads a later one (or itself, or main)
            i = r.randrange(n)
            tgt = r.choice(names[i:] + ["main"])
            st = ("U", (tgt, False, False, False), "cyc", []) if r.random() < 0.6 else ("W", (tgt, False, False, False), None, ("A",), [])
            mods[i]["body"].insert(0, st)
            feat.add("cycle")
        elif rr < 0.11:
            i = r.randrange(len(mods))
            mods[i]["body"].insert(0, ("U", ("nofile", False, False, False), "=", []))
            feat.add("err:missing")
        elif rr < 0.14:
            # `_name` spelling of a non-partial file
            cands = [(i, j) for i, m in enumerate(mods) for j, s in enumerate(m["body"]) if s[0] in ("U", "W")]
            if cands:
                i, j = r.choice(cands)
                s = list(mods[i]["body"][j])
                s[1] = (s[1][0], True, s[1][2], s[1][3])
                mods[i]["body"][j] = tuple(s)
                feat.add("underscore-spelling")
        elif rr < 0.17:
            # unguarded namespaced reference to a private name (syntax error)
            cands = [(i, ns) for i, m in enumerate(mods) for ns in info[m["name"]]["nss"]]
            if cands:
                i, ns = r.choice(cands)
                mods[i]["body"].append(("P", self.p(), False, r.choice(["v", "f", "m"]), ns, r.choice(["-p", "_q", "-h", "_k"])))
                feat.add("err:private-ref")
        proj["feat"] = sorted(feat)
        return proj

    def triangle(self):
        """main uses `mid` and `a`; mid only forwards a (prefix / show / hide): every candidate name probed through both"""
        r = self.rng
        self.val, self.pid = 0, 0
        self.targets = set()
        info, feat = {}, set()
        a = self.module("a", [], info, feat)
        pfx = r.choice(PFXS + [None, None])
        tv = info["a"]["vis"]
        pv = lambda n: (pfx or "") + n
        cand_v = [pv(n) for n in VARS] + (VARS if pfx else []) + [pv("-p")]
        cand_f = [pv(n) for n in FNS + MIXINS] + (FNS if pfx else [])
        rr = r.random()
        if rr < 0.25:
            vis = ("A",)
        else:
            vis = ("S" if rr < 0.65 else "H", r.sample(cand_v, r.choice([0, 1, 2, 3])), r.sample(cand_f, r.choice([0, 1, 2])))
            if r.random() < 0.3:        # a list naming a single member kind (the other kind's list is EMPTY, not absent)
                vis = (vis[0], vis[1] or [r.choice(cand_v)], []) if r.random() < 0.5 else (vis[0], [], vis[2] or [r.choice(cand_f)])
            if not vis[1] and not vis[2]:
                vis = (vis[0], [r.choice(cand_v)], [])
        mid = {"name": "mid", "partial": r.random() < 0.3, "body": [("W", self.spelling("a", info["a"]["partial"]), pfx, vis, [])]}
        body = [("U", self.spelling("mid", mid["partial"]), "=", []), ("U", self.spelling("a", info["a"]["partial"]), "=", []), ("D",), ("C",)]
        names_v = VARS + ["-p", "_q", "zz"]
        for n in names_v:
            body.append(("P", self.p(), True, "v", "a", n))
        for n in FNS + ["-h"]:
            body.append(("P", self.p(), True, "f", "a", n))
        for n in MIXINS + ["_k"]:
            body.append(("P", self.p(), True, "m", "a", n))
        for n in names_v:
            body.append(("P", self.p(), True, "v", "mid", pv(n)))
            if pfx:
                body.append(("P", self.p(), True, "v", "mid", n))
        for n in FNS + ["-h"]:
            body.append(("P", self.p(), True, "f", "mid", pv(n)))
        for n in MIXINS + ["_k"]:
            body.append(("P", self.p(), True, "m", "mid", pv(n)))
        body += [("K", self.p(), "v", "mid"), ("K", self.p(), "f", "mid")]
        feat |= {"triangle", "forward"} | ({"prefix"} if pfx else set()) | ({"show"} if vis[0] == "S" else {"hide"} if vis[0] == "H" else set())
        return {"entry": "main", "mods": [a, mid, {"name": "main", "partial": False, "body": body}], "feat": sorted(feat)}

    def xproj(self):
        """@import of plain sheets and meta.load-css (driver `runx`).  Modules a, b (import-free; b may load a), sheets
        s1, s2 (declarations, getter functions, bare unguarded probes, s2 may @import s1, sheets meant for load-css may
        @use a module, assign through it and probe it), an importing module c that main configures with `with`, and main."""
        r = self.rng
        self.val, self.pid = 0, 0
        self.targets = set()
        feat = {"x"}
        U0 = lambda t: (t, False, r.random() < 0.2, r.random() < 0.2)
        avars = {n: r.random() < 0.5 for n in r.sample(VARS, r.choice([1, 2, 3]))}
        a = M("a", *[("V", n, self.v(), g) for n, g in avars.items()], ("F", "geta", list(avars)[0]), ("D",), ("C",), partial=r.random() < 0.3)
        bbody = []
        bvars = {n: r.random() < 0.5 for n in r.sample(VARS, r.choice([1, 2]))}
        x = r.random()
        if x < 0.3:
            bbody.append(("U", U0("a"), "=", []))
        elif x < 0.6:
            bbody.append(("W", U0("a"), r.choice([None, "p-"]), ("A",), []))
        bbody += [("V", n, self.v(), g) for n, g in bvars.items()] + [("D",), ("C",)]
        b = M("b", *bbody)
        pub = {"a": list(avars), "b": list(bvars)}

        def sheet(name, earlier, allow_use):
            body, declared = [], []
            if allow_use and r.random() < 0.6:
                t = r.choice(["a", "b"])
                ns = r.choice(["=", "=", "n1", "lib"])
                body.append(("U", U0(t), ns, []))
                key = t if ns == "=" else ns
                feat.add("x-sheet-uses-module")
                for _ in range(r.choice([1, 2])):
                    n = r.choice(pub[t] + ["zz"]) if r.random() < 0.9 else "-p"
                    if r.random() < 0.35 and not is_private(n):
                        body.append(("A", key, n, self.v(), False))
                    body.append(("P", self.p(), False, "v", key, n))
            for _ in range(r.choice([1, 2, 3, 4])):
                y = r.random()
                if y < 0.45:
                    n = r.choice(VARS)
                    body.append(("V", n, self.v(), r.random() < 0.6))
                    declared.append(n)
                elif y < 0.75 and (declared or r.random() < 0.08):
                    n = r.choice(declared) if declared and r.random() < 0.95 else r.choice(VARS)
                    body.append(("P", self.p(), False, "v", None, n))
                elif y < 0.85 and declared:
                    body.append(("F", "get" + name, r.choice(declared)))
                    body.append(("P", self.p(), False, "f", None, "get" + name))
                elif earlier and y < 0.97:
                    body.append(("I", U0(r.choice(earlier))))
                    feat.add("x-import-chain")
            if not any(s_[0] == "P" for s_ in body):
                body.append(("P", self.p(), False, "f", None, "get" + name))     # always observable (plain function if undefined)
            return {"name": name, "partial": r.random() < 0.3, "sheet": True, "body": body}

        lc_only = r.random() < 0.5                # s2 is meant for load-css only: it may @use a module
        s1 = sheet("s1", [], False)
        s2 = sheet("s2", ["s1"], lc_only)
        if r.random() < 0.06:
            s1["body"].append(("I", U0("s2")))    # import cycle s1 <-> s2
            if not any(s_[0] == "I" for s_ in s2["body"]):
                s2["body"].append(("I", U0("s1")))
            feat.add("x-import-cycle")
        sheets = {"s1": s1, "s2": s2}

        def includes(body, into_main):
            for _ in range(r.choice([1, 1, 2, 3])):
                t = r.choice(["s1", "s2"])
                uses = any(s_[0] == "U" for s_ in sheets[t]["body"])
                if (uses and r.random() < 0.93) or (not uses and r.random() < 0.4):
                    cfg = []
                    if r.random() < 0.35:
                        cfg = [(r.choice(VARS + ["zz"]), self.v()) for _ in range(r.choice([1, 1, 2]))]
                        cfg = list({n: (n, v) for n, v in cfg}.values())
                        feat.add("x-load-css-with")
                    body.append(("L", U0(t), cfg))
                    feat.add("x-load-css")
                else:
                    body.append(("I", U0(t)))
                    feat.add("x-import" if not uses else "x-import-of-sheet-with-use")
                if r.random() < 0.6:
                    decl = [s_[1] for s_ in sheets[t]["body"] if s_[0] == "V"]
                    if decl or r.random() < 0.05:
                        body.append(("P", self.p(), False, "v", None, r.choice(decl) if decl and r.random() < 0.95 else r.choice(VARS)))
            if sum(1 for s_ in body if s_[0] in ("I", "L")) != len({s_[1][0] for s_ in body if s_[0] in ("I", "L")}):
                feat.add("x-same-sheet-included-twice")

        mods = [a, b, s1, s2]
        main = []
        for n in r.sample(VARS, r.choice([0, 1, 2])):
            main.append(("V", n, self.v(), r.random() < 0.4))
        used = {}
        for t in r.sample(["a", "b"], r.choice([0, 1, 2])):
            ns = r.choice(["=", "=", "n1", "lib", "*"]) if r.random() < 0.3 else r.choice(["=", "n1", "lib"])
            if ns != "*" and (t if ns == "=" else ns) in used:
                continue
            cfg = [(n, self.v()) for n in r.sample(pub[t], 1)] if r.random() < 0.2 else []
            main.append(("U", U0(t), ns, cfg))
            if ns != "*":
                used[t if ns == "=" else ns] = t
        if r.random() < 0.45:
            # an importing module configured by main: `with` reaches the `!default` declarations of the imported sheet
            cbody = []
            includes(cbody, False)
            cbody += [("D",), ("C",)]
            mods.append(M("c", *cbody))
            inc = [sheets[s_[1][0]] for s_ in cbody if s_[0] in ("I", "L")]
            decl = [s_[1] for sh in inc for s_ in sh["body"] if s_[0] == "V" and s_[3]]
            cfg = [(r.choice(decl) if decl and r.random() < 0.85 else r.choice(VARS + ["zz"]), self.v())] if r.random() < 0.45 else []
            main.append(("U", U0("c"), "=", cfg))
            used["c"] = "c"
            feat.add("x-importing-module")
            if cfg:
                feat.add("x-with-on-importing-module")
        if r.random() < 0.85 or "c" not in used:
            includes(main, True)
        if r.random() < 0.04:
            main.append(("I", ("nofile", False, False, False)))
            feat.add("err:missing")
        main += [("D",), ("C",)]
        for ns, t in used.items():
            names = (pub.get(t) or VARS) + ["zz"]
            for n in r.sample(names, min(len(names), 2)):
                main.append(("P", self.p(), True, "v", ns, n))
            if r.random() < 0.4:
                main.append(("K", self.p(), "v", ns))
        own = [s_[1] for s_ in main if s_[0] == "V"]
        for n in own[:2] + (r.sample(VARS, 1) if r.random() < 0.1 else []):
            main.append(("P", self.p(), False, "v", None, n))          # a name no included sheet declared: Undefined variable
        for t in ("s1", "s2"):
            main.append(("P", self.p(), False, "f", None, "get" + t))  # the sheet's getter if it leaked, else a plain CSS function
        mods.append(M("main", *main))
        return {"entry": "main", "mods": mods, "feat": sorted(feat)}

    def special(self):
        x = self.rng.random()
        if x > 0.86:
            return self.xproj()
        if x < 0.12:
            return self.triangle()
        if x < 0.20:
            return self.chain3()
        if x < 0.28:
            return self.assign_chain()
        return None

    def chain3(self):
        """main -> a with(...) -> b (plain @use, @forward, or @forward … with) -> c: configuration must stop at a plain
        @use, pass through @forward, and every level declares same-named variables with and without !default"""
        r = self.rng
        self.val, self.pid = 0, 0
        self.targets = set()
        names = ["c", "b", "a"]
        mods = []
        decl = {}
        for i, nm in enumerate(names):
            body = []
            vs = {n: r.random() < 0.6 for n in r.sample(VARS, r.choice([1, 2, 3]))}
            decl[nm] = vs
            if i > 0:
                t = names[i - 1]
                kind = r.choice(["use", "use", "forward", "forward-prefix", "forward-with"])
                if kind == "use":
                    body.append(("U", (t, False, False, False), r.choice(["=", "n1", "*"]), []))
                elif kind == "forward":
                    body.append(("W", (t, False, False, False), None, ("A",), []))
                elif kind == "forward-prefix":
                    body.append(("W", (t, False, False, False), r.choice(PFXS), ("A",), []))
                else:
                    cfg = [(n, self.v(), r.random() < 0.6) for n in r.sample(VARS, r.choice([1, 2]))]
                    body.append(("W", (t, False, False, False), None, ("A",), cfg))
                if r.random() < 0.3:
                    body.append(("U", (names[0], False, False, False), "deep", []))
            for n, g in vs.items():
                body.append(("V", n, self.v(), g))
            body += [("F", "get" + list(vs)[0], list(vs)[0]), ("D",), ("C",)]
            mods.append({"name": nm, "partial": False, "body": body})
        declared = sorted({n for nm in names for n in decl[nm]})
        pool_ = declared if r.random() < 0.7 else sorted(set(VARS + ["p-x", "q-y", "xz"] + [p_ + n for p_ in PFXS for n in declared]))
        cfg_names = r.sample(pool_, min(len(pool_), r.choice([1, 1, 2])))
        main = [("U", ("a", False, False, False), "=", [(n, self.v()) for n in cfg_names])]
        for t in ("b", "c"):
            if r.random() < 0.7:
                main.append(("U", (t, False, False, False), "=", []))
        main += [("D",), ("C",)]
        for ns in [s_[1][0] for s_ in main if s_[0] == "U"]:
            for n in VARS + ["p-x", "q-y", "xz"]:
                main.append(("P", self.p(), True, "v", ns, n))
            for nm in names:
                for n in decl[nm]:
                    main.append(("P", self.p(), True, "f", ns, "get" + n))
        mods.append({"name": "main", "partial": False, "body": main})
        return {"entry": "main", "mods": mods, "feat": ["chain3", "use-with"]}

    def assign_chain(self):
        """a <- mid (@forward, maybe prefixed / limited) <- top (@forward mid); main uses all of them under several aliases,
        assigns repeatedly through random aliases and reads through every alias after each assignment"""
        r = self.rng
        self.val, self.pid = 0, 0
        self.targets = set()
        avars = r.sample(VARS, r.choice([2, 3]))
        a = {"name": "a", "partial": r.random() < 0.3,
             "body": [("V", n, self.v(), r.random() < 0.5) for n in avars] + [("F", "get" + avars[0], avars[0]), ("D",), ("C",)]}
        pfx = r.choice(PFXS + [None, None, None])
        vis = ("A",) if r.random() < 0.6 else ("S", [(pfx or "") + n for n in r.sample(avars, r.choice([1, 2]))], [])
        midbody = [("W", self.spelling("a", a["partial"]), pfx, vis, [])]
        if r.random() < 0.4:
            midbody.append(("V", r.choice(VARS), self.v(), False))       # an own variable, possibly shadowing a forwarded one
        midbody += [("D",), ("C",)]
        mid = {"name": "mid", "partial": False, "body": midbody}
        top = {"name": "top", "partial": False, "body": [("W", ("mid", False, False, False), None, ("A",), []), ("D",)]}
        aliases = [("a", "a"), ("mid", "mid"), ("top", "top"), ("a", "a2"), ("mid", "m2")]
        used = [al for al in aliases if r.random() < 0.75] or aliases[:2]
        body = [("U", (t, False, False, False), ns if ns != t else "=", []) for t, ns in used] + [("D",), ("C",)]
        pv = lambda t, n: n if t == "a" else (pfx or "") + n

        def reads():
            for t, ns in used:
                for n in avars:
                    body.append(("P", self.p(), True, "v", ns, pv(t, n)))
                body.append(("P", self.p(), True, "f", ns, pv(t, "get" + avars[0])))
        reads()
        for _ in range(r.choice([2, 3, 4])):
            t, ns = r.choice(used)
            n = r.choice(avars)
            if t != "a" and vis[0] == "S" and pv(t, n) not in vis[1]:
                n = vis[1][0][len(pfx or ""):]
            body.append(("A", ns, pv(t, n), self.v(), r.random() < 0.1))
            reads()
        return {"entry": "main", "mods": [a, mid, top, {"name": "main", "partial": False, "body": body}],
                "feat": ["assign-chain", "assign", "forward"] + (["prefix"] if pfx else [])}

    def variants(self, proj, model_ok):
        """projects that differ from `proj` by one unguarded (possibly failing) reference"""
        r = self.rng
        out = []
        if not model_ok:
            return out
        self.pid = max([st[1] for m in proj["mods"] for st in m["body"] if st[0] in ("P", "K", "N")] + [0])
        spots = []
        for i, m in enumerate(proj["mods"]):
            for st in m["body"]:
                if st[0] == "P" and st[2] and st[4] and not is_private(st[5]):
                    spots.append((i, st))
        r.shuffle(spots)
        for i, st in spots[:2]:
            q = json.loads(json.dumps(proj))
            q["mods"][i]["body"].append(["P", self.p(), False, st[3], st[4], st[5]])
            q["feat"] = sorted(set(proj.get("feat", [])) | {"unguarded-ref"})
            out.append(untuple(q))
        # bare references under `as *`
        for i, m in enumerate(proj["mods"]):
            stars = [s for s in m["body"] if s[0] == "U" and s[2] == "*"]
            if stars and r.random() < 0.7:
                q = json.loads(json.dumps(proj))
                kind = r.choice(["v", "v", "m", "f"])
                name = r.choice(VARS + MIXINS + ["-p", "zz"]) if kind != "m" else r.choice(MIXINS + ["_k"])
                q["mods"][i]["body"].append(["P", self.p(), False, kind, None, name])
                q["feat"] = sorted(set(proj.get("feat", [])) | {"bare-ref"})
                out.append(untuple(q))
                break
        return out


def untuple(q):
    """json round trip turns tuples into lists; restore the statement shape used by render/enc"""
    for m in q["mods"]:
        body = []
        for s in m["body"]:
            s = list(s)
            if s[0] in ("U", "W", "I", "L"):
                s[1] = tuple(s[1])
            if s[0] == "L":
                s[2] = [tuple(x) for x in s[2]]
            if s[0] == "U":
                s[3] = [tuple(x) for x in s[3]]
            if s[0] == "W":
                s[3] = tuple(s[3])
                s[4] = [tuple(x) for x in s[4]]
            body.append(tuple(s))
        m["body"] = body
    return q


# ---------------------------------------------------------------------------------------------
# hand-written cases: minimised past failures and witnesses of the known findings (run first)
# ---------------------------------------------------------------------------------------------

def U(t, ns="=", cfg=(), us=False):
    return ("U", (t, us, False, False), ns, list(cfg))


def W(t, pfx=None, vis=("A",), cfg=()):
    return ("W", (t, False, False, False), pfx, vis, list(cfg))


def M(name, *body, partial=False):
    return {"name": name, "partial": partial, "body": list(body)}


A_STD = M("a", ("V", "x", 1, True), ("V", "y", 2, False), ("V", "-p", 3, True), ("F", "f", None), ("F", "-h", None),
          ("F", "gx", "x"), ("X", "m"), ("X", "_k"), ("D",), ("C",))


def corpus():
    cs = []

    def add(name, tags, *mods):
        cs.append({"entry": "main", "mods": list(mods), "feat": ["corpus:" + name], "expect_tags": tags})

    # diamond: a evaluated and emitted once
    add("diamond", [], A_STD, M("b", U("a"), ("D",), ("C",)), M("c", U("a", us=False), ("D",), ("C",)),
        M("main", U("b"), U("c"), U("a"), ("D",), ("C",), ("P", 1, True, "v", "a", "x"), ("P", 2, True, "v", "a", "-p"),
          ("P", 3, True, "f", "a", "-h"), ("P", 4, True, "m", "a", "_k"), ("P", 5, True, "f", "a", "gx"), ("K", 6, "v", "a"), ("K", 7, "f", "a")))
    # D7 witness (fixed): show restricts
    add("forward-show", [], A_STD, M("mid", W("a", None, ("S", ["x"], []))),
        M("main", U("mid"), ("P", 1, True, "v", "mid", "x"), ("P", 2, True, "v", "mid", "y"), ("P", 3, True, "f", "mid", "f"), ("K", 4, "v", "mid")))
    # F1 (fixed): prefix + hide lost every member of the kind
    add("prefix-hide", ["prefixedKeysBug"], A_STD, M("mid", W("a", "p-", ("H", ["p-y"], []))),
        M("main", U("mid"), ("P", 1, True, "v", "mid", "p-x"), ("P", 2, True, "v", "mid", "p-y"), ("P", 3, True, "f", "mid", "p-f")))
    # F1 (fixed): module-variables omitted prefixed forwarded members
    add("prefix-keys", ["prefixedKeysBug"], A_STD, M("mid", W("a", "p-"), ("V", "own", 9, False)),
        M("main", U("mid"), ("K", 1, "v", "mid"), ("K", 2, "f", "mid"), ("P", 3, True, "v", "mid", "p-x")))
    # F1 (fixed): a module that only forwards with a prefix was dropped by a further @forward
    add("prefix-reforward", ["prefixedKeysBug"], A_STD, M("mid", W("a", "p-")), M("top", W("mid")),
        M("main", U("top"), U("mid"), ("P", 1, True, "v", "mid", "p-x"), ("P", 2, True, "v", "top", "p-x")))
    # F2 (fixed): @forward … with under an outer configuration was never checked
    add("forward-with-unchecked", ["fwdCfgImplicit"], A_STD, M("mid", W("a", None, ("A",), [("zz", 7, False)])),
        M("main", U("mid", "=", [("x", 8)]), ("P", 1, True, "v", "mid", "x")))
    add("forward-with-nondefault-unchecked", ["fwdCfgImplicit"], A_STD, M("mid", W("a", None, ("A",), [("y", 7, False)])),
        M("main", U("mid", "=", [("x", 8)]), ("P", 1, True, "v", "mid", "y")))
    # F3, F4 (fixed): crashes
    add("forward-with-through-view", ["viewIterPanics"], A_STD, M("mid", W("a", "p-", ("A",), [("y", 7, True)])),
        M("main", U("mid", "=", [("p-x", 8)]), ("P", 1, True, "v", "mid", "p-x")))
    add("assign-undefined-through-forward", ["mergedInsertPanics"], A_STD, M("mid", W("a")),
        M("main", U("mid"), ("A", "mid", "nope", 5, False)))
    # with: ok / non-default / unknown / after load
    add("with-ok", [], A_STD, M("main", U("a", "=", [("x", 8)]), ("P", 1, True, "v", "a", "x"), ("P", 2, True, "f", "a", "gx")))
    add("with-nondefault", [], A_STD, M("main", U("a", "=", [("y", 8)])))
    add("with-unknown", [], A_STD, M("main", U("a", "=", [("zz", 8)])))
    add("with-after-load", [], A_STD, M("b", U("a")), M("main", U("b"), U("a", "=", [("x", 8)])))
    add("with-through-forward-prefix", [], A_STD, M("mid", W("a", "p-")), M("main", U("mid", "=", [("p-x", 8)]), ("P", 1, True, "v", "mid", "p-x")))
    # cycles
    add("cycle", [], M("a", U("b")), M("b", U("a")), M("main", U("a")))
    add("cycle-main", [], M("a", U("main")), M("main", U("a")))
    add("cycle-forward", [], M("a", W("b")), M("b", W("a")), M("main", U("a")))
    # assignment through a namespace is shared
    add("assign-shared", [], A_STD, M("b", U("a"), ("A", "a", "y", 50, False), ("P", 1, True, "v", "a", "y")),
        M("c", U("a", "n1"), ("P", 2, True, "v", "n1", "y"), ("P", 3, True, "f", "n1", "gx")),
        M("main", U("b"), U("c"), U("a"), ("P", 4, True, "v", "a", "y")))
    add("assign-via-forward", [], A_STD, M("mid", W("a", "p-")),
        M("main", U("mid"), U("a"), ("A", "mid", "p-y", 51, False), ("P", 1, True, "v", "a", "y"), ("P", 2, True, "v", "mid", "p-y")))
    # privacy
    add("private-ref", [], A_STD, M("main", U("a"), ("P", 1, False, "v", "a", "-p")))
    add("private-star", [], A_STD, M("main", U("a", "*"), ("P", 1, False, "f", None, "-h"), ("P", 2, False, "v", None, "-p")))
    # configuration stops at a plain @use (three levels), passes through @forward
    add("with-stops-at-plain-use", [], M("b", ("V", "x", 1, True), ("D",), ("C",)),
        M("a", U("b"), ("V", "x", 2, True), ("D",), ("C",)),
        M("main", U("a", "=", [("x", 9)]), U("b"), ("P", 1, True, "v", "a", "x"), ("P", 2, True, "v", "b", "x")))
    add("with-not-taken-by-plain-use", [], M("b", ("V", "x", 1, True)), M("a", U("b"), ("V", "y", 2, True)),
        M("main", U("a", "=", [("x", 9)])))
    # a show list naming one member kind: the other kind is forwarded not at all
    add("show-single-kind", [], A_STD, M("mid", W("a", None, ("S", ["x"], []))), M("mid2", W("a", None, ("S", [], ["f"]))),
        M("main", U("mid"), U("mid2"), ("P", 1, True, "f", "mid", "f"), ("P", 2, True, "m", "mid", "m"), ("P", 3, True, "v", "mid", "x"),
          ("P", 4, True, "v", "mid2", "x"), ("P", 5, True, "f", "mid2", "f"), ("P", 6, True, "m", "mid2", "m"), ("K", 7, "f", "mid"), ("K", 8, "v", "mid2")))
    # repeated assignment through a forwarder reaches the upstream variable every time; no local copy appears
    add("assign-twice-through-forward", [], A_STD, M("mid", W("a")),
        M("main", U("mid"), U("a"), ("A", "mid", "y", 60, False), ("P", 1, True, "v", "a", "y"), ("A", "mid", "y", 61, False),
          ("P", 2, True, "v", "a", "y"), ("P", 3, True, "v", "mid", "y"), ("A", "a", "y", 62, False), ("P", 4, True, "v", "mid", "y"),
          ("P", 5, True, "f", "mid", "gx"), ("K", 6, "v", "mid")))
    # only top-level !default declarations are configurable (seed C12-r2m2)
    add("with-nested-default-only", [], M("t", ("N", 1, 0, "x", 2), ("N", 2, 3, "y", 3), ("N", 3, 1, "z", 4), ("D",), ("C",)),
        M("main", U("t", "=", [("x", 9)])))
    add("with-nested-default-only-mixin", [], M("t", ("N", 1, 0, "x", 2), ("N", 2, 3, "y", 3), ("N", 3, 4, "z", 4), ("D",), ("C",)),
        M("main", U("t", "=", [("y", 9)])))
    add("nested-default-is-local", [], M("t", ("V", "w", 1, True), ("N", 1, 0, "x", 2), ("N", 2, 2, "w", 3), ("N", 3, 4, "z", 4), ("D",), ("C",)),
        M("main", U("t", "=", [("w", 9)]), ("P", 4, True, "v", "t", "x"), ("P", 5, True, "v", "t", "w"), ("P", 6, True, "v", "t", "z"),
          ("K", 7, "v", "t"), ("K", 8, "f", "t")))
    # round 3: @import of plain sheets is inclusion into the importing module; load-css as found is the same (known finding)
    u0 = lambda t: (t, False, False, False)
    S1 = dict(M("s1", ("V", "x", 5, True), ("P", 1, False, "v", None, "x")), sheet=True)
    S2 = dict(M("s2", U("a"), ("V", "y", 5, True), ("P", 1, False, "v", None, "y"), ("P", 3, False, "v", "a", "x")), sheet=True)
    add("import-plain-sees-importer", [], S1, M("main", ("V", "x", 9, False), ("I", u0("s1")), ("I", u0("s1")), ("P", 2, False, "v", None, "x")))
    add("import-config-reaches-sheet", [], S1, M("c", ("I", u0("s1")), ("D",), ("C",)),
        M("main", U("c", "=", [("x", 8)]), ("P", 2, True, "v", "c", "x")))
    add("import-cycle", [], dict(M("s3", ("P", 1, False, "f", None, "q"), ("I", u0("s4"))), sheet=True), dict(M("s4", ("I", u0("s3"))), sheet=True),
        M("main", ("I", u0("s3"))))
    add("import-missing", [], M("main", ("D",), ("I", u0("nofile"))))
    add("load-css-leaks", ["loadCssIsImport"], A_STD, S2, M("main", ("L", u0("s2"), []), ("P", 2, False, "v", None, "y")))
    add("load-css-twice-ns-clash", ["loadCssIsImport"], A_STD, S2, M("main", ("L", u0("s2"), []), ("L", u0("s2"), [])))
    add("load-css-with-ignored", ["loadCssIsImport"], A_STD, S2, M("main", ("L", u0("s2"), [("y", 9)])))
    # spellings of one partial
    add("spellings", [], M("a", ("V", "x", 1, False), ("D",), ("C",), partial=True),
        M("main", ("U", ("a", False, False, False), "=", []), ("U", ("a", True, False, False), "n1", []), ("U", ("a", False, True, True), "n2", []),
          ("U", ("a", True, True, True), "n3", []), ("D",), ("C",)))
    return cs


# ---------------------------------------------------------------------------------------------
# evaluation of a batch of projects
# ---------------------------------------------------------------------------------------------

def run_models(projs, sws):
    lines = []
    for p in projs:
        for sw in sws:
            lines.append(enc_proj(p, sw))
    outs = driver(lines)
    res = []
    k = len(sws)
    for i, p in enumerate(projs):
        res.append({sw: outs[i * k + j] for j, sw in enumerate(sws)})
    return res


def triangle_lines(proj, ob):
    """For `main { @use mid; @use a }`, `mid { @forward a … }` (single forward, no own members): the
    relation  visible(mid, n) <-> allowed(n) and has-prefix(n) and visible(a, strip n)  on grass's own answers."""
    if ob["css"] is None or "triangle" not in proj.get("feat", []):
        return []
    res = {}
    for e in ob["css"]:
        m = re.fullmatch(r"P(\d+)=(.*)", e)
        if m:
            res[int(m.group(1))] = m.group(2)
    mid = next((m for m in proj["mods"] if m["name"] == "mid"), None)
    w = next((s for s in mid["body"] if s[0] == "W"), None) if mid else None
    if w is None or not any(m["name"] == "main" for m in proj["mods"]):
        return []           # (a shrunk triangle may have lost its shape)
    pfx, vis = w[2], w[3]
    vs = "A" if vis[0] == "A" else f"{vis[0]}:{ids(vis[1])}:{ids(vis[2])}"
    main = next(m for m in proj["mods"] if m["name"] == "main")
    by = {}
    for st in main["body"]:
        if st[0] == "P" and st[1] in res:
            by[(st[4], st[3], nrm(st[5]))] = res[st[1]]
    out = []
    for (ns, kind, n), r in by.items():
        if ns != "mid":
            continue
        up = nrm(n)[len(pfx):] if pfx and nrm(n).startswith(pfx) else (None if pfx else nrm(n))
        upr = by.get(("a", kind, up)) if up is not None else "absent"
        if upr is None:
            continue
        out.append((f"module allows {pfx or '-'} {vs} {kind} {n}", r, upr, (kind, n)))
    return out


def once_line(ob):
    css = [e[2:] for e in (ob["css"] or []) if e.startswith("C:")]
    return f"module once {ids(ob['dbg'])} {ids(css)}"


def direct_checks(proj, ob, once_answer):
    """P̂ evaluated on grass's own observation (no model involved): returns list of failure strings"""
    fails = []
    if once_answer != "ok 1":
        fails.append(f"loads-once: debug={ob['dbg']} css={ob['css']} -> {once_answer}")
    if ob["css"] is not None:
        res = {}
        for e in ob["css"]:
            m = re.fullmatch(r"P(\d+)=(.*)", e)
            if m:
                res[int(m.group(1))] = m.group(2)
        for m_ in proj["mods"]:
            for st in m_["body"]:
                if st[0] == "P" and is_private(st[5]) and st[1] in res:
                    if st[4] is not None and res[st[1]] not in ("absent",):
                        fails.append(f"private-visible: probe {st} -> {res[st[1]]}")
                    if st[4] is None and st[3] == "f" and res[st[1]] != "plain":
                        # bare private function of a *global* module must not resolve (own private is fine)
                        own = any(s[0] == "F" and nrm(s[1]) == nrm(st[5]) for s in m_["body"])
                        if not own:
                            fails.append(f"private-visible: probe {st} -> {res[st[1]]}")
                if st[0] == "K" and st[1] in res:
                    ks = [k for k in res[st[1]][2:].split(",") if k]
                    if any(is_private(k) for k in ks):
                        fails.append(f"private-visible: keys {st} -> {ks}")
    return fails


def evaluate(ck, pool, projs, tier):
    files = [render(p) for p in projs]
    jobs, roots = [], []
    for i, (f, p) in enumerate(zip(files, projs)):
        if p.get("lexical"):
            # the real disk: Fs::canonicalize resolves `..`
            import os
            import shutil
            from vlib import BUILD
            root = os.path.join(BUILD, "c12-disk", f"{os.getpid()}-{i}")
            shutil.rmtree(root, ignore_errors=True)
            for rel, text in f.items():
                os.makedirs(os.path.dirname(os.path.join(root, rel)), exist_ok=True)
                with open(os.path.join(root, rel), "w") as fh:
                    fh.write(text)
            roots.append(root)
            jobs.append({"mode": "compile", "entry": os.path.join(root, entry_path(p)), "fs": "std",
                         "options": {"load_paths": [os.path.join(root, lp) for lp in p.get("load_paths") or []]}})
        else:
            jobs.append(compile_job(files=f, entry=entry_path(p), load_paths=list(p.get("load_paths") or [])))
    answers = pool.map(jobs, timeout=20)
    for root in roots:
        import shutil
        shutil.rmtree(root, ignore_errors=True)
    models = run_models(projs, ["now", "spec"])
    obs = [observe_impl(a) for a in answers]
    tri = [triangle_lines(p, o) for p, o in zip(projs, obs)]
    lines = [once_line(o) for o in obs] + [t[0] for ts in tri for t in ts]
    outs = driver(lines) if lines else []
    onces = outs[:len(obs)]
    tri_out = outs[len(obs):]
    tri_fail, k = [], 0
    for ts in tri:
        fl = []
        for (line, r, upr, what) in ts:
            allowed = tri_out[k] == "ok 1"
            k += 1
            expect_visible = allowed and upr != "absent"
            if (r != "absent") != expect_visible or (expect_visible and r != upr):
                fl.append(f"forward-view: {what} through mid -> {r}; upstream -> {upr}; allowed by the rule: {allowed}")
        tri_fail.append(fl)
    need_single = []
    results = []
    for p, f, ans, mo, ob, oa, tf in zip(projs, files, answers, models, obs, onces, tri_fail):
        now = observe_model(mo["now"])
        spec = observe_model(mo["spec"])
        if now is None or spec is None:
            ck.cov["unsupported_dropped"] += 1
            results.append(None)
            continue
        ci, cn, cs = canon_for_compare(p, ob), canon_for_compare(p, now), canon_for_compare(p, spec)
        results.append({"proj": p, "files": f, "ans": ans, "ob": ob, "now": now, "spec": spec, "ci": ci, "cn": cn, "cs": cs, "once": oa, "tri": tf})
        if ci != cs:
            if ci == cn and any(s_[0] == "L" for m_ in p["mods"] for s_ in m_["body"]):
                results[-1]["tags"] = ["loadCssIsImport"]       # as found: load-css is an import (Switches of runX)
            else:
                need_single.append(len(results) - 1)
    # classify deviations from the specified behaviour by the smallest set of known switches that explains them
    # (the as-found model with all of them on is `now`; so whenever the tie holds some subset matches)
    if need_single:
        import itertools
        subsets = [c for k in range(1, len(SWITCHES) + 1) for c in itertools.combinations(range(len(SWITCHES)), k)]
        names = ["bits:0" + "".join("1" if i in c else "0" for i in range(len(SWITCHES))) for c in subsets]
        sub = [results[i]["proj"] for i in need_single]
        outs = run_models(sub, names)
        for i, mo in zip(need_single, outs):
            r = results[i]
            tags = []
            for c, nm in zip(subsets, names):
                if canon_for_compare(r["proj"], observe_model(mo[nm])) == r["ci"]:
                    tags = [SWITCHES[j] for j in c]
                    break
            r["tags"] = tags
    return results


def short(p):
    return {"files": render(p), "entry": entry_path(p)}


def judge(ck, results, count=True):
    """Returns list of failing cases (dicts with tags)."""
    failing = []
    for r in results:
        if r is None:
            continue
        p = r["proj"]
        feat = p.get("feat", [])
        if count:
            nontrivial = len(p["mods"]) >= 2 and any(s[0] in ("U", "W") for m in p["mods"] for s in m["body"])
            ck.count(("c12", enc_proj(p, "now")), nontrivial)
            ck.hist(f"modules={len(p['mods'])}")
            for ft in feat:
                ck.hist("feat:" + ft.split(":")[0] + (":" + ft.split(":")[1] if ft.startswith("err:") else ""))
            ck.hist("impl:" + (r["ob"]["err"] or "ok"))
            nprobe = sum(1 for m in p["mods"] for s in m["body"] if s[0] in ("P", "K"))
            ck.hist("probes", nprobe)
            loads = [s[1][0] for m in p["mods"] for s in m["body"] if s[0] in ("U", "W")]
            if len(loads) != len(set(loads)):
                ck.hist("shape:module-loaded-more-than-once")
        # (b) tie
        if r["ci"] != r["cn"]:
            ck.cov["model_disagreements"] += 1
            if len(ck.disagreements) < 5:
                ck.disagreements.append({"project": short(p), "impl_observation": r["ci"], "model_observation": r["cn"],
                                         "driver_line": enc_proj(p, "now")})
        # (c) direct
        fails = direct_checks(p, r["ob"], r["once"])
        soft = list(r.get("tri", []))
        if r["ci"] != r["cs"]:
            soft.append("differs-from-specified-behaviour")
        if r.get("tri"):
            ck.hist("direct:forward-relation-violated")
        if "triangle" in feat:
            ck.hist("direct:forward-relation-checked")
        fails += soft
        if fails:
            # the forward relation and the difference from the specified model are explained by a known switch
            # when the as-found model reproduces grass exactly; the independent predicates (once, private) never are
            tags = r.get("tags", []) if (fails == soft and r["ci"] != r["cs"]) else []
            failing.append({"project": short(p), "feat": feat, "failures": fails, "impl_observation": r["ci"],
                            "specified_observation": r["cs"], "as_found_model_observation": r["cn"], "tags": tags,
                            "size": sum(len(m["body"]) for m in p["mods"]), "proj": p})
        if count and ck.cov["evaluations"] % 211 == 0:
            ck.sample({"files": render(p), "impl": r["ci"], "model": r["cn"]}, cap=6)
    return failing


ALIAS_ARGS = {
    "ceil": ["1.5"], "floor": ["1.5"], "round": ["2.5"], "abs": ["-3px"], "min": ["1, 2"], "max": ["1px, 2px"],
    "percentage": ["0.5"], "comparable": ["1px, 1em", "1px, 1in"], "unit": ["1px"], "unitless": ["1", "1px"],
    "length": ["(a b c)"], "nth": ["(a b c), 2"], "set-nth": ["(a b c), 2, z"], "join": ["(a b), (c d)"],
    "append": ["(a b), c"], "zip": ["(a b), (1 2)"], "index": ["(a b c), b"], "list-separator": ["(a, b)"],
    "is-bracketed": ["[a b]"], "map-get": ["(a: 1), a"], "map-merge": ["(a: 1), (b: 2)"],
    "map-remove": ["(a: 1, b: 2), a"], "map-keys": ["(a: 1, b: 2)"], "map-values": ["(a: 1, b: 2)"],
    "map-has-key": ["(a: 1), a"], "map-set": ["(a: 1), b, 2"], "unquote": ['"a"'], "quote": ["a"], "str-length": ['"abc"'],
    "str-insert": ['"abc", "X", 2'], "str-index": ['"abc", "b"'], "str-slice": ['"abcd", 2, 3'],
    "to-upper-case": ['"aB"'], "to-lower-case": ['"aB"'], "red": ["#123456"], "green": ["#123456"], "blue": ["#123456"],
    "mix": ["red, blue, 30%"], "hue": ["#123456"], "saturation": ["#123456"], "lightness": ["#123456"],
    "complement": ["#123456"], "grayscale": ["#123456"], "invert": ["#123456"], "alpha": ["rgba(1, 2, 3, 0.5)"],
    "opacity": ["rgba(1, 2, 3, 0.5)"], "adjust-color": ["#123456, $red: 10"], "scale-color": ["#123456, $lightness: 10%"],
    "change-color": ["#123456, $blue: 1"], "ie-hex-str": ["#123456"], "is-superselector": ['"a", "a.b"'],
    "selector-append": ['".a", ".b"'], "selector-extend": ['".a .b", ".b", ".c"'], "selector-nest": ['".a", ".b"'],
    "selector-parse": ['".a, .b"'], "selector-replace": ['".a .b", ".b", ".c"'], "selector-unify": ['".a", ".b"'],
    "simple-selectors": ['".a.b"'], "feature-exists": ['"at-error"'], "inspect": ["(a b)"], "type-of": ["1px"],
    "global-variable-exists": ['"zz"'], "variable-exists": ['"zz"'], "function-exists": ['"zz"'], "mixin-exists": ['"zz"'],
    "get-function": ['"red"'], "call": ['get-function("red"), #123456'], "divide": ["6, 3"],
}
ALIAS_ARGS.update({"random": ["1"], "join": ["(a b), (c d)", "(a, b), (c d), space, true"], "nth": ["(a b c), 2", "(a b c), -1"],
                   "mix": ["red, blue, 30%", "#123, #456"], "min": ["1, 2", "3px, 1px, 2px"], "str-slice": ['"abcd", 2, 3', '"abcd", -2'],
                   "map-get": ["(a: 1), a", "(a: (b: 2)), a, b"], "append": ["(a b), c", "(a b), c, comma"],
                   "invert": ["#123456", "#123456, 50%"], "round": ["2.5", "-2.5"], "percentage": ["0.5", "1.25"]})
ALIAS_SKIP = set()
# calls that need a context of their own: {m}.{f} / {g} is substituted for CALL
ALIAS_TEMPLATES = {
    "unique-id": ["a {{ r: qq.type-of(CALL()); }}"],                                    # not a function of its arguments: compare the type
    "content-exists": ["@mixin t {{ r: CALL(); @content; }} a {{ @include t; }} b {{ @include t {{ x: y; }} }}"],
    "keywords": ["@function k($a...) {{ @return qq.inspect(CALL($a)); }} a {{ r: k($x: 1, $y: b); }}"],
}
MODULE_ONLY_ARGS = {
    ("list", "slash"): "1, 2", ("map", "deep-merge"): "(a: (b: 1)), (a: (c: 2))", ("map", "deep-remove"): "(a: (b: 1)), a, b",
    ("math", "acos"): "0.5", ("math", "asin"): "0.5", ("math", "atan"): "1", ("math", "atan2"): "1, 2", ("math", "clamp"): "1, 2, 3",
    ("math", "cos"): "0", ("math", "hypot"): "3, 4", ("math", "log"): "8, 2", ("math", "pow"): "2, 3", ("math", "sin"): "0",
    ("math", "sqrt"): "4", ("math", "tan"): "0", ("meta", "calc-args"): "calc(1px + 10%)", ("meta", "calc-name"): "calc(1px + 10%)",
    ("meta", "module-functions"): '"qq"', ("meta", "module-variables"): '"qq"',
    ("color", "blackness"): "#123456", ("color", "whiteness"): "#123456", ("color", "hwb"): "120, 30%, 50%",
    ("map", "set"): "(a: 1), b, 2", ("math", "div"): "6, 3", ("meta", "global-variable-exists"): '"zz"', ("string", "split"): '"a b", " "',
}
NONDET_NOARGS = {"random", "unique-id"}


def check_aliases(ck, pool):
    """built-in modules offer the same functions as their global aliases: sampled calls, both spellings"""
    line = driver(["module aliases"])[0]
    if not line.startswith("ok "):
        ck.unproved("correspondence-broken", {"why": "driver `module aliases`", "answer": line})
        return []
    pairs = []
    for t in line[3:].split():
        mf, g = t.split("=")
        m, f = mf.split(".", 1)
        pairs.append((m, f, g))
    jobs, meta = [], []
    for m, f, g in pairs:
        if g in ALIAS_SKIP:
            continue
        for tmpl in ALIAS_TEMPLATES.get(g, []):
            a = f'@use "sass:{m}" as q; @use "sass:meta" as qq; ' + tmpl.replace("CALL", f"q.{f}").format()
            b = '@use "sass:meta" as qq; ' + tmpl.replace("CALL", g).format()
            jobs += [compile_job(a, syntax="scss"), compile_job(b, syntax="scss")]
            meta.append((m, f, g, "(template)"))
        for args in ALIAS_ARGS.get(g, []) + ([] if g in NONDET_NOARGS else [""]) + ["1, 2, 3, 4, 5, 6"]:
            a = f'@use "sass:{m}" as q; @use "sass:meta" as qq; a {{ r: qq.inspect(q.{f}({args})); }}'
            b = f'@use "sass:meta" as qq; a {{ r: qq.inspect({g}({args})); }}'
            jobs += [compile_job(a, syntax="scss"), compile_job(b, syntax="scss")]
            meta.append((m, f, g, args))
    only = sorted(MODULE_ONLY_ARGS.items())
    for (m, f), args in only:
        jobs.append(compile_job(f'@use "sass:{m}" as q; @use "sass:meta" as qq; a {{ r: qq.inspect(q.{f}({args})); }}', syntax="scss"))
    answers = pool.map(jobs, timeout=10)
    failing = []
    ok_pairs = set()
    for i, (m, f, g, args) in enumerate(meta):
        x, y = answers[2 * i], answers[2 * i + 1]
        ox = (x.get("status"), x.get("css") if x.get("status") == "ok" else (x.get("err") or {}).get("message"))
        oy = (y.get("status"), y.get("css") if y.get("status") == "ok" else (y.get("err") or {}).get("message"))
        ck.count(("alias", m, f, g, args), args != "")
        ck.hist("alias-call:" + ("ok" if ox[0] == "ok" else "err"))
        if ox[0] == "ok" and oy[0] == "ok":
            ok_pairs.add((m, f, g))
        if ox != oy:
            failing.append({"project": {"files": {"p/main.scss": f'@use "sass:{m}" as q; a {{ r: q.{f}({args}) vs {g}({args}) }}'},
                                        "entry": "p/main.scss"},
                            "feat": ["alias"], "failures": [f"builtin alias differs: {m}.{f}({args}) -> {ox}; {g}({args}) -> {oy}"],
                            "impl_observation": [ox, oy], "tags": [], "size": 1, "proj": None})
    # every alias pair must have been exercised by at least one type-correct call (both spellings succeed)
    missing = [p_ for p_ in pairs if p_ not in ok_pairs and p_[2] not in ALIAS_SKIP]
    ck.cov["alias_pairs_with_successful_call"] = len(ok_pairs)
    if missing:
        ck.notes.append(f"alias pairs without a type-correct sample call: {missing}")
        ck.unproved("correspondence-broken", {"why": "built-in alias pairs without a successful sampled call", "pairs": missing})
    # functions that exist only in a module (no global alias): they must at least be there
    known_only = set(MODULE_ONLY_ARGS)
    for ((m, f), args), ans in zip(only, answers[2 * len(meta):]):
        ck.count(("module-only", m, f), True)
        ck.hist("module-only-call:" + ("ok" if ans.get("status") == "ok" else "err"))
        if ans.get("status") != "ok":
            failing.append({"project": {"files": {"p/main.scss": f'@use "sass:{m}" as q; a {{ r: q.{f}({args}) }}'}, "entry": "p/main.scss"},
                            "feat": ["alias"], "failures": [f"module-only function {m}.{f}({args}) fails: {(ans.get('err') or {}).get('message')}"],
                            "impl_observation": ans.get("status"), "tags": [], "size": 1, "proj": None})
    table = driver(["module only"])[0]
    if table.startswith("ok"):
        tbl = {tuple(t.split(".", 1)) for t in table[3:].split()}
        if tbl - known_only:
            ck.notes.append(f"module-only functions without a sample: {sorted(tbl - known_only)}")
            ck.unproved("correspondence-broken", {"why": "module-only built-in functions without a sampled call", "functions": sorted(tbl - known_only)})
    ck.cov["alias_pairs"] = len(pairs)
    # a built-in module under two namespaces is the same module; the same namespace twice and `with` are errors
    # (load_module, visitor.rs:670-689; Modules::insert)
    bjobs, bmeta = [], []
    for m in sorted({p_[0] for p_ in pairs}):
        f = next(p_[1] for p_ in pairs if p_[0] == m and p_[2] in ALIAS_ARGS)
        args = ALIAS_ARGS[next(p_[2] for p_ in pairs if p_[0] == m and p_[1] == f)][0]
        for kind, src in (("twice-same-namespace", f'@use "sass:{m}"; @use "sass:{m}";'),
                          ("with", f'@use "sass:{m}" with ($x: 1);'),
                          ("forward-with", f'@forward "sass:{m}" with ($x: 1);'),
                          ("two-namespaces", f'@use "sass:meta" as qq; @use "sass:{m}" as m1; @use "sass:{m}"; '
                                             f'a {{ r: qq.inspect(m1.{f}({args})); s: qq.inspect({m}.{f}({args})); }}')):
            bjobs.append(compile_job(src, syntax="scss"))
            bmeta.append((m, kind, src))
    for (m, kind, src), ans in zip(bmeta, pool.map(bjobs, timeout=10)):
        ck.count(("builtin-load", m, kind), True)
        cls = err_class(ans) if ans.get("status") != "ok" else "ok"
        ck.hist(f"builtin-load:{kind}:{cls}")
        bad = None
        if kind == "twice-same-namespace" and cls != "nsExists":
            bad = f"loading sass:{m} twice under one namespace -> {cls}"
        elif kind in ("with", "forward-with") and cls != "builtinConfigured":
            bad = f"`with` on the built-in module sass:{m} -> {cls}"
        elif kind == "two-namespaces":
            rules = cssread.flat_rules(cssread.parse(ans["css"])) if cls == "ok" else []
            d = dict(rules[0][2]) if rules else {}
            if cls != "ok" or d.get("r") is None or d.get("r") != d.get("s"):
                bad = f"sass:{m} under two namespaces: {cls} {d}"
        if bad:
            failing.append({"project": {"files": {"p/main.scss": src}, "entry": "p/main.scss"}, "feat": ["builtin-load"],
                            "failures": [bad], "impl_observation": cls, "tags": [], "size": 1, "proj": None})
    return failing


def check_disk(ck, pool):
    """A few fixed layouts on the real disk (Fs::canonicalize is the identity on the in-memory Fs): `..` spellings
    and a symlink name the same canonical file, which must still be evaluated once; a symlink cycle is a loop."""
    import os
    import shutil
    from vlib import BUILD
    root = os.path.join(BUILD, "c12-disk")
    shutil.rmtree(root, ignore_errors=True)
    os.makedirs(os.path.join(root, "p", "sub"))
    w = lambda rel, text: open(os.path.join(root, rel), "w").write(text)
    w("p/a.scss", "$x: v1;\n@debug dbg__a;\nm-a { k: v; }\n")
    w("p/sub/b.scss", '@use "../a";\n@debug dbg__b;\nm-b { k: a.$x; }\n')
    os.symlink("a.scss", os.path.join(root, "p", "link.scss"))
    w("p/main.scss", '@use "a";\n@use "sub/b";\n@use "./sub/../a" as a3;\n@use "link" as a4;\n@use "sub/../sub/b" as b2;\n'
      "@debug dbg__main;\nm-main { k: a3.$x; l: a4.$x; }\n")
    w("p/c.scss", '@use "linkc";\nm-c { k: v; }\n')
    os.symlink("c.scss", os.path.join(root, "p", "linkc.scss"))
    w("p/main2.scss", '@use "c";\n')
    jobs = [{"mode": "compile", "entry": os.path.join(root, "p", e), "fs": "std", "options": {}} for e in ("main.scss", "main2.scss")]
    a1, a2 = pool.map(jobs, timeout=20)
    failing = []
    ob = observe_impl(a1)
    once = driver([once_line(ob)])[0]
    ck.count(("disk", 1), True)
    ck.count(("disk", 2), True)
    ck.hist("disk-layouts", 2)
    if ob["status"] != "ok" or once != "ok 1" or sorted(ob["dbg"]) != ["a", "b", "main"]:
        failing.append({"project": {"files": {"(real disk)": "a.scss, sub/b.scss (@use ../a), link.scss -> a.scss, main uses a, sub/b, "
                                              "./sub/../a, link, sub/../sub/b"}, "entry": "p/main.scss"},
                        "feat": ["disk"], "failures": [f"loads-once on the real disk: {ob} once={once}"], "impl_observation": ob,
                        "tags": [], "size": 5, "proj": None})
    if err_class(a2) != "moduleLoop":
        failing.append({"project": {"files": {"(real disk)": "c.scss: @use linkc; linkc.scss -> c.scss"}, "entry": "p/main2.scss"},
                        "feat": ["disk"], "failures": [f"symlink cycle not reported: {a2.get('status')} {err_class(a2)}"],
                        "impl_observation": a2.get("status"), "tags": [], "size": 2, "proj": None})
    shutil.rmtree(root, ignore_errors=True)
    return failing


def check_loadcss_import(ck, pool):
    """`meta.load-css` and `@import` of a module that has @forward rules are outside the Lean model; fixed scenarios state
    what the property says about them and are judged on grass's own output.
    What holds for the code: modules reached by @use/@forward from a load-css'ed or imported sheet are still evaluated
    once; @import makes forwarded members (with prefix, show/hide) visible to the importer, shares the upstream variable
    and configures `!default` variables implicitly.  What does not (known finding C12-loadCssIsImport): load-css is
    implemented as an import into the caller (meta.rs:70 `visit_stylesheet`; the `load_module` call is commented out):
    the sheet is re-evaluated on every call, its members and the namespaces of its @use rules leak into the caller (so a
    second load-css of a sheet with @use fails), and `$with` is ignored."""
    B = "$x: b-x !default;\n@debug dbg__b;\nm-b { x: $x; }\n"
    A = '@use "b";\n$y: a-y !default;\n@function fa() { @return a-f; }\n@debug dbg__a;\nm-a { y: $y; bx: b.$x; }\n'
    MID = '@forward "a";\n@forward "b" as q-* show $q-x;\nm-mid { k: v; }\n'
    meta = '@use "sass:meta";\n'
    cases = [
        # (name, files, expectation, tag)   expectation: function(ob, ans) -> failure text or None
        ("load-css: used modules evaluated once", {"p/main.scss": meta + '@use "b" as mb;\n@include meta.load-css("a");\nm-main { k: mb.$x; }\n', "p/a.scss": A, "p/b.scss": B},
         lambda ob, a: None if ob["status"] == "ok" and ob["dbg"].count("b") == 1 and ob["css"].count("C:b") == 1 else f"module b: {ob}", None),
        ("load-css: css included", {"p/main.scss": meta + '@include meta.load-css("b");\nm-main { k: v; }\n', "p/b.scss": B},
         lambda ob, a: None if ob["status"] == "ok" and ob["css"] == ["C:b", "C:main"] else f"{ob}", None),
        ("load-css twice: sheet evaluated once, css twice", {"p/main.scss": meta + '@include meta.load-css("b");\n@include meta.load-css("b");\n', "p/b.scss": B},
         lambda ob, a: None if ob["status"] == "ok" and ob["dbg"].count("b") == 1 and ob["css"].count("C:b") == 2 else f"evaluated {ob['dbg'].count('b')}x: {ob}", "loadCssIsImport"),
        ("load-css twice of a sheet with @use", {"p/main.scss": meta + '@include meta.load-css("a");\n@include meta.load-css("a");\n', "p/a.scss": A, "p/b.scss": B},
         lambda ob, a: None if ob["status"] == "ok" else f"{ob['err']}", "loadCssIsImport"),
        ("load-css exposes no members", {"p/main.scss": meta + '@include meta.load-css("b");\nm-main { k: $x; }\n', "p/b.scss": B},
         lambda ob, a: None if ob["err"] == "undefVar" else f"$x of the loaded sheet is visible to the caller: {ob}", "loadCssIsImport"),
        ("load-css exposes no namespaces", {"p/main.scss": meta + '@include meta.load-css("a");\nm-main { k: b.$x; }\n', "p/a.scss": A, "p/b.scss": B},
         lambda ob, a: None if ob["err"] == "noSuchNs" else f"namespace b of the loaded sheet is visible to the caller: {ob}", "loadCssIsImport"),
        ("@import: forwarded members visible, prefix and show respected",
         {"p/main.scss": '@import "mid";\np1 { r: $y; }\np2 { r: $q-x; }\np3 { r: fa(); }\n', "p/mid.scss": MID, "p/a.scss": A, "p/b.scss": B},
         lambda ob, a: None if ob["status"] == "ok" and (a.get("css") or "").count("r: a-y") == 1 and "r: b-x" in a["css"] and "r: a-f" in a["css"]
         and ob["dbg"] == ["b", "a"] else f"{ob} {a.get('css')}", None),
        ("@import: not forwarded = not visible", {"p/main.scss": '@import "mid";\np1 { r: $x; }\n', "p/mid.scss": MID, "p/a.scss": A, "p/b.scss": B},
         lambda ob, a: None if ob["err"] == "undefVar" else f"{ob}", None),
        ("@import + @use: upstream evaluated once, variable shared",
         {"p/main.scss": '@use "a";\n@import "mid";\n$y: new;\np1 { r: a.$y; }\np2 { r: $y; }\n', "p/mid.scss": MID, "p/a.scss": A, "p/b.scss": B},
         lambda ob, a: None if ob["status"] == "ok" and ob["dbg"] == ["b", "a"] and (a.get("css") or "").count("r: new") == 2 else f"{ob} {a.get('css')}", None),
        ("@import: implicit configuration of !default variables",
         {"p/main.scss": '$y: main-y;\n@import "mid";\n', "p/mid.scss": MID, "p/a.scss": A, "p/b.scss": B},
         lambda ob, a: None if ob["status"] == "ok" and "y: main-y" in (a.get("css") or "") else f"{ob} {a.get('css')}", None),
    ]
    answers = pool.map([compile_job(files=f, entry="p/main.scss") for _, f, _, _ in cases], timeout=20)
    failing = []
    for (name, files, expect, tag), ans in zip(cases, answers):
        ob = observe_impl(ans)
        if ob["css"] is None:
            ob["css"] = []
        ck.count(("loadcss-import", name), True)
        bad = expect(ob, ans)
        ck.hist("scenario:" + ("holds" if bad is None else "fails") + (":" + tag if tag else ""))
        if bad is not None:
            failing.append({"project": {"files": files, "entry": "p/main.scss"}, "feat": ["load-css/import scenario"],
                            "failures": [f"{name}: {bad}"], "impl_observation": str(ob), "tags": [tag] if tag else [], "size": 3, "proj": None})
        elif tag:
            ck.notes.append(f"scenario `{name}` (known finding {tag}) now behaves as the property says")
    return failing


def shrink(ck, pool, f, same_tags=False):
    """greedy statement / module removal while the case keeps failing without a known tag
    (`same_tags`: while it keeps failing with the same tags — used to minimise witnesses by hand)"""
    proj = f["proj"]
    if proj is None:
        return f
    best = f
    for _ in range(40):
        cands = []
        p = best["proj"]
        for i, m in enumerate(p["mods"]):
            for j in range(len(m["body"])):
                q = untuple(json.loads(json.dumps(p)))
                del q["mods"][i]["body"][j]
                cands.append(q)
            if m["name"] != p["entry"]:
                q = untuple(json.loads(json.dumps(p)))
                del q["mods"][i]
                cands.append(q)
        # keep what the generator promises: a getter returns a variable its module declares
        cands = [q for q in cands if all(st[0] != "F" or st[2] is None or any(v[0] == "V" and v[1] == st[2] for v in m["body"])
                                         for m in q["mods"] for st in m["body"])]
        if not cands:
            break
        sub = Check("C12", "quick", 0)
        sub.disagreements = []
        fl = [x for x in judge(sub, evaluate(sub, pool, cands[:400], "quick"), count=False)
              if (x["tags"] == f["tags"] if same_tags else not x["tags"])]
        if not fl:
            break
        fl.sort(key=lambda x: x["size"])
        if fl[0]["size"] >= best["size"]:
            break
        best = fl[0]
    return best


def run(tier, seed):
    ck = Check("C12", tier, seed)
    ck.disagreements = []
    ck.cov["rule"] = ("random projects of 2-6 modules in one directory (a..e + entry `main`), each loading 1-4 earlier modules by "
                      "@use (default / named / `as *` namespace, optional with(...)) or @forward (optional prefix, show/hide, "
                      "with(...)), random spellings of the URL (`a`, `a.scss`, `./a`, `_a`, partial files), own public/private "
                      "variables (!default or not), functions (constant or getter of an own variable), mixins, a @debug and a CSS "
                      "marker, assignments through namespaces, guarded probes of candidate member names through every namespace, "
                      "module-variables/-functions key sets, plus injected cycles / missing files / private references / unknown or "
                      "non-default or late configuration, and variants with one unguarded (possibly failing) reference; 35% of the projects put "
                      "their modules in sub-directories (relative URLs with `..`, detours `x/../`, load paths; in memory, where "
                      "Fs::canonicalize is the identity and a `..` path is a file only as a literal key = another module, or on "
                      "the real disk, where it is the same module); three-level configuration chains; repeated assignments "
                      "through forwarders read back through every alias; fixed load-css / @import-forwards scenarios; every "
                      "built-in alias pair called with type-correct arguments; 14% of the projects (`xproj`, driver op runx = Grass.Module.runX) have "
                      "sheets that are @import-ed (plain sheets, chains, cycles, twice, from main and from a module that main configures "
                      "with `with`) and meta.load-css-ed (with and without $with, twice, sheets that @use a module, assign through "
                      "it and probe it), every included statement observed by an unguarded probe; each built-in module loaded twice "
                      "under one / two namespaces and with `with`. A project "
                      "is distinct by its encoded AST and non-trivial when it has >= 2 modules and at least one @use/@forward.")
    ck.assumptions = ["paths: `.scss` files only, no index files; real-disk projects have no symlinks except the two fixed layouts; "
                      "module file names contain no `_` except the partial marker", "member bodies are constants / getters; values are opaque tokens",
                      "grass output observed through tools/cssread.py, @debug messages through the Logger"]
    import translate_module_aliases
    tok, tmsg = translate_module_aliases.main()
    ck.cov["translator_ok"] = tok
    ck.notes.append("translate_module_aliases: " + tmsg)
    ck.do_prove(cores=("module",))
    if not tok:
        ck.unproved("correspondence-broken", {"why": "tools/translate_module_aliases.py could not read the built-in tables", "message": tmsg})
    if not ck.do_build_runner():
        ck.unproved("correspondence-broken", {"why": "runner does not build against /repo", "error": getattr(ck, "build_error", "")})
        return ck.finish()
    pool = RunnerPool()
    gen = Gen(ck.rng)
    failing = []
    # corpus first (witnesses of known findings are replayed on every run)
    cs = corpus()
    res = evaluate(ck, pool, cs, tier)
    failing += judge(ck, res)
    ck.hist("corpus-regression-cases (witnesses of the fixed findings F1-F4, D7)", sum(1 for c in cs if c.get("expect_tags")))
    n = 1500 if tier == "quick" else 60000
    B = 500
    done = 0
    while done < n:
        projs = [gen.special() or gen.project() for _ in range(min(B, n - done))]
        done += len(projs)
        res = evaluate(ck, pool, projs, tier)
        failing += judge(ck, res)
        vs = []
        for r in res:
            if r is not None and ck.rng.random() < (0.35 if tier == "quick" else 0.15):
                vs += gen.variants(r["proj"], r["now"]["status"] == "ok")
        if vs:
            failing += judge(ck, evaluate(ck, pool, vs, tier))
    failing += check_aliases(ck, pool)
    failing += check_disk(ck, pool)
    failing += check_loadcss_import(ck, pool)
    unknown = [f for f in failing if not f["tags"]]
    if (not ck.proof["ok"] or ck.cov["model_disagreements"]) and not unknown and tier == "quick":
        log("[C12] proof or correspondence broken: enlarging the search")
        for _ in range(12):
            projs = [gen.special() or gen.project() for _ in range(B)]
            extra = judge(ck, evaluate(ck, pool, projs, tier), count=False)
            failing += extra
            if [f for f in extra if not f["tags"]]:
                break
        unknown = [f for f in failing if not f["tags"]]
    unknown.sort(key=lambda f: f["size"])
    shrunk = [shrink(ck, pool, f) for f in unknown[:3]]
    failing = shrunk + [f for f in failing if f["tags"]] + unknown[3:]
    failing.sort(key=lambda f: (bool(f["tags"]), f["size"]))
    reported = 0
    for f in failing:
        payload = {k: v for k, v in f.items() if k != "proj"}
        if f["proj"] is not None:
            payload["driver_line"] = enc_proj(f["proj"], "now")
            payload["project_ast"] = f["proj"]
        if ck.impl_violation(json.dumps(f["project"], sort_keys=True), payload, tags=f["tags"]):
            reported += 1
    if ck.cov["model_disagreements"] and not reported:
        ck.unproved("correspondence-broken", {"correspondence": "module run now (Grass.Module.run Switches.now) vs grass",
                                              "cases": ck.disagreements})
    return ck.finish()


def replay(path):
    r = json.load(open(path))
    ck = Check("C12", "quick", 0)
    ck.disagreements = []
    ck.do_build_runner()
    pool = RunnerPool(1)
    pr = r.get("project") or (r.get("cases") or [{}])[0].get("project")
    if not pr:
        print(json.dumps(r, indent=1)[:4000])
        return 0
    ans = pool.map([compile_job(files=pr["files"], entry=pr["entry"])])[0]
    for k, v in pr["files"].items():
        print("---", k)
        print(v)
    ob = observe_impl(ans)
    print("grass      :", ob)
    line = r.get("driver_line") or (r.get("cases") or [{}])[0].get("driver_line")
    if line:
        now = driver([line])[0]
        spec = driver([line.replace("module run now", "module run spec", 1)])[0]
        print("model now  :", now)
        print("model spec :", spec)
    print("recorded   :", r.get("failures"), r.get("impl_observation"))
    return 0
