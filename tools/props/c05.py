"""C05 — Output is well-formed, Sass-free CSS and a fixed point of the compiler.

(a) PROOF   GrassProofs.C05 (theorems about the serializer model Grass/Serialize.lean)
(b) TIE     generated model CssStmt trees, printed as SCSS that compiles to exactly that tree;
            grass's text == `serialize` of the model, BYTE FOR BYTE, x {expanded, compressed} x {charset on, off}
(c) DIRECT  on grass's own output (generated trees, generated SassScript programs, golden corpus):
            valid UTF-8; P̂ wellFormed / sassFree / charsetOk evaluated by the Lean driver; the independent
            python CSS reader accepts it; FIXED POINT: recompiling the output as plain CSS and as SCSS,
            in both styles, succeeds and gives the same canonical rule list.
(d) BYTES   the modelled UTF-8 encoder / validator (C05_output_valid_utf8, C05_charset_iff_bytes): grass's output
            bytes == `serializeB` (= encodeUtf8 of the model text, finished by the byte-level `finish`) on every tie
            case; `validUtf8` / `charsetOkB` evaluated by the Lean driver on the raw bytes of every output of the
            direct oracle; byte-level `write_media_query` (`queryOutB`, the `(not ` slice) against grass.
"""
import json

import cssread
from props import c05_common as cc
from vlib import Check, RunnerPool, compile_job, driver, hexs, log, unhex

STYLES = (None, "compressed")

# Corpus programs whose *input* deliberately injects text that is not a CSS value / CSS at-rule through
# interpolation or an unknown at-rule (the property quantifies over stylesheets "made of
# CSS-representable values"): reason recorded per name, counted in evidence.
NOT_CSS_REPRESENTABLE = {
    "to_crazy_interpolation": "value is the unquoted text `\\}}}{{{#` built by interpolation",
    "from_crazy_interpolation": "value is the unquoted text `\\}}}{{{#` built by interpolation",
    "crazy_interpolation": "value is the unquoted text `\\}}}{{{#` built by interpolation",
    "double_quotes_inside_double_quoted_string": "value is a lone `\"` built by interpolation",
    "issue_41": "value is the unbalanced text `url(\"a:b:` built with str-slice",
    "treats_interpolated_if_as_unknown_at_rule": "`@#{if}` makes an unknown at-rule literally named `if`",
    "keyframes_variable_in_name": "`@keyframes $foo` : the name is plain text containing `$` in the source",
    "no_body_remains_inside_style_rule": "unknown at-rule whose params are the source text `$btn-…` (not SassScript)",
    "params_contain_silent_comment_and_semicolon": "unknown at-rule whose params are the source text `$btn-…`",
}

# Corpus programs left out of the FIXED-POINT comparison only (well-formedness, Sass-freeness and the charset
# rule are still checked on them): the first run prints text that is not a CSS value, or that a second
# Sass run legitimately evaluates further.  Keyed by file:name.
FIXED_POINT_EXCLUDED = {
    "addition.rs:unquoted_plus_hex_color": "`foo + #fff` glues an identifier and a colour into the non-value `foo#fff`",
    "addition.rs:calculation_plus_unquoted_string": "`calc(1px + 1%) + foo` glues a calculation and an identifier",
    "color.rs:opacity_nan": "the value contains `NaN` (0/0), which is re-read as an identifier",
    "color.rs:plain_invert_nan": "the value contains `NaN` (0/0), which is re-read as an identifier",
    "inspect.rs:inspect_null": "prints the text `null`, which re-read as SCSS is the null value",
    "meta.rs:type_of_null": "prints the text `null`, which re-read as SCSS is the null value",
    "selectors.rs:parent_selector_is_null_at_root": "prints the text `null`, which re-read as SCSS is the null value",
    "selector-unify.rs:simple_pseudo_no_arg_element_different": "prints the text `null` (inspect)",
    "selector-unify.rs:simple_pseudo_arg_element_different_arg": "prints the text `null` (inspect)",
    "arglist.rs:empty_arglist_is_allowed_in_map_functions": "prints the text `null` (inspect)",
    "inspect.rs:inspect_comma_separated_one_val_bracketed": "prints inspect() text `[1,]`",
    "special-functions.rs:calc_evaluates_interpolated_arithmetic": "interpolation keeps `calc(3)` unevaluated in the first run; the second run simplifies it to the equal value 3",
    "special-functions.rs:calc_operation_rhs_is_interpolation": "`calc(100% + (4px))`: the second run drops the redundant parentheses",
    "min-max.rs:max_not_evaluated_interpolation": "interpolation keeps `max(1%, 2%)` unevaluated; the second run evaluates it to the equal value 2%",
    "min-max.rs:min_not_evaluated_interpolation": "interpolation keeps `min(1%, 2%)` unevaluated; the second run evaluates it to the equal value 1%",
}

# minimised past failures / regression seeds (source nodes of c05_common); run first on every run
CORPUS = [
    # compressed: a dropped comment after the last declaration keeps that declaration's `;`
    [("rule", True, [(False, [("cp", [("s", "a")])])], [("decl", "b", False, ("a", ("qs", "é\nx"))), ("comment", 2, "/* q */")])],
    # both kinds of quote -> forced double quotes; control character followed by a hex digit
    [("rule", True, [(False, [("cp", [("s", "a")])])], [("decl", "b", False, ("a", ("qs", "'\"\x01f\\"))),
                                                        ("decl", "c", False, ("l", "c", [("r", ""), ("qs", ""), ("r", "a\n  b")]))])],
    # placeholder-only rule between two rules; at-rule that becomes the group end by bubbling
    [("rule", True, [(False, [("cp", [("s", "a")])])], [("decl", "b", False, ("a", ("r", "c")))]),
     ("rule", True, [(False, [("cp", [("ph", "p")])])], [("decl", "b", False, ("a", ("r", "c")))]),
     ("bubble", [(False, [("cp", [("s", "d")])])], [("decl", "b", False, ("a", ("r", "é")))],
      ("media", False, [(None, "screen", ["(not (color))"], True)], [("decl", "k", False, ("a", ("r", "c")))])),
     ("import", '"a.css"', None), ("at", False, "foo", "a", False, [])],
    # finding C05-F1: `#{` inside a quoted string is printed raw and re-read as interpolation
    [("rule", True, [(False, [("cp", [("s", "a")])])], [("decl", "b", False, ("a", ("qs", "#{c}")))])],
]


def _cfgs():
    return [(st, cs) for st in STYLES for cs in (True, False)]


# spellings that replace the generator's `é` (byte level: 2-, 3- and 4-byte characters, combining marks) in
# every position where the shared generator puts one: type selectors, custom-property names and values,
# quoted / unquoted atoms, media features, @supports, at-rule parameters, import urls, comments, keyframe names
UNI = ["é", "é", "e\u0301", "\U0001F600", "\U0001D4B3\u0308", "\u4e2d", "\u00df\u200d"]


def unicodify(x, rng):
    if isinstance(x, str):
        return "".join(rng.choice(UNI) if ch == "é" else ch for ch in x) if "é" in x else x
    if isinstance(x, tuple):
        return tuple(unicodify(y, rng) for y in x)
    if isinstance(x, list):
        return [unicodify(y, rng) for y in x]
    return x


def byte_features(text):
    f = set()
    for ch in text:
        o = ord(ch)
        if o >= 0x10000:
            f.add("4-byte(astral)")
        elif o >= 0x800:
            f.add("3-byte")
        elif o >= 0x80:
            f.add("2-byte")
        if 0x300 <= o <= 0x36F or o == 0x200D:
            f.add("combining/joiner")
    return f


def gen_tie_cases(ck, n):
    cases = [cc.tuplify(c) for c in CORPUS]
    rng = ck.rng
    for i in range(n):
        # the first 40% are "clean": unquoted atoms are CSS tokens only, so that the same sources can be
        # used by the direct oracle (quoted strings stay arbitrary)
        cases.append(unicodify(cc.gen_nodes(rng, ascii_only=rng.random() < 0.25, clean=i < 0.4 * n), rng))
    out = []
    n_clean = len(CORPUS) + int(0.4 * n)
    for i, nodes in enumerate(cases):
        nodes = [cc.with_col(s, 0) for s in nodes]
        out.append({"kind": "tree", "nodes": nodes, "src": cc.to_source(nodes, ck.rng), "tree": cc.expected_tree(nodes),
                    "clean": len(CORPUS) <= i < n_clean})
    return out


def tie(ck, pool, cases):
    """(b): grass text == model text on every generated tree, 4 configurations each."""
    jobs, reqs = [], []
    for c in cases:
        for st, cs in _cfgs():
            jobs.append(compile_job(c["src"], style=st, syntax="scss", charset=cs))
            reqs.append(cc.print_request(st, cs, c["tree"]))
    ans = cc.run_jobs(pool, jobs)
    outs = driver(reqs + [r.replace("ser print ", "ser printb ", 1) for r in reqs])
    outs, bouts = outs[:len(reqs)], outs[len(reqs):]
    k = 0
    for c in cases:
        c["out"] = {}
        feats = cc.tree_features(c["tree"])
        bfeats = byte_features(json.dumps(c["tree"], ensure_ascii=False))
        nontrivial = len(feats - {"top:rule", "in:decl", "non-ascii"}) > 0
        for f in feats:
            ck.hist("tree:" + f)
        for st, cs in _cfgs():
            a, o, bo = ans[k], outs[k], bouts[k]
            k += 1
            key = ("tie", hexs(json.dumps(c["tree"], ensure_ascii=False)), st, cs)
            bytes_tie(ck, c, st, cs, a, bo, bfeats)
            if not o.startswith("ok "):
                ck.cov["unsupported_dropped"] += 1
                continue
            parts = o.split(" ")
            model = unhex(parts[1])
            ck.count(key, nontrivial)
            impl = a.get("css") if a.get("status") == "ok" else None
            c["out"][(st, cs)] = a
            if impl != model:
                ck.cov["model_disagreements"] += 1
                if len(ck.disagreements) < 3:
                    ck.disagreements.append({"source": c["src"], "style": st or "expanded", "charset": cs,
                                             "model_text": model, "impl_status": a.get("status"),
                                             "impl_text": impl, "impl_err": (a.get("err") or {}).get("message")})
            wf, chs, guard, sfree = parts[2:6]
            ck.hist("tie:guard-treeOk=" + guard)
            if len(parts) > 10 and impl is not None:
                # C05_sass_free on grass's own text: a Sass character that no leaf of the tree contains must not appear
                for ch, fl in zip("&$%#", parts[10]):
                    if fl == "1":
                        ck.hist("sass-free-alphabet:guard-holds:" + ch)
                        if ch in impl:
                            ck.cov["model_disagreements"] += 1
                            if len(ck.disagreements) < 3:
                                ck.disagreements.append({"source": c["src"], "what": f"`{ch}` is in no leaf of the tree but in grass's output",
                                                         "impl_text": impl})
            if st is None and cs and len(parts) > 9:
                c["readable_expanded"] = parts[6] == "1" and parts[8] == "0"
                ck.hist(f"tie:treeReadable={parts[6]} treeG={parts[7]} embedOk={parts[9]}")
            # P̂ on the model's own output: charsetOk always; wellFormed whenever the guard of
            # C05_blocks_balanced holds; sassFree on the clean (CSS-token) trees
            if chs != "1" or (guard == "1" and wf != "1") or (c.get("clean") and sfree != "1"):
                ck.notes.append({"model_output_fails_P": parts[2:], "source": c["src"]})
                ck.cov["model_disagreements"] += 1
        if len(ck.cov["samples"]) < 3 and nontrivial:
            a = c["out"].get((None, True)) or {}
            ck.sample({"kind": "tie", "source": c["src"], "grass_expanded": a.get("css")})
    reader_fixed_point(ck, pool, cases)


def bytes_tie(ck, c, st, cs, a, bo, bfeats):
    """(d): grass's output BYTES == serializeB of the model (modelled encoder + byte-level finish); the Lean
    validator accepts them; the byte-level charset predicate holds and agrees with the bytes' own prefix."""
    if not bo.startswith("ok ") or a.get("status") != "ok":
        return
    parts = bo.split(" ")
    model = b"" if parts[1] == "-" else bytes.fromhex(parts[1])
    try:
        impl = a["css"].encode("utf-8")
    except UnicodeError:
        impl = None
    ck.count(("bytes-tie", hexs(json.dumps(c["tree"], ensure_ascii=False)), st, cs), bool(bfeats))
    hdr = "bom" if model.startswith(b"\xef\xbb\xbf") else "charset" if model.startswith(b'@charset "UTF-8";\n') else "none"
    ck.hist("bytes:header=" + hdr)
    for f in bfeats:
        ck.hist("bytes:tree-has:" + f)
    bad = None
    if impl != model:
        bad = "grass's output bytes differ from serializeB (modelled UTF-8 encoder + byte-level finish)"
    elif parts[2:4] != ["1", "1"]:
        bad = "model bytes fail validUtf8 or differ from encodeUtf8 of the model text (contradicts C05_output_valid_utf8)"
    elif parts[4] != ("0" if hdr == "none" else "1") or parts[5] != "1":
        bad = "byte-level charset predicate (hasCharsetOrBomB / charsetOkB) fails on the output bytes"
    if bad:
        ck.cov["model_disagreements"] += 1
        if len(ck.disagreements) < 3:
            ck.disagreements.append({"source": c["src"], "style": st or "expanded", "charset": cs, "what": bad,
                                     "model_bytes": parts[1][:600], "impl_bytes": impl.hex()[:600] if impl is not None else None,
                                     "flags": parts[2:]})
    else:
        ck.hist("bytes:tie-equal")


def media_query_bytes(ck, pool, n):
    """(d): byte-level `write_media_query` (queryOutB: prefix test and the `(not ` slice with BYTE indices) against
    grass: `@media Q {a{b:c}}` rules, the bytes between `@media ` and ` {` must be queryOutB of the encoded query."""
    rng = ck.rng
    qs = [(None, None, ["(not (é: ✓))"], True), (None, "screen", ["(not (é))"], True), (None, None, ["(not (color))"], True),
          (None, None, ["(not (a: é))"], True)]
    while len(qs) < n:
        q = cc.gen_query(rng)
        if rng.random() < 0.3:
            q = (None, rng.choice([None, "screen"]), [rng.choice(["(not (é: ✓))", "(not (é))", "(not (b: é é))", "(not (color))"])], True)
        qs.append(q)
    qs = [unicodify(q, rng) for q in qs]
    B = 100
    jobs = [compile_job("\n".join("@media " + cc.src_query(q) + " {a{b:c}}" for q in qs[off:off + B]) + "\n", style=None,
                        syntax="scss", charset=False) for off in range(0, len(qs), B)]
    ans = cc.run_jobs(pool, jobs)
    lines = []
    for a in ans:
        lines += [l for l in (a.get("css") or "").split("\n") if l.startswith("@media ")] if a.get("status") == "ok" else []
    if len(lines) != len(qs):
        ck.cov["model_disagreements"] += 1
        ck.disagreements.append({"what": "media-query probe: cannot read the @media lines back", "expected": len(qs), "got": len(lines),
                                 "statuses": [a.get("status") for a in ans], "err": [(a.get("err") or {}).get("message") for a in ans][:3]})
        return
    outs = driver(["ser mqb " + " ".join(["q", cc._oh(m), cc._oh(t), cc._b(conj), str(len(cs))] + [hexs(c) for c in cs])
                   for (m, t, cs, conj) in qs])
    for q, line, o in zip(qs, lines, outs):
        parts = o.split(" ")
        slice_case = len(q[2]) == 1 and q[2][0].startswith("(not ")
        ck.count(("media-query-bytes", json.dumps(q, ensure_ascii=False)), slice_case)
        ck.hist("media-query-bytes:" + ("not-slice" if slice_case else "plain") +
                (":non-ascii" if any(ord(ch) > 127 for ch in cc.src_query(q)) else ":ascii"))
        want = line[len("@media "):-len(" {")].encode("utf-8")
        got = None if parts[0] != "ok" else (b"" if parts[1] == "-" else bytes.fromhex(parts[1]))
        if got != want or parts[2:4] != ["1", "1"]:
            ck.cov["model_disagreements"] += 1
            if len(ck.disagreements) < 3:
                ck.disagreements.append({"what": "byte-level write_media_query (queryOutB) differs from grass", "query": q,
                                         "grass": line, "model": o[:300]})


def reader_fixed_point(ck, pool, cases):
    """The Lean reader `readTree` (C05_read_roundtrip / C05_fixed_point_model) as judge of grass's fixed point:
    for trees with `treeReadable`, grass's expanded output is fed back to grass as plain CSS and both texts are
    read by the driver — the same tree must come back; the reader must also be blind to the charset header
    (output with charset on / off reads the same)."""
    todo = []
    for c in cases:
        if not c.get("readable_expanded") or not c.get("clean"):
            continue        # (junk unquoted atoms are not CSS: grass need not re-read them)
        a, b = c["out"].get((None, True)), c["out"].get((None, False))
        if not a or a.get("status") != "ok" or not b or b.get("status") != "ok":
            continue
        todo.append((c, a["css"], b["css"]))
    if not todo:
        return
    sec = cc.run_jobs(pool, [compile_job(css, style=None, syntax="css", charset=True) for _, css, _ in todo])
    reqs = []
    for (c, css, css0), a2 in zip(todo, sec):
        reqs += ["ser readtree " + hexs(css), "ser readtree " + hexs(css0), "ser readtree " + hexs(a2.get("css") or "")]
    outs = driver(reqs)
    for i, ((c, css, css0), a2) in enumerate(zip(todo, sec)):
        r1, r0, r2 = outs[3 * i:3 * i + 3]
        ck.count(("reader-fixed-point", c["src"]), True)
        bad = None
        if r1 != r0 or not r1.startswith("ok"):
            bad = {"what": "readTree depends on the charset header", "with_header": r1[:300], "without": r0[:300]}
        elif "hash-brace" in c.get("ftags", ()) or cc_has_hash_brace(css):
            ck.hist("reader-fixed-point:skipped(C05-F1 input)")
        elif "0a" in "".join(x for x in r1.split("C")[1:]):
            ck.hist("reader-fixed-point:skipped(multi-line loud comment is re-indented)")
        elif a2.get("status") != "ok" or r2 != r1:
            bad = {"what": "grass's expanded output, recompiled as CSS, reads as a different tree (Lean reader)",
                   "first": r1[:400], "second": r2[:400], "second_status": a2.get("status"), "output": css}
        else:
            ck.hist("reader-fixed-point:same-tree")
        if bad:
            ck.cov["model_disagreements"] += 1
            if len(ck.disagreements) < 3:
                bad["source"] = c["src"]
                ck.disagreements.append(bad)


def cc_has_hash_brace(css):
    return _hash_brace_in_string(css)


# ---------------------------------------------------------------------------------------------
# direct oracle
# ---------------------------------------------------------------------------------------------

def direct(ck, pool, progs, label, gate=False):
    """progs: [{"key", "src", "syntax", "name"}].  Evaluates P̂ on grass's own output and the fixed point.
    Returns failing cases [{"key", "src", "what", …}]."""
    jobs = []
    for p in progs:
        for st, cs in _cfgs():
            jobs.append(compile_job(p["src"], style=st, syntax=p.get("syntax"), charset=cs))
    ans = cc.run_jobs(pool, jobs)
    fails = []
    reqs, owner = [], []
    second, sowner = [], []
    for i, p in enumerate(progs):
        p["a"] = {}
        sts = set()
        for j, (st, cs) in enumerate(_cfgs()):
            a = ans[4 * i + j]
            p["a"][(st, cs)] = a
            sts.add(a.get("status"))
        ck.hist(f"{label}:status:" + "/".join(sorted(str(s) for s in sts)))
        if sts != {"ok"}:
            if "ok" in sts:
                fails.append({"key": p["key"], "src": p["src"], "what": "compiles in some configurations only",
                              "statuses": {f"{st or 'expanded'}/{cs}": p["a"][(st, cs)].get("status") for st, cs in _cfgs()}})
            p["skip"] = True
            continue
        for st, cs in _cfgs():
            css = p["a"][(st, cs)]["css"]
            reqs += ["ser wf " + hexs(css), "ser sassfree " + hexs(css), f"ser charset {1 if cs else 0} " + hexs(css),
                     f"ser utf8 {1 if cs else 0} " + _raw_hex(css)]
            owner.append((i, st, cs))
        for st in STYLES:
            css = p["a"][(st, True)]["css"]
            for syn in ("css", "scss"):
                for st2 in STYLES:
                    second.append(compile_job(css, style=st2, syntax=syn, charset=True))
                    sowner.append((i, st, syn, st2))
    outs = driver(reqs) if reqs else []
    for k, (i, st, cs) in enumerate(owner):
        p = progs[i]
        css = p["a"][(st, cs)]["css"]
        wf, sf, ch, u8 = outs[4 * k:4 * k + 4]
        cfg = f"{st or 'expanded'}/charset={cs}"
        ck.count((label, p["key"], st, cs), True)
        try:
            css.encode("utf-8")
        except UnicodeError:
            fails.append({"key": p["key"], "src": p["src"], "what": "output is not valid UTF-8", "cfg": cfg})
        # the Lean validator / byte-level charset predicate on the output's raw bytes
        ck.hist(f"{label}:lean-validUtf8:" + ("non-ascii" if any(ord(x) > 127 for x in css) else "ascii"))
        if not u8.startswith("ok 1 "):
            fails.append({"key": p["key"], "src": p["src"], "what": "output bytes are rejected by the Lean UTF-8 validator (validUtf8)",
                          "cfg": cfg, "lean": u8, "output": css[:300]})
        elif not u8.startswith("ok 1 1 "):
            fails.append({"key": p["key"], "src": p["src"], "what": "@charset/BOM present <=> byte >= 0x80 and allowed: violated (bytes, charsetOkB)",
                          "cfg": cfg, "lean": u8, "output": css[:300]})
        try:
            cssread.parse(css)
            rd = True
        except cssread.IllFormed as e:
            rd = str(e)
        if wf != "ok 1" or rd is not True:
            fails.append({"key": p["key"], "src": p["src"], "what": "output is not well-formed (unbalanced block/string/comment)",
                          "cfg": cfg, "lean_wellFormed": wf, "python_reader": rd, "output": css})
        if sf != "ok 1":
            fails.append({"key": p["key"], "src": p["src"], "what": "Sass-only syntax in the output", "cfg": cfg, "output": css})
        if ch != "ok 1":
            fails.append({"key": p["key"], "src": p["src"], "what": "@charset/BOM present <=> non-ASCII and allowed: violated",
                          "cfg": cfg, "output": css[:300]})
    sec = cc.run_jobs(pool, second) if second else []
    if gate:
        # operational definition of "made of CSS-representable values" for programs we did not build
        # from CSS tokens ourselves: grass's plain-CSS parser accepts the expanded output.
        for (i, st, syn, st2), a in zip(sowner, sec):
            if st is None and syn == "css" and st2 is None and a.get("status") != "ok" and not progs[i].get("gated"):
                progs[i]["gated"] = "css"
        for p in progs:
            if not p.get("skip"):
                ck.hist(f"{label}:gate:" + ("excluded-by-name" if p.get("gated") is True else
                                            "not-css-representable(skipped fixed point)" if p.get("gated") else "css-representable"))
    for (i, st, syn, st2), a in zip(sowner, sec):
        p = progs[i]
        if p.get("gated"):
            continue
        css = p["a"][(st, True)]["css"]
        cfg = f"first={st or 'expanded'} reparse-as={syn} second={st2 or 'expanded'}"
        ck.hist(f"{label}:fixedpoint:{a.get('status')}")
        tags = ["hash-brace-in-string"] if _hash_brace_in_string(css) else []
        if a.get("status") != "ok":
            fails.append({"key": p["key"], "src": p["src"], "what": "output does not recompile", "cfg": cfg, "output": css,
                          "second_status": a.get("status"), "tags": tags,
                          "second_error": (a.get("err") or {}).get("message") or a.get("panic")})
            continue
        try:
            # spellings are canonicalised even when both runs use the same style: text produced during
            # evaluation (interpolation) is always in expanded spelling and is re-spelled by a compressed re-run
            t1 = cc.canon_css(css, True)
            t2 = cc.canon_css(a["css"], True)
        except cssread.IllFormed:
            continue     # already reported above
        if not cc.canon_equal(t1, t2):
            fails.append({"key": p["key"], "src": p["src"], "what": "recompiled output has a different rule list", "cfg": cfg, "tags": tags,
                          "output": css, "second_output": a["css"], "diff": cc.first_diff(t1, t2)})
        elif st == st2 and syn == "css":
            ck.hist(f"{label}:fixedpoint-identical-text" if a["css"] == css else f"{label}:fixedpoint-same-tree-different-text")
    return fails


def _raw_hex(css):
    """the output's bytes as they left the runner (lone surrogates, which python cannot encode, kept as CESU bytes so
    that the Lean validator sees and rejects them)"""
    b = css.encode("utf-8", "surrogatepass")
    return b.hex() if b else "-"


_STR = __import__("re").compile(r"""("(?:[^"\\\n]|\\.)*"|'(?:[^'\\\n]|\\.)*')|/\*.*?\*/""", __import__("re").S)


def _hash_brace_in_string(css):
    """class tag of finding C05-F1: a string token of the output contains `#{`."""
    return any(m.group(1) and "#{" in m.group(1) for m in _STR.finditer(css))


def _read_string_tokens(css, style):
    """The quoted tokens of `x{v:TOKEN}…` / `x {\n  v: TOKEN;\n}\n…` in order (string-aware)."""
    toks, i, n = [], 0, len(css)
    head = "x{v:" if style == "compressed" else "x {\n  v: "
    while True:
        j = css.find(head, i)
        if j < 0:
            return toks
        k = j + len(head)
        if k >= n or css[k] not in "\"'":
            return None
        q, m = css[k], k + 1
        while m < n and css[m] != q:
            m += 2 if css[m] == "\\" else 1
        if m >= n:
            return None
        toks.append(css[k:m + 1])
        i = m + 1


def string_probes(ck, pool, n):
    """DIRECT oracle for C05_quoted_roundtrip / C05_quoted_wellformed on grass's own output: generated strings are
    written as `x{v:"…"}` literals, the token grass prints is handed to the Lean driver, which must judge it
    `quotedOk` and unescape it back to the intended string — in both styles."""
    rng = ck.rng
    strs = ["", "\n", "\nf", "\nF", "\x01a", "\x1fe", "\n ", "\n\t", "\ng", "a\nb\nc", "\"'", "'\"\\", "\\", "\\\n", "\x7f", "é\n9",
            "\x08B", "\rA\x0cD", "#{", "\x01", "x\x0b"]
    while len(strs) < n:
        strs.append(cc.gen_quoted(rng))
    fails = []
    B = 100
    jobs, spans = [], []
    for off in range(0, len(strs), B):
        chunk = strs[off:off + B]
        src = "\n".join("x{v:" + cc.scss_string_literal(t, rng) + "}" for t in chunk) + "\n"
        for st in STYLES:
            jobs.append(compile_job(src, style=st, syntax="scss", charset=False))
            spans.append((off, len(chunk), st, src))
    ans = cc.run_jobs(pool, jobs)
    reqs, owner = [], []
    for (off, k, st, src), a in zip(spans, ans):
        toks = _read_string_tokens(a.get("css") or "", st) if a.get("status") == "ok" else None
        if toks is None or len(toks) != k:
            fails.append({"key": f"strings:{off}", "src": src, "what": "quoted-string tokens of the output cannot be read back",
                          "cfg": st or "expanded", "status": a.get("status"), "output": (a.get("css") or "")[:2000]})
            continue
        for i, t in enumerate(toks):
            reqs.append("ser quotedok " + hexs(t))
            owner.append((strs[off + i], t, st))
    outs = driver(reqs) if reqs else []
    for (want, tok, st), o in zip(owner, outs):
        ck.count(("string-probe", want, st), len(want) > 0)
        parts = o.split(" ")
        got = unhex(parts[2]) if len(parts) == 3 and parts[2] != "_" else None
        ck.hist("string-probe:" + ("control" if any(ord(c) < 32 and c != "\t" for c in want) else "plain"))
        if parts[:2] != ["ok", "1"] or got != want:
            lit = "x{v:" + cc.scss_string_literal(want, rng) + "}"
            fails.append({"key": "string:" + hexs(want), "src": lit + "\n", "what": "a quoted string is not printed as a well-formed token that reads back to the same string",
                          "cfg": st or "expanded", "intended_hex": hexs(want), "printed_token": tok, "lean_quotedOk": parts[1] if len(parts) > 1 else o,
                          "lean_unescape_hex": parts[2] if len(parts) > 2 else None})
    return fails


def bracket_probes(ck, pool, n):
    """DIRECT oracle for raw declaration values (custom properties, expression()): values with nested brackets of all
    three kinds at depth 1-3, with strings / comments / escapes that contain stray brackets, and — in half of the
    probes — exactly one closer replaced by a closer of another kind.  Whenever grass succeeds the output must be
    well-formed (Lean `wellFormed`, python reader) and recompile as CSS; a mismatched closer must be rejected."""
    rng = ck.rng
    ps = [cc.gen_bracket_probe(rng, i) for i in range(n)]
    jobs = [compile_job(p["src"], style=st, syntax="scss", charset=False) for p in ps for st in STYLES]
    ans = cc.run_jobs(pool, jobs)
    fails, reqs, owner, second, sowner = [], [], [], [], []
    for i, p in enumerate(ps):
        for j, st in enumerate(STYLES):
            a = ans[2 * i + j]
            cfg = st or "expanded"
            ck.count(("bracket-probe", p["src"], st), True)
            ck.hist(f"bracket-probe:{'matched' if p['matched'] else 'mismatched'}:{a.get('status')}")
            if a.get("status") == "ok":
                if not p["matched"]:
                    fails.append({"key": "brackets:" + hexs(p["src"])[:40], "src": p["src"], "cfg": cfg, "output": a["css"],
                                  "what": "a raw declaration value whose bracket is closed by the wrong kind of closer is accepted",
                                  "value": p["value"]})
                reqs.append("ser wf " + hexs(a["css"]))
                owner.append((p, cfg, a["css"]))
                second.append(compile_job(a["css"], style=st, syntax="css", charset=False))
                sowner.append((p, cfg, a["css"]))
            elif p["matched"]:
                fails.append({"key": "brackets:" + hexs(p["src"])[:40], "src": p["src"], "cfg": cfg,
                              "what": "a raw declaration value with properly nested brackets is rejected",
                              "value": p["value"], "error": (a.get("err") or {}).get("message") or a.get("panic")})
    outs = driver(reqs) if reqs else []
    for (p, cfg, css), o in zip(owner, outs):
        try:
            cssread.parse(css)
            rd = True
        except cssread.IllFormed as e:
            rd = str(e)
        if o != "ok 1" or rd is not True:
            fails.append({"key": "brackets:" + hexs(p["src"])[:40], "src": p["src"], "cfg": cfg, "output": css,
                          "what": "output is not well-formed (unbalanced block/string/comment)", "lean_wellFormed": o,
                          "python_reader": rd, "value": p["value"]})
    sec = cc.run_jobs(pool, second) if second else []
    for (p, cfg, css), a2 in zip(sowner, sec):
        if p["matched"] and a2.get("status") != "ok":
            fails.append({"key": "brackets:" + hexs(p["src"])[:40], "src": p["src"], "cfg": cfg, "output": css,
                          "what": "output does not recompile", "second_status": a2.get("status"),
                          "second_error": (a2.get("err") or {}).get("message") or a2.get("panic"), "value": p["value"]})
    return fails


def corpus_progs(ck, tier):
    cs = cc.corpus_cases()
    excluded = [c for c in cs if c["name"] in NOT_CSS_REPRESENTABLE]
    cs = [c for c in cs if c["name"] not in NOT_CSS_REPRESENTABLE]
    ck.cov["corpus_excluded_not_css_representable"] = sorted({c["name"] for c in excluded})
    if tier == "quick":
        idx = list(range(len(cs)))
        ck.rng.shuffle(idx)
        cs = [cs[i] for i in sorted(idx[:1500])]
    ck.cov["corpus_excluded_from_fixed_point_only"] = sorted(FIXED_POINT_EXCLUDED)
    return [{"key": f"corpus:{c['file']}:{c['name']}", "src": c["input"], "syntax": c["options"].get("syntax"),
             "gated": f"{c['file']}:{c['name']}" in FIXED_POINT_EXCLUDED} for c in cs]


def shrink_nodes(nodes, still_fails, budget=60):
    """Greedy removal of top-level nodes, then of children, while the failure persists."""
    nodes = list(nodes)
    changed = True
    while changed and budget > 0:
        changed = False
        for i in range(len(nodes)):
            cand = nodes[:i] + nodes[i + 1:]
            budget -= 1
            if cand and still_fails(cand):
                nodes, changed = cand, True
                break
            s = nodes[i]
            if s[0] in ("rule", "media", "supports", "at", "kf") and len(s[-1]) > 1:
                for j in range(len(s[-1])):
                    cand = nodes[:i] + [s[:-1] + (s[-1][:j] + s[-1][j + 1:],)] + nodes[i + 1:]
                    budget -= 1
                    if still_fails(cand):
                        nodes, changed = cand, True
                        break
                if changed:
                    break
    return nodes


def shrink_text(src, still_fails, budget=80):
    """Line-block removal for generated programs / corpus inputs."""
    lines = src.split("\n")
    n = max(1, len(lines) // 2)
    while n >= 1 and budget > 0:
        i = 0
        while i < len(lines) and budget > 0:
            cand = lines[:i] + lines[i + n:]
            budget -= 1
            if cand and still_fails("\n".join(cand)):
                lines = cand
            else:
                i += n
        n //= 2
    return "\n".join(lines)


def report(ck, pool, fails, label):
    """Shrink (smallest first) and report direct failures."""
    fails.sort(key=lambda f: len(f["src"]))
    seen = set()
    reported = 0
    for f in fails:
        if (f["key"], f["what"]) in seen:
            continue
        seen.add((f["key"], f["what"]))
        if reported < 3 and not f.get("tags") and not str(f["key"]).startswith("corpus:"):
            what = f["what"]

            def still(src):
                r = direct(Check("C05", "quick", 0), pool, [{"key": "shrink", "src": src, "syntax": f.get("syntax")}], "shrink")
                return any(x["what"] == what for x in r)
            try:
                f["shrunk_src"] = shrink_text(f["src"], still)
            except Exception as e:    # shrinking is best effort
                f["shrink_error"] = str(e)
        case_text = f["key"] if str(f["key"]).startswith("corpus:") else f.get("shrunk_src", f["src"])
        if ck.impl_violation(case_text, f, tags=f.get("tags", [])):
            reported += 1
    return reported


def run(tier, seed):
    ck = Check("C05", tier, seed)
    ck.disagreements = []
    n_tie = 1500 if tier == "quick" else 12000
    n_prog = 500 if tier == "quick" else 6000
    ck.cov["rule"] = (
        "TIE: random model CssStmt trees (0-6 top-level nodes: style rules with selector lists incl. combinators, "
        "line breaks and placeholders; declarations with unquoted/quoted atoms and space/comma/slash lists, custom "
        "properties; @media with structured queries incl. the '(not ' slice; @supports; unknown at-rules with/without "
        "body; @keyframes; plain @import with modifiers; loud/plain, single/multi-line comments; a rule with a bubbling "
        "at-rule) printed as SCSS and compiled in {expanded,compressed} x {charset on,off}; grass text compared byte for "
        "byte with the model. A case is distinct by (tree, style, charset) and non-trivial when the tree reaches a "
        "branch beyond 'one visible rule with declarations' (see histogram tree:*). "
        "BYTES: on every tie case grass's output bytes are compared with serializeB (modelled UTF-8 encoder of the text + "
        "byte-level finish); the generator's non-ASCII letter is respelled as 2-, 3-, 4-byte characters and combining "
        "sequences in every position it occurs (histogram bytes:*); the driver re-checks validUtf8 / charsetOkB on those bytes; "
        "byte-level write_media_query (queryOutB incl. the '(not ' slice on multi-byte conditions) is compared with grass on "
        "generated queries (histogram media-query-bytes:*); in the DIRECT part validUtf8 and charsetOkB are evaluated by the "
        "driver on the raw bytes of every output. "
        "READER: for trees with the guard treeReadable (flag computed by the driver; histogram tie:treeReadable=…), grass's "
        "expanded output is recompiled by grass as CSS and both texts are read by the Lean reader readTree "
        "(C05_read_roundtrip / C05_fixed_point_model): same tree required, with and without charset header. "
        "DIRECT: raw declaration values (custom properties, expression()) with nested brackets of the three kinds at depth "
        "1-3, strings/comments/escapes holding stray brackets, half of them with one closer of the wrong kind: success => "
        "well-formed + recompiles, mismatch => must be rejected; generated strings written as literals, the printed token judged by the Lean driver (quotedOk, unescape = "
        "intended string) in both styles; the same sources + generated SassScript programs + golden-corpus test inputs (no random()/unique-id(); "
        f"{len(NOT_CSS_REPRESENTABLE)} named cases whose input injects non-CSS text are excluded, see "
        "corpus_excluded_not_css_representable), each in 4 configurations, then each of the 2 charset-on outputs "
        "recompiled as css and scss in both styles (8 recompilations) and compared as canonical rule lists "
        "(canonicalisation rules: " + "; ".join(cc.CANON_RULES) + "; colour/number spellings identified only when the two "
        "styles differ).")
    ck.assumptions = [
        "grass output observed as the runner's UTF-8 `css` string; reader = tools/cssread.py (independent of grass and of the model)",
        "comment columns: generated comments start after ASCII-only indentation (codemap columns = characters)",
        "from_utf8_unchecked: proved for the model (C05_output_valid_utf8: encoder + byte-level finish + the '(not ' slice); "
        "the writers that only append whole &str / ASCII bytes are covered by the append homomorphism of the encoder, not re-modelled on bytes",
        "grass's bytes are observed as the UTF-8 encoding of the runner's JSON `css` string (the runner has no raw-byte field)",
    ]
    ck.do_prove(cores=("ser",))
    if not ck.do_build_runner():
        ck.unproved("correspondence-broken", {"why": "runner does not build against /repo", "error": getattr(ck, "build_error", "")})
        return ck.finish()
    pool = RunnerPool()
    log(f"[C05] proof+build done at {round(__import__('time').time() - ck.t0)}s")
    tcases = gen_tie_cases(ck, n_tie)
    tie(ck, pool, tcases)
    media_query_bytes(ck, pool, 400 if tier == "quick" else 4000)
    log(f"[C05] tie: {len(tcases)} trees, disagreements={ck.cov['model_disagreements']}")
    fails = []
    fails += string_probes(ck, pool, 2000 if tier == "quick" else 30000)
    fails += bracket_probes(ck, pool, 1200 if tier == "quick" else 12000)
    # direct oracle: generated trees (as programs), generated programs, corpus
    n_clean = len(CORPUS) + int(0.4 * n_tie)
    tprogs = [{"key": "tree:" + str(i), "src": c["src"], "syntax": "scss"} for i, c in enumerate(tcases[:n_clean])]
    fails += direct(ck, pool, tprogs, "gen-tree")
    gprogs = []
    for i in range(n_prog):
        src = cc.gen_program(ck.rng)
        gprogs.append({"key": "prog:" + str(i), "src": src, "syntax": "scss"})
    log(f"[C05] gen-tree direct done at {round(__import__('time').time() - ck.t0)}s")
    fails += direct(ck, pool, gprogs, "gen-prog", gate=True)
    log(f"[C05] gen-prog direct done at {round(__import__('time').time() - ck.t0)}s")
    fails += direct(ck, pool, corpus_progs(ck, tier), "corpus", gate=True)
    log(f"[C05] direct: failures={len(fails)}")
    if (not ck.proof["ok"] or ck.cov["model_disagreements"] or getattr(ck, "changed", None)) and \
            not [f for f in fails if not f.get("tags")] and tier == "quick":
        log("[C05] proof or correspondence broken, or modelled sources changed: enlarging the search")
        if getattr(ck, "changed", None):
            tie(ck, pool, gen_tie_cases(ck, 3000))
        extra = [{"key": "prog+:" + str(i), "src": cc.gen_program(ck.rng), "syntax": "scss"} for i in range(3000)]
        fails += direct(ck, pool, extra, "gen-prog", gate=True)
        more = gen_tie_cases(ck, 3000)[:1200]
        fails += direct(ck, pool, [{"key": "tree+:" + str(i), "src": c["src"], "syntax": "scss"} for i, c in enumerate(more)], "gen-tree")
    reported = report(ck, pool, fails, "direct")
    if ck.cov["model_disagreements"] and not reported:
        ck.unproved("correspondence-broken", {"correspondence": "Grass.Serialize.serialize vs grass text (byte for byte)",
                                              "cases": ck.disagreements, "notes": ck.notes[:3]})
    return ck.finish()


def replay(path):
    r = json.load(open(path))
    ck = Check("C05", "quick", 0)
    ck.disagreements = []
    ck.do_build_runner()
    pool = RunnerPool(2)
    src = r.get("shrunk_src") or r.get("src")
    if not src:
        print(json.dumps(r, indent=1)[:4000])
        return 0
    fails = direct(ck, pool, [{"key": "replay", "src": src, "syntax": r.get("syntax", "scss")}], "replay")
    print("source:", src)
    print("recorded:", r.get("what"), r.get("cfg"))
    print("direct oracle now:", "holds" if not fails else json.dumps(fails[0], indent=1, default=str)[:3000])
    return 1 if fails else 0
