"""C19 — diagnostics are located, renderable and routed only through the Logger.

(a) PROOF   GrassProofs.C19 (spans in bounds / on character boundaries / located with a valid
            location, renderer prefix and totality, logger trace, quiet).
(b) TIE     * logging programs of the mini language of Grass/Diag.lean (diagnostics in @for/@each/@while
              loops, conditionals, mixins with content blocks, functions, imported files, module files
              loaded by @use/@forward) in varying lay-outs x {quiet off/on}: grass's outcome and its
              ordered list of (kind, file, line, column, message) == the model's (driver op `tracex`;
              line and column computed by the model from the file texts);
            * the renderer: grass's `Display` output == `render` of the model, byte for byte, for
              every failing input in both unicode modes;
            * span arithmetic of re-lexed selector text: the span grass reports for "Expected
              identifier." at the end of a selector == `Lexer.ofString … |>.spanAtIndex`.
(c) DIRECT  on grass's own output: never a panic in the diagnostics path, kind == parse, the named
            file was loaded, the location satisfies `spanLocOk` (Lean driver; counted per message class
            and per named error-site kind, see `site_cases`), the rendering starts
            with `Error: <message>` in both modes, @error shows the inspected value, nothing on
            fd 1/2 with a custom logger, nothing logged under quiet, StdLogger writes to stderr only.
"""
import collections
import json
import re
import time

import corpus
from vlib import Check, RunnerPool, compile_job, driver, hexs, unhex, log

# ----------------------------------------------------------------------------------------------
# minimised past failures — run first on every run
# ----------------------------------------------------------------------------------------------
CORPUS_FAILING = [
    # D19 (fixed): shorter re-lexed selector text, offsets applied to the source split a character
    {"src": '$x: ""; a#{$x}ééé[ {b: c}', "tag": "D19"},
    # D23 (fixed): re-lexed text of EQUAL byte length but different character lay-out
    {"src": '$é: "aa[$aaa"; #{$é} {b: c}', "tag": "D23"},
    {"src": '$xé: "aaa[$aaa"; #{$xé} {b: c}', "tag": "D23"},
    {"src": '$é: "é+ éh"; @media #{$é} {a {b: c}}', "tag": "D23"},
    {"src": '$é: "%h[, é"; a {@at-root #{$é} {b {c: d}}}', "tag": "D23"},
    {"src": "$é: 'é[%\"-('; x#{$é}y {b: c}", "tag": "D23"},
    {"src": '$é: "t1w:(:h"; #{$é} {b: c}', "tag": "D23"},
    # D24 (fixed): a non-UTF-8 imported file used to panic in raw_to_parse_error
    {"files": {"a.scss": '@import "b";', "b.scss": {"hex": "61ff"}}, "entry": "a.scss", "tag": "D24",
     "kinds": ("utf8",)},
    {"files": {"a.scss": '@use "b";', "b.scss": {"hex": "61ff"}}, "entry": "a.scss", "tag": "D24",
     "kinds": ("utf8",)},
    {"files": {"a.scss": '@use "sass:meta"; @include meta.load-css("b");', "b.scss": {"hex": "61ff"}},
     "entry": "a.scss", "tag": "D24", "kinds": ("utf8",)},
    {"files": {"a.scss": {"hex": "61ff"}}, "entry": "a.scss", "tag": "entry-not-utf8", "kinds": ("utf8",)},
    {"files": {"a.scss": "a{}"}, "entry": "missing.scss", "tag": "entry-missing", "kinds": ("io",)},
]

# @error <expr>  ->  the inspected value (hand-written expectations, independent of grass)
ERROR_TABLE = [
    ('"a"', '"a"'), ("a", "a"), ("1px", "1px"), ("(1, 2)", "1, 2"), ("(a: 1)", "(a: 1)"),
    ("null", "null"), ("true", "true"), ("()", "()"), ("[1 2]", "[1 2]"), ("1 + 1", "2"),
    ('(1, "b")', '1, "b"'), ('"é€"', '"é€"'), ("(a b) c", "(a b) c"), ('("x": (1, 2))', '("x": (1, 2))'),
    ("-3", "-3"), ("1.5", "1.5"), ('"a" + "b"', '"ab"'), ("a + b", "ab"), ("[]", "[]"),
]

DIAG_PANIC = re.compile(r"codemap|lexer\.rs|/error\.rs|compiler/src/lib\.rs|char boundary|raw errors should|"
                        r"unable to get raw|Mapping unknown source|while rendering the error|logger\.rs")


# ----------------------------------------------------------------------------------------------
# part A — logging programs (mini language of Grass/Diag.lean)
# ----------------------------------------------------------------------------------------------
class Gen:
    """Random projects over the mini language of Grass/Diag.lean.  Files 1.. are either *imported*
    files (`@import`, also nested in a style rule, also repeatedly) or *modules* (`@use … as *` /
    `@forward`, loaded once); names of mixins/functions are unique in the project and references go to
    members visible at that point (plus a few deliberate misses)."""

    def __init__(self, rng, size):
        self.rng, self.size = rng, size
        self.nvar = 0
        self.imps = []          # imported-kind files that may be imported nested in a style rule here

    def fresh(self):
        self.nvar += 1
        return self.nvar

    # expressions ------------------------------------------------------------------------------
    def expr(self, scope, funcs, depth=0):
        r = self.rng.random()
        if r < 0.006:
            return ("v", 90 + self.rng.randrange(3))          # out of scope: "Undefined variable."
        if scope and r < 0.45:
            return ("v", self.rng.choice(scope))
        if funcs and r < 0.62 and depth < 2:
            return ("c", self.rng.choice(funcs), self.expr(scope, funcs, depth + 1))
        if r < 0.82:
            return ("s", self.rng.randrange(10))
        return ("i", self.rng.randrange(-3, 12))

    def top_expr(self, scope, funcs):
        """The value of a directive: sometimes the two-element list `a b` (both sides evaluated — several
        function calls in one statement)."""
        if self.rng.random() < (0.3 if funcs else 0.08):
            return ("p", self.expr(scope, funcs, 1), self.expr(scope, funcs, 1))
        return self.expr(scope, funcs)

    # statements -------------------------------------------------------------------------------
    def stmts(self, ctx, scope, mixins, funcs, depth, n=None):
        n = n if n is not None else self.rng.choice([1, 1, 2, 2, 3])
        return [self.stmt(ctx, scope, mixins, funcs, depth) for _ in range(n)]

    def stmt(self, ctx, scope, mixins, funcs, depth):
        """ctx = (where, in_mixin): where in top|mixin|func|content; in_mixin = lexically inside @mixin."""
        rng = self.rng
        where, in_mixin = ctx
        r = rng.random()
        if depth >= 3 or r < 0.27:
            return ("D", self.top_expr(scope, funcs))
        if r < 0.48:
            return ("W", self.top_expr(scope, funcs))
        if r < 0.495:
            return ("E", self.top_expr(scope, funcs))
        if r < 0.58:
            x = self.fresh()
            a, b = rng.randrange(-2, 5), rng.randrange(-2, 5)
            return ("F", x, a, b, rng.random() < 0.5, self.stmts(ctx, scope + [x], mixins, funcs, depth + 1))
        if r < 0.65:
            x = self.fresh()
            vals = [("s", rng.randrange(10)) if rng.random() < 0.5 else ("i", rng.randrange(-3, 12))
                    for _ in range(rng.choice([0, 1, 2, 3, 3, 4]))]
            return ("C", x, vals, self.stmts(ctx, scope + [x], mixins, funcs, depth + 1))
        if r < 0.71:
            x = self.fresh()
            return ("H", x, rng.randrange(-1, 3), rng.randrange(0, 5), rng.choice([1, 1, 2, 3]),
                    self.stmts(ctx, scope + [x], mixins, funcs, depth + 1))
        if r < 0.80:
            if scope and rng.random() < 0.7:
                c = ("q", rng.choice(scope), rng.randrange(-1, 4))
            elif rng.random() < 0.02:
                c = ("q", 95, 1)
            else:
                c = ("t",) if rng.random() < 0.5 else ("f",)
            return ("I", c, self.stmts(ctx, scope, mixins, funcs, depth + 1),
                    self.stmts(ctx, scope, mixins, funcs, depth + 1, n=rng.choice([0, 1, 2])))
        if r < 0.85 and funcs:
            return ("L", self.top_expr(scope, funcs) if rng.random() < 0.5 else
                    ("c", rng.choice(funcs), self.expr(scope, funcs, 1)))
        if where == "func":
            return ("W", self.top_expr(scope, funcs))
        if in_mixin and r < 0.89:
            return ("T",)
        if r < 0.92:
            body = self.stmts(ctx, scope, mixins, funcs, depth + 1)
            if where == "top" and depth == 0 and self.imps and rng.random() < 0.5:
                body.insert(rng.randrange(len(body) + 1), ("P", rng.choice(self.imps)))   # nested @import
            return ("B", body)
        # @include, with or without a content block
        if mixins and rng.random() < 0.97:
            m, hasp, hasc = rng.choice(mixins)
            arg = self.expr(scope, funcs) if hasp else None
            if rng.random() < (0.75 if hasc else 0.04):
                return ("K", m, arg, self.stmts(("content", in_mixin), scope, mixins, funcs, depth + 1))
            return ("N", m, arg)
        if rng.random() < 0.25:
            return ("N", 77, None)                              # "Undefined mixin."
        return ("D", self.top_expr(scope, funcs))

    def project(self):
        rng = self.rng
        nfiles = rng.choice([1, 1, 2, 2, 3, 3, 4, 5])
        allnames = ["main.scss", "_p1.scss", "_p2.scss", "_q3.scss", "_r4.scss"]
        urls = [None, "p1", "p2", "q3", "r4"]
        kinds = ["main"] + [rng.choice(["imp", "mod"]) for _ in range(nfiles - 1)]
        if nfiles > 1 and rng.random() < 0.5:
            # the last file refers to no other file: it may live in a directory (files there are looked
            # up relative to it only)
            allnames[nfiles - 1], urls[nfiles - 1] = f"sub/{urls[nfiles - 1]}.scss", f"sub/{urls[nfiles - 1]}"
        names = allnames[:nfiles]
        files = [[] for _ in range(nfiles)]
        defines = [None] * nfiles     # what executing file k defines in the importer's scope (imp files)
        exports = [None] * nfiles     # what `@use "k" as *` makes visible (mod files)
        nm = nf = 0
        for k in reversed(range(nfiles)):
            mixins, funcs = [], []     # visible at the point reached
            own_m, own_f = [], []      # defined in this file's scope (own declarations + imported ones)
            fw_m, fw_f = [], []
            body = []
            later_mods = [j for j in range(k + 1, nfiles) if kinds[j] == "mod"]
            later_imps = [j for j in range(k + 1, nfiles) if kinds[j] == "imp"]
            if kinds[k] != "imp":
                for j in later_mods:
                    if rng.random() < 0.3:
                        body.append(("Y", j, True))
                        fw_m += exports[j][0]
                        fw_f += exports[j][1]
                    if rng.random() < (0.8 if k == 0 else 0.55):
                        body.append(("Y", j, False))
                        mixins += exports[j][0]
                        funcs += exports[j][1]
                rng.shuffle(body)
            for j in later_imps:
                if rng.random() < (0.8 if k == 0 else 0.4):
                    body.append(("P", j))
                    own_m += defines[j][0]
                    own_f += defines[j][1]
            mixins += own_m
            funcs += own_f
            self.imps = later_imps if kinds[k] != "imp" or rng.random() < 0.5 else []
            for _ in range(rng.choice([0, 1, 1, 2])):
                if rng.random() < 0.5:
                    p = self.fresh() if rng.random() < 0.5 else None
                    saved, self.imps = self.imps, []
                    b = self.stmts(("mixin", True), [p] if p else [], list(mixins), list(funcs), 1)
                    self.imps = saved
                    ent = (nm, p is not None, mentions_content(b))
                    body.append(("M", nm, p, b))
                    mixins.append(ent)
                    own_m.append(ent)
                    nm += 1
                else:
                    p = self.fresh()
                    b = self.stmts(("func", False), [p], [], list(funcs), 1, n=rng.choice([0, 1, 2]))
                    body.append(("U", nf, p, b, self.expr([p], list(funcs), 1)))
                    funcs.append(nf)
                    own_f.append(nf)
                    nf += 1
            body += self.stmts(("top", False), [], list(mixins), list(funcs), 0,
                               n=rng.choice([1, 2, 3]) if k else self.size)
            if kinds[k] != "imp" and rng.random() < 0.3 and later_imps:
                body.append(("P", rng.choice(later_imps)))       # a second import: runs again
                body += self.stmts(("top", False), [], list(mixins), list(funcs), 0, n=1)
            files[k] = body
            defines[k] = (own_m, own_f)
            exports[k] = (own_m + fw_m, own_f + fw_f)
        return names, urls, files, kinds


def mentions_content(ss):
    for s in ss:
        if s[0] == "T":
            return True
        if s[0] in "FCHBK" and mentions_content(s[-1]):
            return True
        if s[0] == "I" and (mentions_content(s[2]) or mentions_content(s[3])):
            return True
    return False


def has_undef(e):
    if e[0] == "v":
        return e[1] >= 90
    if e[0] == "c":
        return has_undef(e[2])
    if e[0] == "p":
        return has_undef(e[1]) or has_undef(e[2])
    return False


def e_tok(e):
    if e[0] == "c":
        return f"c {e[1]} {e_tok(e[2])}"
    if e[0] == "p":
        return f"p {e_tok(e[1])} {e_tok(e[2])}"
    return f"{e[0]} {e[1]}"


class Printer:
    """Prints one file and the token stream of its statements.  A statement's *site* is the byte offset
    of its first character (`@` of a directive).  The lay-out varies: line ends (LF / CRLF), indentation
    (spaces / tabs), text before a directive on its line (comment with multi-byte characters, another
    statement), what separates `@debug` from its value (blanks, tab, comment, line break, `//` comment),
    and line breaks inside the value."""

    def __init__(self, urls, rng, plain=False):
        self.urls, self.rng, self.plain = urls, rng, plain
        self.text = ""
        self.eol = "\n" if plain or rng.random() < 0.75 else "\r\n"
        self.unit = "  " if plain or rng.random() < 0.7 else "\t"
        self.expect = set()          # (kind, line, col) of every @debug/@warn value, python's own count
        self.layout = collections.Counter()
        if self.eol == "\r\n":
            self.layout["crlf-file"] += 1
        if self.unit == "\t":
            self.layout["tab-indent"] += 1
        if not plain and rng.random() < 0.25:
            self.text += rng.choice(["// é€😀", "/* ü\t日本 */", "// x"]) + self.eol
            self.layout["leading-comment"] += 1

    def pos(self):
        return len(self.text.encode("utf-8"))

    def linecol(self):
        i = self.text.rfind("\n")
        return self.text.count("\n") + 1, len(self.text) - i

    def emit(self, indent, text):
        """One line; returns the site (byte offset) of `text`."""
        self.text += self.unit * indent
        site = self.pos()
        self.text += text + self.eol
        return site

    def e_text(self, e, brk, ind):
        if e[0] == "i":
            return str(e[1])
        if e[0] == "s":
            return f'"s{e[1]}"'
        if e[0] == "v":
            return f"$v{e[1]}"
        nl = self.eol + self.unit * (ind + 2)
        if e[0] == "p":
            sep = " "
            if brk and self.rng.random() < 0.4:
                sep = self.rng.choice([nl, " /* é */ ", "  ", "\t"])
                self.layout["break-in-value"] += 1
            return self.e_text(e[1], brk, ind) + sep + self.e_text(e[2], brk, ind)
        if brk and self.rng.random() < 0.25:
            self.layout["break-in-call"] += 1
            return f"f{e[1]}({nl}{self.e_text(e[2], brk, ind)}{nl})"
        return f"f{e[1]}({self.e_text(e[2], brk, ind)})"

    def directive(self, k, e, ind):
        rng = self.rng
        word = {"D": "@debug", "W": "@warn", "E": "@error"}[k]
        free = not self.plain and not has_undef(e)          # line breaks allowed (no error line at stake)
        self.text += self.unit * ind
        if not self.plain and rng.random() < 0.2:
            pre = rng.choice(["/* é€ */ ", "$tmp: \"ü😀\";\t", "/*\t*/", "$tmp: 1; "])
            self.text += pre
            self.layout["text-before-directive"] += 1
        site = self.pos()
        gap = " "
        if not self.plain and rng.random() < 0.4:
            choices = ["  ", "\t", " /* é😀 */ ", "/**/", " \t "]
            if free:
                choices += [self.eol + self.unit * (ind + 2), " // c é" + self.eol + self.unit * (ind + 1),
                            self.eol + self.eol + "\t", " /* a" + self.eol + " b */ "]
            gap = rng.choice(choices)
            self.layout["gap=" + ("line-break" if self.eol in gap else "tab" if "\t" in gap else
                                  "comment" if "/*" in gap else "spaces")] += 1
        self.text += word + gap
        if k != "E":
            line, col = self.linecol()
            self.expect.add(("debug" if k == "D" else "warn", line, col))
        self.text += self.e_text(e, free, ind)
        self.text += rng.choice([";", ";", ";", " ;"]) if not self.plain else ";"
        self.text += self.eol
        return f"{k} {site} {e_tok(e)}"

    def block(self, ss, ind):
        toks = ["["]
        for s in ss:
            toks.append(self.stmt(s, ind))
        toks.append("]")
        return " ".join(toks)

    def stmt(self, s, ind):
        k = s[0]
        if k in "DWE":
            return self.directive(k, s[1], ind)
        if k == "L":
            site = self.emit(ind, f"$tmp: {self.e_text(s[1], False, ind)};")
            return f"L {site} {e_tok(s[1])}"
        if k == "F":
            _, x, a, b, inc, body = s
            site = self.emit(ind, f"@for $v{x} from {a} {'through' if inc else 'to'} {b} {{")
            t = self.block(body, ind + 1)
            self.emit(ind, "}")
            return f"F {site} {x} {a} {b} {1 if inc else 0} {t}"
        if k == "C":
            _, x, vals, body = s
            vt = ", ".join(self.e_text(v, False, ind) for v in vals) if vals else "()"
            site = self.emit(ind, f"@each $v{x} in {vt} {{")
            t = self.block(body, ind + 1)
            self.emit(ind, "}")
            return f"C {site} {x} {len(vals)} " + "".join(e_tok(v) + " " for v in vals) + t
        if k == "H":
            _, x, init, bound, step, body = s
            self.emit(ind, f"$v{x}: {init};")
            site = self.emit(ind, f"@while $v{x} < {bound} {{")
            t = self.block(body, ind + 1)
            self.emit(ind + 1, f"$v{x}: $v{x} + {step};")
            self.emit(ind, "}")
            return f"H {site} {x} {init} {bound} {step} {t}"
        if k == "I":
            _, c, thn, els = s
            ct = {"t": "true", "f": "false"}.get(c[0]) or f"$v{c[1]} == {c[2]}"
            site = self.emit(ind, f"@if {ct} {{")
            t1 = self.block(thn, ind + 1)
            if els:
                self.emit(ind, "} @else {")
                t2 = self.block(els, ind + 1)
            else:
                t2 = "[ ]"
            self.emit(ind, "}")
            ctok = c[0] if c[0] in "tf" else f"q {c[1]} {c[2]}"
            return f"I {site} {ctok} {t1} {t2}"
        if k == "B":
            self.emit(ind, ".b {")
            self.emit(ind + 1, "c: d;")
            t = self.block(s[1], ind + 1)
            self.emit(ind, "}")
            return f"B {t}"
        if k == "M":
            _, m, p, body = s
            self.emit(ind, f"@mixin m{m}" + (f"($v{p})" if p else "") + " {")
            t = self.block(body, ind + 1)
            self.emit(ind, "}")
            return f"M {m} {p if p else '_'} {t}"
        if k == "U":
            _, f, p, body, ret = s
            self.emit(ind, f"@function f{f}($v{p}) {{")
            t = self.block(body, ind + 1)
            rl = self.emit(ind + 1, f"@return {self.e_text(ret, False, ind)};")
            self.emit(ind, "}")
            return f"U {f} {p} {t} {rl} {e_tok(ret)}"
        if k == "N":
            _, m, arg = s
            site = self.emit(ind, f"@include m{m}" + (f"({self.e_text(arg, False, ind)})" if arg else "") + ";")
            return f"N {site} {m} " + (e_tok(arg) if arg else "_")
        if k == "K":
            _, m, arg, body = s
            site = self.emit(ind, f"@include m{m}" + (f"({self.e_text(arg, False, ind)})" if arg else "") + " {")
            t = self.block(body, ind + 1)
            self.emit(ind, "}")
            return f"K {site} {m} " + (e_tok(arg) if arg else "_") + " " + t
        if k == "T":
            site = self.emit(ind, "@content;")
            return f"T {site}"
        if k == "P":
            site = self.emit(ind, f'@import "{self.urls[s[1]]}";')
            return f"P {site} {s[1]}"
        if k == "Y":
            site = self.emit(ind, f'@forward "{self.urls[s[1]]}";' if s[2] else f'@use "{self.urls[s[1]]}" as *;')
            return f"Y {site} {s[1]} {1 if s[2] else 0}"
        raise ValueError(k)


def render_project(names, urls, files, rng, plain=False):
    """-> texts {name: text}, request tail `<n> <hex text>… <stmts>…`, expected event places, lay-outs."""
    texts, toks, expect, layout = {}, [], set(), collections.Counter()
    for name, body in zip(names, files):
        p = Printer(urls, rng, plain)
        toks.append(p.block(body, 0))
        texts[name] = p.text
        expect |= {(k, name, l, c) for k, l, c in p.expect}
        layout.update(p.layout)
    tail = f"{len(names)} " + " ".join(hexs(texts[n]) for n in names) + " " + " ".join(toks)
    return texts, tail, expect, layout


ERR_TEXT = {"undefvar": "Undefined variable.", "undefmixin": "Undefined mixin.",
            "nocontent": "Mixin doesn't accept a content block."}


def parse_trace(ans, names):
    """driver answer -> (outcome tuple, [(kind, file, line, col, msg)], visited) or None (unsupported).
    outcome: ("ok",) | ("err", file, line, col | None, message)."""
    m = re.match(r"ok (\S+) (\d+) \|(.*)$", ans)
    if not m:
        return None
    st = m.group(1)
    if st == "ok":
        outcome = ("ok",)
    else:
        _, kind, f, l, c, msg = st.split(":")
        text = unhex(msg) if kind == "user" else ERR_TEXT[kind]
        outcome = ("err", names[int(f)], int(l), None if c == "-" else int(c), text)
    evs = []
    for t in m.group(3).split():
        k, f, l, c, msg = t.split(":")
        evs.append((k, names[int(f)], int(l), int(c), unhex(msg)))
    return outcome, evs, int(m.group(2))


def impl_outcome(a, with_col=True):
    if a.get("status") == "ok":
        return ("ok",)
    if a.get("status") == "err" and a.get("err", {}).get("kind") == "parse":
        e = a["err"]
        return ("err", e["file"], e["begin_line"] + 1, e["begin_col"] + 1 if with_col else None, e["message"])
    return ("status", a.get("status"), (a.get("panic") or str(a.get("err")))[:200])


def outcome_matches(io, mo):
    """The model gives the column only where it models it (@error: where the value begins)."""
    if io[0] == "err" and mo[0] == "err" and mo[3] is None:
        return io[:3] + io[4:] == mo[:3] + mo[4:]
    return io == mo


def impl_events(a):
    return [(l["kind"], l["file"], l["line"], l["col"], l["msg"]) for l in a.get("logs", [])]


def map_confirm(pool, jobs, timeout, retry_timeout):
    """RunnerPool.map, with timeouts/aborts re-run once (in parallel) under a larger budget: load on a
    shared box must not look like a hang; a genuine hang (e.g. a mutated loop) stays `timeout` and is
    only counted — termination is not this property's concern."""
    answers = pool.map(jobs, timeout=timeout, confirm=False)
    again = [i for i, a in enumerate(answers) if a.get("status") in ("timeout", "abort", "bad-answer")]
    if again:
        for i, a in zip(again, pool.map([jobs[i] for i in again], timeout=retry_timeout, confirm=False)):
            answers[i] = a
    return answers


def std_job(job):
    j = dict(job)
    j["logger"] = "std"
    return j


def expected_stderr_ok(evs, captured):
    """StdLogger (logger.rs:19-40): `file:line DEBUG: msg` / `Warning: msg\\n    ./file:line:col`."""
    want = ""
    for k, f, l, c, msg in evs:
        if k == "debug":
            want += f"{f}:{l} DEBUG: {msg}\n"
        else:
            want += f"Warning: {msg}\n    ./{f}:{l}:{c}\n"
    return want == captured


# fixed regression programs: D12 (@warn in a loop / mixin included twice), quiet, imports; then one small
# program per construct added in round 3 (@each, @while, @use once, @forward, @content, pairs, nested import)
FIXED = [
    (["main.scss"], [None], [[("F", 1, 1, 3, True, [("W", ("v", 1))])]]),
    (["main.scss"], [None], [[("M", 0, None, [("W", ("s", 1)), ("D", ("i", 2))]), ("N", 0, None), ("N", 0, None)]]),
    (["main.scss"], [None], [[("D", ("v", 90)), ("W", ("i", 1))]]),      # quiet skips evaluating @debug
    (["main.scss", "_p1.scss"], [None, "p1"],
     [[("P", 1), ("N", 0, ("i", 5)), ("D", ("c", 0, ("s", 3))), ("E", ("c", 0, ("i", 7)))],
      [("M", 0, 2, [("W", ("v", 2))]), ("U", 0, 3, [("D", ("v", 3))], ("v", 3))]]),
    (["main.scss"], [None], [[("C", 1, [("i", 1), ("s", 2), ("i", 5)], [("D", ("v", 1)), ("W", ("v", 1))]),
                              ("C", 2, [], [("D", ("v", 2))])]]),
    (["main.scss"], [None], [[("H", 1, 0, 3, 2, [("W", ("v", 1))]), ("H", 2, 2, 2, 1, [("D", ("v", 2))]),
                              ("U", 0, 3, [("H", 4, 0, 2, 1, [("D", ("v", 4))])], ("v", 3)), ("D", ("c", 0, ("i", 1)))]]),
    (["main.scss", "_p1.scss", "sub/p2.scss"], [None, "p1", "sub/p2"],
     [[("Y", 1, False), ("Y", 2, False), ("D", ("i", 0)), ("N", 1, None), ("D", ("c", 1, ("i", 3)))],
      [("Y", 2, False), ("D", ("i", 1)), ("M", 1, None, [("W", ("s", 1)), ("N", 2, None)]),
       ("U", 1, 1, [("D", ("v", 1))], ("c", 2, ("v", 1)))],
      [("D", ("i", 2)), ("M", 2, None, [("W", ("i", 22))]), ("U", 2, 2, [("W", ("v", 2))], ("i", 5))]]),
    (["main.scss", "_p1.scss", "sub/p2.scss"], [None, "p1", "sub/p2"],          # members of a used module's uses: not visible
     [[("Y", 1, False), ("N", 2, None)], [("Y", 2, False), ("D", ("i", 1))], [("D", ("i", 2)), ("M", 2, None, [("W", ("i", 22))])]]),
    (["main.scss", "_p1.scss", "sub/p2.scss"], [None, "p1", "sub/p2"],          # … but forwarded ones are
     [[("Y", 1, False), ("N", 2, None)], [("Y", 2, True), ("D", ("i", 1))], [("D", ("i", 2)), ("M", 2, None, [("W", ("i", 22))])]]),
    (["main.scss"], [None],
     [[("M", 0, 1, [("D", ("v", 1)), ("T",), ("T",)]), ("M", 1, None, [("K", 0, ("i", 1), [("W", ("s", 3)), ("T",)])]),
       ("K", 1, None, [("D", ("s", 4))]), ("N", 0, ("i", 2)), ("M", 2, None, [("D", ("i", 9))]), ("K", 2, None, [("D", ("i", 1))])]]),
    (["main.scss"], [None],
     [[("U", 1, 1, [("D", ("v", 1))], ("v", 1)), ("D", ("p", ("c", 1, ("i", 1)), ("c", 1, ("s", 2)))),
       ("W", ("p", ("c", 1, ("i", 1)), ("c", 1, ("s", 2)))), ("L", ("p", ("c", 1, ("i", 3)), ("c", 1, ("i", 4)))),
       ("E", ("p", ("c", 1, ("i", 1)), ("c", 1, ("s", 2))))]]),
    (["main.scss", "_p1.scss"], [None, "p1"],
     [[("B", [("P", 1), ("N", 0, None)]), ("N", 0, None)], [("D", ("i", 1)), ("M", 0, None, [("W", ("i", 2))])]]),
]


def run_logging(ck, pool, n_programs, failing, first=True):
    rng = ck.rng
    projects = []
    if first:
        # every fixed program once in the plain lay-out and once in a random lay-out
        projects += [(n, u, f, None, True) for n, u, f in FIXED] + [(n, u, f, None, False) for n, u, f in FIXED]
    n_fixed = len(projects)
    for i in range(n_programs):
        g = Gen(rng, size=rng.choice([2, 3, 4, 6]))
        projects.append(g.project() + (False,))
    jobs, lines, meta = [], [], []
    for idx, (names, urls, files, kinds, plain) in enumerate(projects):
        texts, tail, expect, layout = render_project(names, urls, files, rng, plain)
        base = compile_job(files=texts, entry="main.scss")
        jq = compile_job(files=texts, entry="main.scss", quiet=True)
        with_std = idx % 4 == 0 or idx < n_fixed
        js = [base, jq] + ([std_job(base), std_job(jq)] if with_std else [])
        meta.append((names, texts, tail, len(jobs), len(js), expect, layout, kinds))
        jobs += js
        lines.append(f"diag tracex 0 0 {tail}")
        lines.append(f"diag tracex 1 0 {tail}")
    answers = map_confirm(pool, jobs, 10, 40)
    outs = driver(lines)
    for idx, (names, texts, tail, off, nj, expect, layout, kinds) in enumerate(meta):
        a_loud, a_quiet = answers[off], answers[off + 1]
        m_loud, m_quiet = parse_trace(outs[2 * idx], names), parse_trace(outs[2 * idx + 1], names)
        if m_loud is None or m_quiet is None:
            ck.cov["unsupported_dropped"] += 1
            ck.hist("logging:unsupported:" + outs[2 * idx][:24])
            continue
        toks = tail.split(" ", 1 + len(names))[-1]
        case = {"files": texts, "entry": "main.scss", "program": tail}
        n_ev = len(m_loud[1])
        nontrivial = n_ev > 0
        ck.count(("log", tail), nontrivial)
        ck.hist("logging:files=%d" % len(names))
        if kinds:
            ck.hist("logging:file-kinds=" + "+".join(sorted(set(kinds[1:]))) if len(kinds) > 1 else "logging:file-kinds=single")
        ck.hist("logging:events=" + ("0" if n_ev == 0 else "1-3" if n_ev <= 3 else "4-10" if n_ev <= 10 else ">10"))
        ck.hist("logging:outcome=" + (m_loud[0][0] if m_loud[0][0] == "ok" else
                                      "err:" + (m_loud[0][4] if m_loud[0][4] in ERR_TEXT.values() else "@error")))
        tl = toks.split()
        for i, t in enumerate(tl):
            if t in ("F", "I", "M", "U", "N", "P", "L", "B", "C", "H", "K", "T"):
                ck.hist("logging:stmt=" + t)
            elif t == "Y":
                ck.hist("logging:stmt=" + ("@forward" if tl[i + 3] == "1" else "@use"))
            elif t == "p":
                ck.hist("logging:value-pair")
        if re.search(r"B \[[^\[\]]*P ", toks):
            ck.hist("logging:@import-nested-in-style-rule")
        for key, n in layout.items():
            ck.hist("logging:layout:" + key, n)
        evfiles = {e[1] for e in m_loud[1]}
        if len(evfiles) > 1:
            ck.hist("logging:events-from-several-files")
        if any(e[3] > 40 for e in m_loud[1]):
            ck.hist("logging:event-col>40")
        if any(any(ord(ch) > 127 or ch == "\t" for ch in texts[e[1]].split("\n")[e[2] - 1][:e[3] - 1]) for e in m_loud[1]):
            ck.hist("logging:event-after-multibyte-or-tab-on-its-line")
        if idx % 211 == 0:
            ck.sample({"kind": "logging", "main.scss": texts["main.scss"][:400], "model_trace": outs[2 * idx][:300]})
        problems = []
        # (b) tie, loud and quiet: outcome, and the exact ordered list of (kind, file, line, col, message)
        for label, a, m in (("loud", a_loud, m_loud), ("quiet", a_quiet, m_quiet)):
            io, ie = impl_outcome(a), impl_events(a)
            if a.get("status") in ("timeout", "abort"):
                ck.hist("logging:" + a.get("status"))
                continue
            if not outcome_matches(io, m[0]) or ie != m[1]:
                ck.cov["model_disagreements"] += 1
                problems.append({"what": f"trace/outcome differs from the model ({label})",
                                 "impl": {"outcome": io, "events": ie}, "model": {"outcome": m[0], "events": m[1]}})
            # (c) direct
            if a.get("captured"):
                problems.append({"what": f"library wrote to fd 1/2 with a custom logger ({label})",
                                 "captured": a["captured"][:300]})
            if label == "quiet" and ie:
                problems.append({"what": "events reached the Logger under quiet", "events": ie})
            for k, f, l, c, msg in ie:
                if (k, f, l, c) not in expect:
                    problems.append({"what": "event does not carry the file/line/column of the value of a directive "
                                             "of its kind (as the printer placed it)", "event": (k, f, l, c, msg)})
        if a_loud.get("status") == "ok" and a_quiet.get("status") == "ok" and a_loud.get("css") != a_quiet.get("css"):
            problems.append({"what": "CSS differs between quiet and not quiet"})
        if nj == 4:
            s_loud, s_quiet = answers[off + 2], answers[off + 3]
            ck.hist("logging:std-logger")
            if s_loud.get("logs") or s_quiet.get("logs"):
                problems.append({"what": "runner: collecting logger used although logger=std"})
            if impl_outcome(s_loud) != impl_outcome(a_loud) or s_loud.get("css") != a_loud.get("css"):
                problems.append({"what": "result differs between StdLogger and custom logger",
                                 "std": impl_outcome(s_loud), "custom": impl_outcome(a_loud)})
            if not expected_stderr_ok(impl_events(a_loud), s_loud.get("captured", "")):
                problems.append({"what": "StdLogger output is not the expected stderr text",
                                 "captured": s_loud.get("captured", "")[:400], "events": impl_events(a_loud)})
            if s_quiet.get("captured"):
                problems.append({"what": "StdLogger wrote although quiet", "captured": s_quiet["captured"][:300]})
        if problems:
            case["problems"] = problems
            case["size"] = sum(len(t) for t in texts.values())
            failing.append(case)


# ----------------------------------------------------------------------------------------------
# part B — failing inputs
# ----------------------------------------------------------------------------------------------
TOK = re.compile(r"\s+|[A-Za-z_][A-Za-z0-9_-]*|\d+(?:\.\d+)?|#\{|.", re.S)
MB = ["é", "€", "😀", "ü", "日本", "́"]


def mutate(rng, s):
    t = TOK.findall(s)
    if not t:
        return s
    k = rng.randrange(9)
    i = rng.randrange(len(t))
    if k == 0:
        del t[i]
    elif k == 1:
        t.insert(i, t[i])
    elif k == 2:
        t = t[:i]
    elif k == 3:
        t.insert(i, rng.choice("{}()[]\"'#;:,"))
    elif k == 4:
        t.insert(i, rng.choice(MB))
    elif k == 5:
        j = rng.randrange(len(t))
        t[i], t[j] = t[j], t[i]
    elif k == 6:
        t[i] = rng.choice(MB) + t[i]
    elif k == 7:
        t.insert(i, "#{" + rng.choice(['"é"', "$x", "1+1", '"a[b"', "'é€'", "$é"]) + "}")
    else:
        t = t[i:]
    return "".join(t)


def mb_templates(rng):
    """Errors with multi-byte characters before, inside and after the error site."""
    a, b, c = (rng.choice(MB + ["x"]) for _ in range(3))
    T = [
        f'a {{ b: "{a}{b}" + ; }}', f"/* {a} */ a {{ b: $x{c} }}", f".{a}{b} {{ c: 1 + }}",
        f'${a}: 1; a {{ b: ${a} + ("{b}" * 2) }}', f"a {{ {a}: {b}; c: d(}}", f'@import "{a}{b}nothere";',
        f"a {{ b: {a}", f'a {{ b: "{a}', f"@include {a}{b};", f"a {{ @extend {a}% ; }}", f"@media {a} and ({b} {{ a {{ b: c }} }}",
        f"a {{ b: {a}.{b}(1) }}", f'@use "sass:{a}";', f'@error "{a}{b}{c}";', f"@debug {a} + ;",
        f"{a}\n\n  {b} {{\n c: d +;\n}}", f"a {{\r\n  {a}: {b} *;\r\n}}", f"a {{\x0c{a}: 1 % ;}}",
        f"@function f(${a}) {{ @return ${a} + ${b}; }} a {{ b: f(1) }}", f"@mixin m {{ {a}: $u{b}; }} a {{ @include m }}",
        f"a {{ b: 1{a} + 1{b}; c: (1{a} * 1{a} + 1) }}", f"@each ${a} in {b} c {{ d {{ e: ${a} + ; }} }}",
        f"{a}#{{{b}}} {{ c: d }}", f"a[{a}= {{ b: c }}", f"@keyframes {a} {{ {b}% {{ c: d }} }}",
        f"@supports ({a}: {b} {{ a {{ b: c }} }}", f"a {{ b: calc(1{a} + ) }}", f"a {{ b: U+{a}?? }}",
        f"@at-root ({a}: {b}) {{ a {{ b: c }} }}", f"a {{ --{a}: {{; }}", f"a {{ b: url({a} }}",
    ]
    return rng.choice(T)


def interp_templates(rng):
    """Interpolation-heavy selectors / media queries / at-root / keyframes with a failing tail."""
    v = rng.choice(["$é", "$éé", "$aé", "$😀", "$éa", "$a"])
    alph = ["a", "[", "$", "(", ")", ":", "%", "\\", "é", " ", ",", "&", "+", "1", "n", "-", "=", "]", ">", "~", "*", "."]
    base = len(("#{%s}" % v).encode())
    L = max(0, base + rng.choice([-2, -1, 0, 0, 0, 0, 1, 2, 3]))
    txt = ""
    while len(txt.encode()) < L:
        txt += rng.choice(alph)
    lit = "'" + txt.replace("\\", "\\\\") + "'" if ('"' in txt or "\\" in txt) else '"' + txt + '"'
    D, I = f"{v}: {lit}; ", "#{%s}" % v
    T = ["{D}{I} {{b: c}}", "{D}x{I}y {{b: c}}", "{D}a {{@extend {I}}}", "{D}@keyframes k {{ {I} {{b: c}} }}",
         "{D}@media {I} {{a {{b: c}}}}", "{D}a {{@at-root {I} {{b {{c: d}}}}}}", "{D}a {{@at-root ({I}) {{b {{c: d}}}}}}",
         "{D}a {{b: selector-parse({V})}}", "{D}a {{b: selector-nest({V}, c)}}", "{D}a {{b: is-superselector(c, {V})}}",
         "{D}@media screen and {I} {{a {{b: c}}}}", "{D}.é{I}, {I}é {{b: c}}", "{D}a {{ &{I} {{b: c}} }}",
         "{D}@supports {I} {{a {{b: c}}}}", "{D}a {{ {I}: {I}; b: 1 + }}", "{D}@include {I};", "{D}@at-root {I} {{ {I} }}"]
    return rng.choice(T).format(D=D, I=I, V=v)


def multi_file(rng):
    a, b = rng.choice(MB + ["x"]), rng.choice(MB + ["y"])
    bad = rng.choice([f"a {{\n  /* {a} */ b: 1 +;\n}}\n", f"@mixin m {{ {a}: $nope{b}; }}\n", f"@function f() {{ @error \"{a}{b}\"; }}\n",
                      f".{a} {{ b: c \n", f"@mixin m {{ .{b} {{ @extend .{a}% ; }} }}\n", f"${a}: 1 +;\n"])
    use = rng.choice(["@import", "@import", "@use"])
    main = (f"/* {b}{b} */\n{use} \"dep\"" + (" as *" if use == "@use" else "") + ";\n"
            + rng.choice(["a { @include m; }\n", "a { b: f(); }\n", ".z { c: d }\n"]))
    pad = "".join(rng.choice(MB + ["p"]) for _ in range(rng.randrange(0, 4)))
    files = {"main.scss": main, rng.choice(["_dep.scss", "dep.scss"]): f"// {pad}\n" + bad}
    return {"files": files, "entry": "main.scss", "tag": "multi-file"}



SITE_KINDS = ["used-file-top-level", "used-file-function-called-from-entry", "imported-file-function-called-from-entry",
              "forwarded-file-mixin", "use-with-configuration", "media-query-interpolation", "interpolated-selector",
              "end-of-input", "bom-file", "crlf-file", "multibyte-before-site", "load-css-file",
              "content-block-run-by-other-file", "extend-in-imported-file", "indented-syntax-dependency",
              "plain-css-import"]


def site_cases(rng, n):
    """Errors whose *site* is of a named kind (round 3, item 3): where the failing construct sits relative to
    the entry file, to interpolation, to the end of the input and to byte/character differences.  Each case
    goes through every check of `run_failing`; per kind the evidence counts how often the location predicate
    was evaluated (and held) on grass's own error and which file was blamed."""
    out = []
    for i in range(n):
        kind = SITE_KINDS[i % len(SITE_KINDS)]
        a, b = rng.choice(MB + ["x"]), rng.choice(MB + ["y"])
        pad = "".join(rng.choice(MB + ["p", " "]) for _ in range(rng.randrange(0, 5)))
        head = rng.choice(["", f"// {pad}\n", f"/* {pad} */ ", f"/* {pad} */\n\n"])
        bad_expr = rng.choice(["1 + ", "$nope", f'"{a}" * 2', "(1 / 0) + 1px + 1em", "f(", f"${a}{b}", "1px + 1s", "map-get(1, 2)"])
        files, want = None, None
        if kind == "used-file-top-level":
            files = {"main.scss": f'{head}@use "dep";\na {{ b: c }}\n', "_dep.scss": f"{head}a {{\n  b: {bad_expr};\n}}\n"}
            want = "_dep.scss"
        elif kind == "used-file-function-called-from-entry":
            files = {"main.scss": f'{head}@use "dep";\na {{ b: dep.f({rng.randrange(3)}); }}\n',
                     "_dep.scss": f"{head}@function f($v) {{\n  $w: {bad_expr};\n  @return $w;\n}}\n"}
            want = "_dep.scss"
        elif kind == "imported-file-function-called-from-entry":
            files = {"main.scss": f'{head}@import "dep";\n.{a} {{ b: f({rng.randrange(3)}); }}\n',
                     "_dep.scss": f"{head}@function f($v) {{ @if $v == 1 {{ @return 1; }} @return {bad_expr}; }}\n"}
            want = "_dep.scss"
        elif kind == "forwarded-file-mixin":
            files = {"main.scss": f'{head}@use "mid" as *;\na {{ @include m; }}\n', "_mid.scss": f'{head}@forward "dep";\n',
                     "_dep.scss": f"{head}@mixin m {{ {a}: {bad_expr}; }}\n"}
            want = "_dep.scss"
        elif kind == "use-with-configuration":
            v = rng.randrange(4)
            main = [f'@use "dep" with ($nope: 1);', f'@use "dep" with ($c: {bad_expr});', '@use "dep" with ($c: 1, $c: 2);',
                    f'@use "dep" with ($c: "{a}");\na {{ b: dep.$c + {bad_expr}; }}'][v]
            files = {"main.scss": head + main + "\n", "_dep.scss": f"{head}$c: 0 !default;\n.{b} {{ d: $c }}\n"}
            want = "main.scss"
        elif kind == "media-query-interpolation":
            q = rng.choice([f'"{a}["', f'"({a}: "', '"screen and"', f'"not {a} and ("', '"(a: b) or"', f"'{a},,'"])
            files = {"main.scss": f"{head}$q: {q};\n@media #{{$q}}{rng.choice(['', ' and (min-width: 1px)'])} {{ a {{ b: c }} }}\n"}
            want = "main.scss"
        elif kind == "interpolated-selector":
            q = rng.choice([f'"{a}[,"', f'"{a},,"', '"> >"', f'":not({a}"', f'"{a}::"', '"%"', f'".{a}("'])
            files = {"main.scss": f"{head}$q: {q};\n{rng.choice(['a', '.' + b, ''])}#{{$q}} {{ b: c }}\n"}
            want = "main.scss"
        elif kind == "end-of-input":
            tail = rng.choice(["a { b: c", f'a {{ b: "{a}', "@if true {", f"/* {a}", "a { b: (1 + ", "@function f() {", f"a {{ b: url({a}",
                               f".{a} {{ @include m(", f"@mixin m {{ .{b} {{", "a { b: c; }\n@media", "$x: (a: 1, b:", "@use", f"a[{a}", f"a {{ b: #{{{a}"])
            files = {"main.scss": head + tail + rng.choice(["", "\n", " ", "\r\n"])}
            want = "main.scss"
        elif kind == "bom-file":
            files = {"main.scss": "\ufeff" + f"{head}a {{\n  b: {bad_expr};\n}}\n"}
            want = "main.scss"
        elif kind == "crlf-file":
            files = {"main.scss": f"{head}a {{\n  /* {a} */ b: {bad_expr};\n}}\n".replace("\n", "\r\n")}
            want = "main.scss"
        elif kind == "multibyte-before-site":
            files = {"main.scss": f'{head}.{a}{b} {{ {a}-{b}: "{pad}" + {bad_expr}; }}\n'}
            want = "main.scss"
        elif kind == "load-css-file":
            files = {"main.scss": f'{head}@use "sass:meta";\na {{ @include meta.load-css("dep"); }}\n',
                     "_dep.scss": f"{head}.{a} {{ b: {bad_expr}; }}\n"}
            want = "_dep.scss"
        elif kind == "content-block-run-by-other-file":
            files = {"main.scss": f'{head}@use "dep";\n@include dep.m {{\n  .{a} {{ b: {bad_expr}; }}\n}}\n',
                     "_dep.scss": f"{head}@mixin m {{ .{b} {{ @content; }} }}\n"}
            want = "main.scss"
        elif kind == "extend-in-imported-file":
            files = {"main.scss": f'{head}@import "dep";\n', "_dep.scss": f"{head}.{a} {{ @extend {rng.choice(['.' + b + ' .c', b + ' > d', '.' + b + ':not(', ''])}; }}\n"}
            want = "_dep.scss"
        elif kind == "indented-syntax-dependency":
            files = {"main.scss": f'{head}@import "dep";\n', "_dep.sass": f"// {pad}\n.{a}\n  b: {bad_expr}\n"}
            want = "_dep.sass"
        else:
            files = {"main.scss": f'{head}@import "dep";\n', "dep.css": f"/* {pad} */\n.{a} {{ b: {rng.choice(['$x', '1 + 1', '#{1}', 'f($y)'])}; @include m; }}\n"}
            want = "dep.css"
        out.append({"files": files, "entry": "main.scss", "tag": "site:" + kind, "want_file": want})
    return out


LONG_TARGETS = [80, 120, 128, 200, 256, 1000, 4096]
WIDE = {2: ["é", "ü", "ж"], 3: ["€", "日", "ก"], 4: ["😀", "𝒳", "🜂"]}


def long_line_cases(rng, n):
    """ONE long source line (about 80/120/128/200/256/1000/4096 bytes or random) filled with 2-, 3- or
    4-byte characters after 0-3 bytes of ASCII shift, so that every byte offset near those lengths falls
    inside a character for some case; the error sits before, inside or after the long run, on the first
    or on a later line.  The renderer must show the whole line (tie: Display == model render)."""
    out = []
    k = 0
    while len(out) < n:
        T = LONG_TARGETS[k % len(LONG_TARGETS)] if k % 8 != 7 else rng.randrange(60, 3000)
        w = [2, 3, 4][(k // len(LONG_TARGETS)) % 3] if rng.random() < 0.75 else 0
        shift = (k // (3 * len(LONG_TARGETS))) % 4 if rng.random() < 0.8 else rng.randrange(0, 9)
        k += 1
        fill = "a" * shift
        while len(fill.encode()) < T + rng.choice([0, 3, 9, 40]):
            fill += rng.choice(WIDE[w] if w else WIDE[rng.choice([2, 3, 4])] + ["z"])
        half = fill[: len(fill) // 2]
        where = rng.randrange(7)
        if where == 0:
            line = f'@error "x{fill}";'
        elif where == 1:
            line = f'a {{ b: 1 + ; c: "{fill}"; }}'                    # error before the run
        elif where == 2:
            line = f'a {{ b: "{half}" + $u + "{fill}"; }}'              # inside
        elif where == 3:
            line = f'a {{ c: "{fill}"; b: 1 + }}'                      # after
        elif where == 4:
            line = f"/* {fill} */ a {{ b: $x }}"
        elif where == 5:
            line = f".{fill} {{ b: c(}}"
        else:
            line = f'@debug "{half}"; @error {half};'
        pre = rng.choice(["", "", "// é\n", "\n\n", "x { y: z }\r\n"])
        post = rng.choice(["", "\n", "\n/* € */\n"])
        out.append({"src": pre + line + post, "tag": "long-line"})
    return out


def relex_cases(rng, n):
    """`SEL{b: c}` / `SEL {b: c}` with SEL ending in `[`: "Expected identifier." at the end of the
    re-lexed selector; the span is predicted by the model (`diag relex textdiff … idx=len`)."""
    out = []
    for _ in range(n):
        pre = "".join(rng.choice(["a", "é", ".b", " ", "€", "x-y", "😀"]) for _ in range(rng.randrange(0, 4))).strip()
        post = "".join(rng.choice(["c", "é", ".d", "ü"]) for _ in range(rng.randrange(0, 3)))
        mode = rng.randrange(4)
        v = rng.choice(["$v", "$é", "$éa"])
        val = "".join(rng.choice(["a", "é", "b", "€"]) for _ in range(rng.randrange(0, 6)))
        decl, interp = "", ""
        if mode == 1:
            decl, interp = f'{v}: "{val}"; ', "#{%s}" % v
        elif mode == 2:                                   # value reproduces the interpolation source itself
            decl, interp, val = f'{v}: "\\#{{{v}}}"; ', "#{%s}" % v, "#{%s}" % v
        else:
            val = ""
        if not (pre or post or interp):
            pre = "a"
        if not pre and interp:
            pass
        sel_src = pre + interp + post + "["
        gap = rng.choice(["", "", " ", "  "])
        src = decl + sel_src + gap + "{b: c}"
        text = pre + val + post + "["
        lo = len(decl.encode())
        hi = lo + len((sel_src + gap).encode())
        # where the parser stops: at the end of the text (index past the end -> last token), except
        # when the text literally contains `#{` — then `#` starts an id selector and the identifier is
        # missing at `{`, one token after the `#`
        idx = len(pre) + 1 if mode == 2 else len(text) + 5
        out.append({"src": src, "tag": "relex", "relex": (lo, hi, text, idx)})
    return out


def gen_failing(ck, tier, cs):
    rng = ck.rng
    quick = tier == "quick"
    cases = [dict(c) for c in CORPUS_FAILING]
    for expr, want in ERROR_TABLE:
        cases.append({"src": f"a {{\n  @error {expr};\n}}\n", "tag": "error-table", "message": want})
    for c in cs:
        if c["kind"] == "error":
            cases.append({"src": c["input"], "syntax": c["options"].get("syntax"), "tag": "corpus-error"})
    pool_inputs = [c for c in cs if "@while" not in c["input"] and len(c["input"]) < 600]
    n_mut = 1700 if quick else 80000
    for _ in range(n_mut):
        c = rng.choice(pool_inputs)
        s = c["input"]
        for _ in range(rng.choice([1, 1, 2, 3])):
            s = mutate(rng, s)
        cases.append({"src": s, "syntax": c["options"].get("syntax"), "tag": "mutation"})
    # truncation at every prefix / bracket imbalance for small inputs
    small = [c for c in pool_inputs if len(c["input"]) <= 60]
    for c in rng.sample(small, min(len(small), 25 if quick else 250)):
        s = c["input"]
        for i in range(1, len(s)):
            cases.append({"src": s[:i], "syntax": c["options"].get("syntax"), "tag": "prefix"})
    for c in rng.sample(pool_inputs, min(len(pool_inputs), 150 if quick else 3000)):
        s = c["input"]
        for ch in "{}()[]":
            if ch in s:
                i = rng.choice([m.start() for m in re.finditer(re.escape(ch), s)])
                cases.append({"src": s[:i] + s[i + 1:], "syntax": c["options"].get("syntax"), "tag": "bracket"})
                break
    for _ in range(300 if quick else 8000):
        cases.append({"src": mb_templates(rng), "tag": "multibyte"})
    for _ in range(500 if quick else 15000):
        cases.append({"src": interp_templates(rng), "tag": "interp"})
    for _ in range(100 if quick else 2000):
        cases.append(multi_file(rng))
    cases += site_cases(rng, 480 if quick else 8000)
    cases += relex_cases(rng, 250 if quick else 5000)
    cases += long_line_cases(rng, 340 if quick else 6000)
    return cases


def msg_class(m):
    return re.sub(r"[\"'`$].*|\d+", "…", m)[:32]


def case_job(c, unicode):
    if "files" in c:
        return compile_job(files=c["files"], entry=c["entry"], unicode=unicode)
    return compile_job(c["src"], syntax=c.get("syntax"), unicode=unicode)


def file_text(c, name):
    """Text of the file grass names, as python sees it (None if no such file was given)."""
    if "files" not in c:
        return c["src"] if name == "stdin" else None
    v = c["files"].get(name)
    if v is None:
        return None
    if isinstance(v, dict):
        try:
            return bytes.fromhex(v["hex"]).decode("utf-8")
        except ValueError:
            return None
    return v


def case_text(c):
    return c["src"] if "src" in c else json.dumps({"files": c["files"], "entry": c["entry"]}, sort_keys=True, ensure_ascii=False)


SKIPPED = {"status": "skipped"}


def run_failing(ck, pool, cases, failing, ascii_every=1):
    """Every case is compiled in Unicode mode; in ASCII mode too when `ascii_every` == 1 (quick tier),
    else for every `ascii_every`-th mutation-family case and for every case of the other families."""
    jobs, slot = [], []
    for i, c in enumerate(cases):
        both = ascii_every == 1 or i % ascii_every == 0 or c["tag"] not in ("mutation", "prefix", "bracket")
        slot.append((len(jobs), len(jobs) + 1 if both else None))
        jobs.append(case_job(c, True))
        if both:
            jobs.append(case_job(c, False))
    answers = map_confirm(pool, jobs, 5, 20)
    lines, where = [], []
    verdict_rows = []
    for i, c in enumerate(cases):
        a1 = answers[slot[i][0]]
        a0 = answers[slot[i][1]] if slot[i][1] is not None else SKIPPED
        row = {"case": c, "problems": [], "ans": (a1, a0)}
        verdict_rows.append(row)
        for u, a in ((True, a1), (False, a0)):
            st = a.get("status")
            if st != "err" or a.get("err", {}).get("kind") != "parse":
                continue
            e = a["err"]
            text = file_text(c, e["file"])
            if text is None:
                row["problems"].append({"what": "the error names a file that was not loaded", "file": e["file"]})
                continue
            if len(text.encode()) != e["file_len"]:
                row["problems"].append({"what": "the named file's length is not that of the loaded text",
                                        "file": e["file"], "file_len": e["file_len"]})
                continue
            loc = f"{e['begin_line']} {e['begin_col']} {e['end_line']} {e['end_col']}"
            where.append((i, u, "locok"))
            lines.append(f"diag locok {hexs(text)} {loc}")
            where.append((i, u, "render"))
            lines.append(f"diag render {1 if u else 0} {hexs(e['message'])} {hexs(e['file'])} {hexs(text)} {loc}")
        if "relex" in c:
            lo, hi, text, idx = c["relex"]
            where.append((i, None, "relex"))
            lines.append(f"diag relex textdiff {hexs(c['src'])} {lo} {hi} {hexs(text)} {idx}")
    outs = driver(lines) if lines else []
    for (i, u, what), o in zip(where, outs):
        row = verdict_rows[i]
        a = row["ans"][0 if u in (True, None) else 1]
        if what == "locok":
            if o == "ok 1" and u:
                ck.located[msg_class(a["err"]["message"])] += 1
                tg = row["case"]["tag"]
                if tg.startswith("site:"):
                    ck.sites[tg[5:]] += 1
                    ck.hist("error-site:" + tg[5:] + ":blamed=" + ("expected file" if a["err"]["file"] == row["case"].get("want_file") else a["err"]["file"]))
            if o != "ok 1":
                row["problems"].append({"what": "location is not a pair of positions of the named file, in order "
                                                "(spanLocOk false)", "unicode": u, "err": a.get("err"), "driver": o})
        elif what == "render":
            disp = a.get("display")
            want = unhex(o.split(" ", 1)[1]) if o.startswith("ok ") and o != "ok no-such-line" else None
            if want is None or disp != want:
                ck.cov["model_disagreements"] += 1
                row["problems"].append({"what": "Display output differs from the model's rendering", "unicode": u,
                                        "display": disp, "model": want or o, "tie": True})
        elif what == "relex":
            m = re.match(r"ok span \d+ \d+ (\d+) (\d+) (\d+) (\d+) ([01])$", o)
            e = a.get("err") or {}
            if a.get("status") == "err" and e.get("message") == "Expected identifier." and m:
                got = (e["begin_line"], e["begin_col"], e["end_line"], e["end_col"])
                ck.hist("relex:expanded=" + m.group(5))
                if got != tuple(int(x) for x in m.groups()[:4]):
                    ck.cov["model_disagreements"] += 1
                    row["problems"].append({"what": "span of the error at the end of re-lexed selector text differs "
                                                    "from the model (Lexer.ofString/spanAtIndex)", "impl": got,
                                            "model": o, "tie": True})
            else:
                ck.hist("relex:other-outcome")
    for row in verdict_rows:
        c, (a1, a0) = row["case"], row["ans"]
        tag = c["tag"]
        kinds = c.get("kinds", ("parse",))
        sts = (a1.get("status"), a0.get("status"))
        nontrivial = False
        for u, a in ((True, a1), (False, a0)):
            st = a.get("status")
            if st == "panic":
                p = a.get("panic") or ""
                if DIAG_PANIC.search(p):
                    row["problems"].append({"what": "panic in the diagnostics path", "unicode": u, "panic": p[:400]})
                else:
                    ck.hist("failing:panic-outside-diagnostics")
                    key = re.sub(r"\d+", "N", p[:80])
                    if key not in ck.other_panics:
                        ck.other_panics[key] = {"panic": p[:300], "input": case_text(c)[:300]}
            elif st == "err":
                e = a.get("err", {})
                if e.get("kind") not in kinds:
                    row["problems"].append({"what": f"error kind {e.get('kind')} (expected one of {kinds})",
                                            "unicode": u, "err": e})
                if e.get("kind") == "parse":
                    nontrivial = True
                    if e.get("unicode") != u:
                        row["problems"].append({"what": "error does not carry the requested unicode mode", "unicode": u})
                    d = a.get("display") or ""
                    if not d.startswith("Error: " + e["message"] + "\n"):
                        row["problems"].append({"what": "rendering does not start with `Error: <message>`",
                                                "unicode": u, "display": d[:300]})
                    if not u and re.search("[╷│╵]", d.replace(e["message"], "")) and not re.search("[╷│╵]", case_text(c)):
                        row["problems"].append({"what": "box-drawing characters in ASCII mode", "display": d[:300]})
                elif e.get("kind") in ("utf8", "io"):
                    if not (a.get("display") or "").startswith("Error: "):
                        row["problems"].append({"what": "rendering does not start with `Error: `", "unicode": u})
                if "message" in c and e.get("message") != c["message"]:
                    row["problems"].append({"what": "@error does not report the inspected value",
                                            "got": e.get("message"), "expected": c["message"]})
                if tag == "multi-file" and e.get("kind") == "parse":
                    ck.hist("multi-file:blamed=" + ("entry" if e.get("file") == "main.scss" else "imported"))
            elif st == "timeout":
                ck.hist("failing:timeout")
            elif st == "abort":
                # the worker process died (SIGABRT = stack overflow of an unbounded @include/@function
                # recursion a mutation made unconditional): termination/resources are C01's concern
                ck.hist("failing:abort(process died; C01)")
                if len(ck.aborts) < 5:
                    ck.aborts.append({"why": a.get("why"), "input": case_text(c)[:400]})
            elif st not in ("ok", "skipped"):
                row["problems"].append({"what": f"runner status {st}", "detail": str(a)[:300]})
            if a.get("captured"):
                row["problems"].append({"what": "library wrote to fd 1/2 with a custom logger", "unicode": u,
                                        "captured": a["captured"][:300]})
        if a1.get("status") == "err" and a0.get("status") == "err":
            e1, e0 = dict(a1.get("err", {})), dict(a0.get("err", {}))
            e1.pop("unicode", None), e0.pop("unicode", None)
            if e1 != e0:
                row["problems"].append({"what": "error differs between the unicode modes", "unicode_err": e1, "ascii_err": e0})
        if tag in ("corpus-error", "error-table") or c.get("tag") in ("D19", "D23", "D24"):
            if "err" not in sts and "panic" not in sts:
                ck.hist("failing:expected-error-but-" + str(sts[0]))
        ck.count(("fail", case_text(c), c.get("syntax")), nontrivial)
        ck.hist("failing:gen=" + tag)
        ck.hist("failing:status=" + str(sts[0]))
        if a1.get("status") == "err" and a1.get("err", {}).get("kind") == "parse":
            ck.msgs[msg_class(a1["err"]["message"])] += 1
            if a1["err"]["begin_line"] != a1["err"]["end_line"]:
                ck.hist("failing:multi-line-span")
            if any(ord(ch) > 127 for ch in (file_text(c, a1["err"]["file"]) or "").split("\n")[a1["err"]["begin_line"]]):
                ck.hist("failing:non-ascii-on-error-line")
        if row["problems"]:
            failing.append({"source": case_text(c), "syntax": c.get("syntax"), "tag": tag, "problems": row["problems"],
                            "size": len(case_text(c)), "case": {k: v for k, v in c.items() if k in ("src", "files", "entry", "syntax")}})
        elif len(ck.cov["samples"]) < 8 and tag in ("multi-file", "interp", "relex") and nontrivial and ck.rng.random() < 0.02:
            ck.sample({"kind": tag, "input": case_text(c)[:300], "err": a1.get("err"), "display": a1.get("display")})


# ----------------------------------------------------------------------------------------------
# part C — direct-only: nothing but the Logger, whatever is compiled
# ----------------------------------------------------------------------------------------------
def std_text_of(logs):
    return [(l["kind"], l["file"], l["line"], l["col"], l["msg"]) for l in logs]


def run_capture(ck, pool, items, failing, label):
    """items: (key, job) — compiled loud and quiet with the collecting logger and, for every 3rd item,
    with StdLogger.  Required: nothing on fd 1/2 with the collecting logger; under quiet no log events
    and nothing on fd 1/2 with either logger; the same result and CSS whatever the logger/quiet; with
    StdLogger stderr is exactly the StdLogger rendering of the events the collecting logger received."""
    jobs, meta = [], []
    for idx, (key, job) in enumerate(items):
        jq = json.loads(json.dumps(job))
        jq.setdefault("options", {})["quiet"] = True
        js = [job, jq]
        if idx % 3 == 0:
            js += [std_job(job), std_job(jq)]
        meta.append((key, job, len(jobs), len(js)))
        jobs += js
    answers = map_confirm(pool, jobs, 8, 30)
    for key, job, off, nj in meta:
        loud, quiet = answers[off], answers[off + 1]
        problems = []
        if any(a.get("status") in ("timeout", "abort") for a in answers[off:off + nj]):
            ck.hist(label + ":timeout-or-abort")
            continue
        for a in answers[off:off + nj]:
            if a.get("status") == "panic" and DIAG_PANIC.search(a.get("panic") or ""):
                problems.append({"what": "panic in the diagnostics path", "panic": (a.get("panic") or "")[:300]})
        if loud.get("captured"):
            problems.append({"what": "library wrote to fd 1/2 although a custom Logger is installed",
                             "captured": loud["captured"][:400]})
        if quiet.get("captured"):
            problems.append({"what": "library wrote to fd 1/2 under quiet (custom Logger)", "captured": quiet["captured"][:400]})
        if quiet.get("logs"):
            problems.append({"what": "events reached the Logger under quiet", "events": quiet["logs"][:5]})
        if loud.get("status") == "ok" and quiet.get("status") == "ok" and loud.get("css") != quiet.get("css"):
            problems.append({"what": "CSS differs between quiet and not quiet"})
        if nj == 4:
            s_loud, s_quiet = answers[off + 2], answers[off + 3]
            if s_quiet.get("captured"):
                problems.append({"what": "something was written to fd 1/2 under quiet (StdLogger)",
                                 "captured": s_quiet["captured"][:400]})
            if (s_loud.get("status"), s_loud.get("css")) != (loud.get("status"), loud.get("css")):
                problems.append({"what": "result differs between StdLogger and custom logger"})
            if loud.get("status") != "panic" and not expected_stderr_ok(std_text_of(loud.get("logs", [])), s_loud.get("captured", "")):
                problems.append({"what": "with StdLogger, stderr is not exactly the StdLogger rendering of the logged events "
                                         "(something else wrote to fd 1/2)",
                                 "captured": s_loud.get("captured", "")[:600], "events": loud.get("logs", [])[:6]})
        n_ev = len(loud.get("logs", []))
        ck.count((label, key), n_ev > 0 or loud.get("status") == "ok")
        ck.hist(f"{label}:status={loud.get('status')}")
        ck.hist(f"{label}:events=" + ("0" if n_ev == 0 else "1+"))
        if problems:
            src = job.get("input") if "input" in job else json.dumps({"files": job.get("files"), "entry": job.get("entry")},
                                                                     sort_keys=True, ensure_ascii=False)
            failing.append({"source": src, "tag": label, "problems": problems, "size": len(src), "capture_job": job})


def corpus_jobs(cs):
    items = []
    for c in cs:
        o = {k: v for k, v in c["options"].items() if k in ("syntax", "style", "charset", "unicode")}
        items.append((c["file"] + ":" + c["name"], compile_job(c["input"], **o)))
    return items


def construct_program(rng):
    """Programs over constructs OUTSIDE the trace model (direct-only): @elseif / @else if chains, @each,
    @while, @use/@forward, meta.load-css($with:), slash division, @import of css, global-function forms,
    an indented-syntax dependency — each with @debug/@warn sprinkled in."""
    n = lambda: rng.randrange(0, 4)
    files = {}
    uses, body = [], []
    msg = lambda: rng.choice(['"s1"', "2", '"é"', "$a", "(1, 2)", "a b"])
    for _ in range(rng.choice([2, 3, 4, 5])):
        k = rng.randrange(13)
        if k == 0:
            body += [f"$a: {n()};", f"@if $a == 0 {{ @debug {msg()}; }} @elseif $a == 1 {{ @warn {msg()}; }} "
                     f"@else if $a == 2 {{ @debug 3; }} @else {{ @warn {msg()}; }}"]
        elif k == 1:
            body += [f"$a: {n()};", f"@if $a > 1 {{\n  @warn {msg()};\n}}\n@elseif $a == 1 {{\n  @debug {msg()};\n}}"]
        elif k == 2:
            body += ["$a: 0;", f"@each $k, $v in (a: 1, b: 2, c: {n()}) {{ @debug $k; @warn $v; }}"]
        elif k == 3:
            body += [f"$i: 0; $a: 1;", f"@while $i < {n()} {{ @debug $i; $i: $i + 1; @warn {msg()}; }}"]
        elif k == 4:
            files["_lib.scss"] = f'$x: {n()};\n@mixin m {{ @warn "in lib"; }}\n@debug "loading lib";\n@function g($v) {{ @if $v == 1 {{ @return 1; }} @elseif $v == 2 {{ @return 2; }} @return 0; }}\n'
            uses.append('@use "lib";')
            body += ["@debug lib.$x;", "a { @include lib.m; b: lib.g(2); }"]
        elif k == 5:
            files["_fw.scss"] = '@forward "fwd";\n@warn "forwarding";\n'
            files["_fwd.scss"] = f'$y: {n()};\n@debug $y;\n@mixin n {{ @debug "n"; }}\n'
            uses.append('@use "fw" as *;')
            body += ["@debug $y;", "b { @include n; }"]
        elif k == 6:
            files["_other.scss"] = f'$c: 0 !default;\n@debug $c;\nc {{ d: $c; }}\n'
            uses.append('@use "sass:meta";')
            body += [rng.choice(['a { @include meta.load-css("other", $with: (c: 1)); }', '@include meta.load-css("other");'])]
        elif k == 7:
            uses.append('@use "sass:math";')
            body += [f"a {{ b: (10px / 2); c: math.div(4, 2); d: 6px / 3px; $z: 8 / {1 + n()}; e: $z; @debug $z; }}"]
        elif k == 8:
            files["plain.css"] = "p { q: r }\n"
            body += [rng.choice(['@import "plain";', '@import "plain.css";', "@import url(foo.css);", '@import "x" screen;'])]
        elif k == 9:
            body += ['a { b: map-get((k: 1), k); c: str-index("abc", "b"); d: percentage(0.5); e: lighten(#000, 10%); '
                     'f: call(get-function("abs"), -1); g: unquote("x"); h: nth(1 2, 1); @debug map-merge((a: 1), (b: 2)); }']
        elif k == 10:
            body += [f"@function f($x) {{ @if $x > 0 {{ @return 1; }} @elseif $x < 0 {{ @warn {msg() if False else 3}; @return -1; }} @return 0; }}",
                     f"@debug f({n() - 2});"]
        elif k == 11:
            files["_ind.sass"] = f"$a: {n()}\n@if $a == 0\n  @debug 1\n@elseif $a == 1\n  @warn 2\n@else if $a == 2\n  @debug 3\n@else\n  @warn 4\n"
            body += ['@import "ind";']
        else:
            body += [f"a {{ @debug &; &:hover {{ @warn {msg()}; }} @media screen {{ @debug 1; }} @at-root b {{ @warn 2; }} }}"]
    if not any(l.startswith("$a:") for l in body):
        body.insert(0, "$a: 1;")
    else:
        body.insert(0, "$a: 5;")
    files["main.scss"] = "\n".join(dict.fromkeys(uses)) + ("\n" if uses else "") + "\n".join(body) + "\n"
    return files


def construct_jobs(rng, n):
    items = []
    for i in range(n):
        files = construct_program(rng)
        items.append((json.dumps(files, sort_keys=True), compile_job(files=files, entry="main.scss")))
    return items


# ----------------------------------------------------------------------------------------------
def run(tier, seed):
    ck = Check("C19", tier, seed)
    ck.other_panics = {}
    ck.msgs = collections.Counter()
    ck.located = collections.Counter()
    ck.sites = collections.Counter()
    ck.aborts = []
    ck.cov["rule"] = (
        "failing inputs: regression corpus (D19/D23/D24), @error table, every golden `error!` case, token-level "
        "mutations of golden inputs (delete/duplicate/truncate/insert bracket, multi-byte character or interpolation/"
        "swap), every prefix of small inputs, bracket removal, templates with multi-byte characters around the error "
        "site, interpolation-heavy selectors/@media/@at-root/@keyframes/@extend/selector functions with values of "
        "about the byte length of their source, two-file projects failing in the imported file, re-lexed selectors "
        "ending in `[`; each compiled in BOTH unicode modes. Logging programs: random projects (1-5 files: entry, "
        "imported files, module files; the last one possibly in a directory) over {@debug,@warn,@error,@for to/through "
        "both directions,@each over literal lists,counting @while,@if/@else,style rule,@mixin/@include (with argument, "
        "with content block/@content),@function/call,values `a b` with two calls,@import (repeated, nested in a style "
        "rule),@use as */@forward (several times the same file),undefined variable/mixin, content block to a mixin "
        "without @content} printed in varying lay-outs (LF/CRLF, tab/space indentation, comment or statement with "
        "multi-byte characters before the directive on its line, blanks/tab/comments/line breaks between the name and "
        "the value, line breaks inside the value) x quiet off/on (+ StdLogger for every 4th); compared: outcome and the "
        "exact ordered list of (kind, file, line, column, message). "
        "A case is distinct by its text (failing) or token stream (logging); non-trivial = grass reported a located "
        "error (failing) / the model's trace has at least one event (logging).")
    ck.assumptions = [
        "a directive is identified by the byte offset of its `@` in its file (the key of the trace theorems); line and "
        "column of its value are computed by the model from the file's text (exprStart/eventLoc)",
        "file names as the runner's in-memory Fs reports them; `stdin` for from_string",
        "panics outside the diagnostics path (not in codemap/lexer.rs/error.rs/lib.rs), worker aborts (stack overflow "
        "of unbounded recursion) and timeouts are C01's concern: counted and listed under notes, not judged here",
        "grass reports the place of the directive's *value* (parse/stylesheet.rs:397-404,1394-1401), which may be on a "
        "later line than the `@`; only the begin of the span is observable through the runner's Logger",
        "mixin/function names are unique in a generated project; @use only `as *` without `with`; imported files do not "
        "@use; an `Undefined variable` inside a value is only generated in values printed on the directive's line",
    ]
    t0 = time.time()
    ck.do_prove(cores=("diag",))
    t1 = time.time()
    ok = ck.do_build_runner()
    ck.cov["phase_wall_s"] = {"prove(lake build, scan, axiom audit; includes waiting for the shared build lock)": round(t1 - t0, 1),
                              "build_runner(cargo; includes waiting for the shared lock)": round(time.time() - t1, 1)}
    if not ok:
        ck.unproved("correspondence-broken", {"why": "runner does not build against /repo", "error": getattr(ck, "build_error", "")})
        return ck.finish()
    pool = RunnerPool()
    cs, _ = corpus.load()
    failing = []
    cases = gen_failing(ck, tier, cs)
    t2 = time.time()
    B = 20000
    for off in range(0, len(cases), B):
        run_failing(ck, pool, cases[off:off + B], failing, ascii_every=1 if tier == "quick" else 3)
        log(f"[C19] failing inputs: {min(off + B, len(cases))}/{len(cases)} done, {len(failing)} failing")
    t3 = time.time()
    ck.cov["phase_wall_s"]["failing inputs"] = round(t3 - t2, 1)
    n_prog = 1500 if tier == "quick" else 20000
    for off in range(0, n_prog, 10000):
        run_logging(ck, pool, min(10000, n_prog - off), failing, first=(off == 0))
        log(f"[C19] logging programs: {min(off + 10000, n_prog)}/{n_prog} done, {len(failing)} failing")
    t4 = time.time()
    ck.cov["phase_wall_s"]["logging programs"] = round(t4 - t3, 1)
    run_capture(ck, pool, corpus_jobs(cs), failing, "golden-capture")
    run_capture(ck, pool, construct_jobs(ck.rng, 600 if tier == "quick" else 12000), failing, "constructs-capture")
    ck.cov["phase_wall_s"]["golden corpus + construct programs (capture/quiet, direct-only)"] = round(time.time() - t4, 1)
    log(f"[C19] phases: {ck.cov['phase_wall_s']}")
    if ck.aborts:
        ck.notes.append({"worker aborts, not judged here (C01)": ck.aborts})
    for m, n in ck.msgs.most_common(30):
        ck.hist("failing:msg=" + m, n)
    ck.hist("failing:distinct-message-classes", len(ck.msgs))
    # item 3: per error-message class / per error-site kind, how often the Lean location predicate (inside the
    # named file, on positions of its text, begin <= end) was evaluated on grass's own error and held
    ck.cov["location_predicate_held_per_message_class"] = dict(ck.located.most_common())
    ck.cov["location_predicate_held_per_error_site_kind"] = {k: ck.sites.get(k, 0) for k in SITE_KINDS}
    ck.cov["error_site_kinds_never_hit"] = [k for k in SITE_KINDS if not ck.sites.get(k)]
    def direct_failures():
        return [f for f in failing if any(not p.get("tie") for p in f["problems"])]

    if (not ck.proof["ok"] or ck.cov["model_disagreements"]) and not direct_failures() and tier == "quick":
        # a theorem or the tie no longer checks but no input fails the property itself: enlarge the search
        log("[C19] proof or correspondence broken: enlarging the search")
        for _ in range(3):
            run_failing(ck, pool, gen_failing(ck, "quick", cs)[len(CORPUS_FAILING) + len(ERROR_TABLE):], failing)
        run_logging(ck, pool, 4000, failing, first=False)
    if ck.other_panics:
        ck.notes.append({"panics_outside_diagnostics (C01)": list(ck.other_panics.values())[:10]})
    failing.sort(key=lambda f: f["size"])
    reported = 0
    tie_only = []
    for f in failing:
        direct = [p for p in f["problems"] if not p.get("tie") and not p["what"].startswith("trace/outcome differs")]
        if direct or any(p["what"].startswith("trace/outcome differs") for p in f["problems"]):
            if ck.impl_violation(f.get("source"), f, tags=[f.get("tag", "")]):
                reported += 1
        else:
            tie_only.append(f)
    if (tie_only or ck.cov["model_disagreements"]) and not reported:
        ck.unproved("correspondence-broken", {"correspondence": "renderer / re-lexed span / logger trace: model vs grass",
                                              "cases": (tie_only or failing)[:3]})
    return ck.finish()


def replay(path):
    r = json.load(open(path))
    ck = Check("C19", "quick", 0)
    ck.other_panics = {}
    ck.msgs = collections.Counter()
    ck.located = collections.Counter()
    ck.sites = collections.Counter()
    ck.aborts = []
    ck.do_build_runner()
    pool = RunnerPool(2)
    failing = []
    if "program" in r:
        jobs = [compile_job(files=r["files"], entry=r["entry"]), compile_job(files=r["files"], entry=r["entry"], quiet=True)]
        ans = pool.map(jobs, timeout=20)
        outs = driver([f"diag tracex 0 0 {r['program']}", f"diag tracex 1 0 {r['program']}"])
        for lbl, a, o in zip(("loud", "quiet"), ans, outs):
            print(lbl, "grass :", impl_outcome(a), impl_events(a), "captured=", repr(a.get("captured")))
            print(lbl, "model :", o)
    elif "case" in r:
        c = dict(r["case"])
        c.setdefault("tag", r.get("tag", "replay"))
        run_failing(ck, pool, [c], failing)
        print("input:", case_text(c))
        print("verdict:", json.dumps(failing[0]["problems"], indent=1, ensure_ascii=False) if failing else "all checks hold")
    else:
        print(json.dumps(r, indent=1)[:4000])
    return 1 if failing else 0
