"""C08 — units convert by the CSS ratios and unit algebra is consistent.

  translator : tools/translate_units.py regenerates Generated/UnitTable.lean + UnitKinds.lean from
               unit/conversion.rs and unit/mod.rs on every run; the theorems of GrassProofs/C08.lean
               (`C08_table_eq_css` …) are `decide +kernel` over the complete generated table, so a
               changed constant fails the build.
  tie        : exhaustive correspondence — every ordered pair of the 34 known units + an unknown unit +
               unitless (and two different unknown units) x 14 observations x 3 magnitudes, grass's
               printed text / error class compared with the model (`units op`).
  direct     : P̂ on grass's own answer with the hand-written CSS ratios (`units check`, `units comparable`).
"""
import json
import re

import translate_units
from vlib import Check, RunnerPool, compile_job, driver, hexs, unhex, log, known_findings

OPS = ["add", "sub", "lt", "eq", "rem", "min", "max", "div", "mul", "divInspect", "mulInspect", "compatible",
       "unitMul", "unitDiv"]
ERR_OPS_INCOMPAT = {"add", "sub", "lt", "rem", "min", "max"}
MAGS = [("1", "1"), ("3", "7.5"), ("-2.25", "0.1")]
MAGS_THOROUGH = MAGS + [("0", "1"), ("1e5", "0.001"), ("0.3333333333", "-96"), ("123456.789", "2.54")]


def num(lit, unit):
    u = "" if unit == "-" else ("foo" + unit[1:] if unit.startswith("?") else unit)
    s = lit + u
    return f"({s})" if lit.startswith("-") else s


def expr(op, a, b):
    return {"add": f"{a} + {b}", "sub": f"{a} - {b}", "lt": f"{a} < {b}", "eq": f"{a} == {b}", "rem": f"{a} % {b}",
            "min": f"math.min({a}, {b})", "max": f"math.max({a}, {b})", "div": f"math.div({a}, {b})",
            "mul": f"{a} * {b}", "divInspect": f"meta.inspect(math.div({a}, {b}))",
            "mulInspect": f"meta.inspect({a} * {b})", "compatible": f"math.compatible({a}, {b})",
            "unitMul": f"math.unit({a} * {b})", "unitDiv": f"math.unit(math.div({a}, {b}))"}[op]


# ---------------------------------------------------------------------------------------------
# Round 3 (seeded C08-r3m1): DIRECT predicate for < == min max across convertible units, from the
# hand-written CSS ratios (Grass.Units.factorSym: rational x pi^k), independent of the model's runOp.
# ---------------------------------------------------------------------------------------------
from fractions import Fraction
_PI_LO, _PI_HI = Fraction(314159265358979, 10 ** 14), Fraction(314159265358980, 10 ** 14)
_MARGIN = Fraction(1, 10 ** 9)


def spec_factors(pairs):
    """(u, v) -> (q, k): 1 v = q * pi^k u by the CSS ratios, for convertible known units."""
    ps = [(u, v) for (u, v) in pairs if u not in ("-",) and v not in ("-",) and not u.startswith("?") and not v.startswith("?")]
    out = {}
    for (u, v), o in zip(ps, driver([f"units factor {u} {v}" for (u, v) in ps])):
        f = o.split(" ")
        if len(f) == 4 and f[0] == "ok" and f[3].startswith("pi^"):
            out[(u, v)] = (Fraction(f[2]), int(f[3][3:]))
    return out


def spec_order(x, u, y, v, fac):
    """-1 / 0 / 1 when (x u) is decisively below / exactly equal to / above (y v) by the CSS ratios; None when
    too close to call (within 1e-9, i.e. anywhere near the 1e-11 tolerance) or not convertible."""
    if u == v:
        q, k = Fraction(1), 0
    elif (u, v) in fac:
        q, k = fac[(u, v)]
    else:
        return None
    a, b0 = Fraction(x), Fraction(y) * q
    cands = [b0] if k == 0 else ([b0 * _PI_LO, b0 * _PI_HI] if k == 1 else [b0 / _PI_LO, b0 / _PI_HI] if k == -1 else None)
    if cands is None:
        return None
    lo, hi = min(cands), max(cands)
    if lo == hi == a:
        return 0
    if a < lo - _MARGIN:
        return -1
    if a > hi + _MARGIN:
        return 1
    return None


def _unit_of(txt):
    m = re.fullmatch(r"-?[0-9.]+(?:e[-+]?[0-9]+)?([A-Za-z%]*)", txt.strip())
    return m.group(1) if m else None


HEAD = '@use "sass:math";\n@use "sass:meta";\n'
RULE = re.compile(r"i:\s*(\d+);\s*v:\s*([^;}]*?)\s*;?\s*\}")


def source(items):
    return HEAD + "\n".join(f"x{{i:{i}; v: {e}}}" for i, e in items)


def err_class(msg):
    msg = msg or ""
    if msg.startswith("Incompatible units"):
        return "err incompatible"
    if "isn't a valid CSS value" in msg:
        return "err notcss"
    return "err other:" + msg[:80]


def run_impl(pool, cases, model, B=400):
    """cases: list of (op, x, u, y, v, style); -> list of observations"""
    obs = [None] * len(cases)
    ok_idx = [i for i, m in enumerate(model) if m.startswith("ok ")]
    err_idx = [i for i, m in enumerate(model) if not m.startswith("ok ")]
    jobs, meta = [], []
    by_style = {"e": [i for i in ok_idx if cases[i][5] == "e"], "c": [i for i in ok_idx if cases[i][5] == "c"]}
    for st, idxs in by_style.items():
        for off in range(0, len(idxs), B):
            chunk = idxs[off:off + B]
            src = source([(i, expr(cases[i][0], num(cases[i][1], cases[i][2]), num(cases[i][3], cases[i][4]))) for i in chunk])
            jobs.append(compile_job(src, style="compressed" if st == "c" else None, syntax="scss"))
            meta.append((chunk, st))
    for i in err_idx:
        c = cases[i]
        jobs.append(compile_job(source([(i, expr(c[0], num(c[1], c[2]), num(c[3], c[4])))]),
                                style="compressed" if c[5] == "c" else None, syntax="scss"))
        meta.append(([i], c[5]))
    answers = pool.map(jobs, timeout=60)
    retry = []
    for (chunk, st), ans in zip(meta, answers):
        if ans.get("status") == "ok":
            found = {int(m.group(1)): m.group(2) for m in RULE.finditer(ans.get("css") or "")}
            for i in chunk:
                obs[i] = ("ok " + found[i]) if i in found else "status missing-rule"
        elif len(chunk) == 1:
            i = chunk[0]
            obs[i] = err_class(ans.get("err", {}).get("message")) if ans.get("status") == "err" else \
                f"status {ans.get('status')} {ans.get('panic') or ''}"[:200]
        else:
            retry += [(i, st) for i in chunk]
    if retry:
        jobs2 = []
        for i, st in retry:
            c = cases[i]
            jobs2.append(compile_job(source([(i, expr(c[0], num(c[1], c[2]), num(c[3], c[4])))]),
                                     style="compressed" if st == "c" else None, syntax="scss"))
        for (i, st), ans in zip(retry, pool.map(jobs2, timeout=20)):
            if ans.get("status") == "ok":
                m = RULE.search(ans.get("css") or "")
                obs[i] = ("ok " + m.group(2)) if m else "status missing-rule"
            elif ans.get("status") == "err":
                obs[i] = err_class(ans.get("err", {}).get("message"))
            else:
                obs[i] = f"status {ans.get('status')} {ans.get('panic') or ''}"[:200]
    return obs


def gen_cases(units, tier):
    toks = units + ["?0", "-"]
    pairs = [(u, v) for u in toks for v in toks] + [("?0", "?1"), ("?1", "?0")]
    cases = []
    for (u, v) in pairs:
        for mi, (x, y) in enumerate(MAGS_THOROUGH if tier == "thorough" else MAGS):
            for op in OPS:
                for st in ("e", "c"):
                    cases.append((op, x, u, y, v, st))
    return cases, pairs



# ---------------------------------------------------------------------------------------------
# compound units: products / quotients of up to four single-unit numbers, then an observation
#   tree: ("N", lit, unit) | ("B", op, a, b)     final: print | inspect | unit | lt | eq | compatible
# ---------------------------------------------------------------------------------------------

def c_rpn(t):
    if t[0] == "N":
        return [f"N{t[1]}:{t[2]}"]
    return c_rpn(t[2]) + c_rpn(t[3]) + [t[1]]


def c_sass(t):
    if t[0] == "N":
        return num(t[1], t[2])
    a, b = c_sass(t[2]), c_sass(t[3])
    return {"mul": f"({a} * {b})", "div": f"math.div({a}, {b})", "add": f"({a} + {b})", "sub": f"({a} - {b})",
            "rem": f"({a} % {b})", "min": f"math.min({a}, {b})", "max": f"math.max({a}, {b})"}[t[1]]


def c_final(fin, ts):
    if fin == "print":
        return c_sass(ts[0])
    if fin == "inspect":
        return f"meta.inspect({c_sass(ts[0])})"
    if fin == "unit":
        return f"math.unit({c_sass(ts[0])})"
    a, b = c_sass(ts[0]), c_sass(ts[1])
    return {"lt": f"({a} < {b})", "eq": f"({a} == {b})", "compatible": f"math.compatible({a}, {b})"}[fin]


def c_ops(t, acc=None):
    acc = [] if acc is None else acc
    if t[0] == "B":
        acc.append(t[1])
        c_ops(t[2], acc)
        c_ops(t[3], acc)
    return acc


POOL_UNITS = ["px", "in", "cm", "mm", "pt", "s", "ms", "deg", "turn", "rad", "Hz", "kHz", "dppx", "dpi", "em", "%", "?0", "-", "-"]
POOL_LITS = ["1", "2", "3", "7.5", "0.5", "-2", "96", "2.54", "1000", "0.1"]


def compound_cases(rng, tier, conv_pairs):
    cases = []
    N = lambda x, u: ("N", x, u)
    B = lambda o, a, b: ("B", o, a, b)
    for (u, v) in conv_pairs:
        x, y, z = rng.choice(POOL_LITS), rng.choice(POOL_LITS), rng.choice(POOL_LITS)
        shapes = [B("mul", B("div", N("1", "-"), N(y, v)), N(x, u)),          # (1/v) * u : right numerator vs left denominator
                  B("mul", N(x, u), B("div", N("1", "-"), N(y, v))),          # u * (1/v)
                  B("div", B("mul", N(x, u), N(z, "em")), N(y, v)),           # (u*em)/v
                  B("div", N(x, u), B("mul", N(y, v), N(z, "em"))),           # u/(v*em)
                  B("div", B("div", N(x, u), N(z, "em")), N(y, v)),           # (u/em)/v
                  B("div", B("mul", N(x, u), N(y, v)), N(z, u)),              # (u*v)/u
                  B("mul", B("div", N(x, "em"), N(y, v)), B("div", N(z, u), N("2", "s")))]   # (em/v)*(u/s)
        for t in shapes:
            cases.append(("inspect", [t]))
            cases.append(("unit", [t]))
    n_rand = 3000 if tier == "quick" else 30000

    def tree(depth):
        if depth == 0 or rng.random() < 0.25:
            return N(rng.choice(POOL_LITS), rng.choice(POOL_UNITS))
        return B(rng.choice(["mul", "div", "mul", "div", "mul", "div", "add", "sub"]), tree(depth - 1), tree(depth - 1))

    for _ in range(n_rand):
        fin = rng.choice(["inspect", "inspect", "inspect", "unit", "print", "lt", "eq", "compatible"])
        if fin in ("lt", "eq", "compatible"):
            a = tree(rng.choice([1, 1, 2]))
            b = a if rng.random() < 0.2 else tree(rng.choice([1, 1, 2]))
            cases.append((fin, [a, b]))
        else:
            cases.append((fin, [tree(rng.choice([1, 2, 2]))]))
    return cases


def evaluate_compound(ck, pool, cases, disagreements):
    rp = [sum((c_rpn(t) for t in ts), []) + [fin] for fin, ts in cases]
    model = driver([f"units expr e {' '.join(r)}" for r in rp])
    keep = [i for i, m in enumerate(model) if m.startswith("ok ") or m.startswith("err ")]
    ck.cov["unsupported_dropped"] += len(cases) - len(keep)
    srcs = {i: c_final(cases[i][0], cases[i][1]) for i in keep}
    obs = {}
    ok_idx = [i for i in keep if model[i].startswith("ok ")]
    jobs, meta = [], []
    for off in range(0, len(ok_idx), 300):
        chunk = ok_idx[off:off + 300]
        jobs.append(compile_job(source([(i, srcs[i]) for i in chunk]), syntax="scss"))
        meta.append(chunk)
    for i in keep:
        if model[i].startswith("err "):
            jobs.append(compile_job(source([(i, srcs[i])]), syntax="scss"))
            meta.append([i])
    retry = []
    for chunk, ans in zip(meta, pool.map(jobs, timeout=60)):
        if ans.get("status") == "ok":
            found = {int(m.group(1)): m.group(2) for m in RULE.finditer(ans.get("css") or "")}
            for i in chunk:
                obs[i] = ("ok " + found[i]) if i in found else "status missing-rule"
        elif len(chunk) == 1:
            obs[chunk[0]] = err_class(ans.get("err", {}).get("message")) if ans.get("status") == "err" else \
                f"status {ans.get('status')} {ans.get('panic') or ''}"[:200]
        else:
            retry += chunk
    if retry:
        for i, ans in zip(retry, pool.map([compile_job(source([(i, srcs[i])]), syntax="scss") for i in retry], timeout=20)):
            if ans.get("status") == "ok":
                m = RULE.search(ans.get("css") or "")
                obs[i] = ("ok " + m.group(2)) if m else "status missing-rule"
            elif ans.get("status") == "err":
                obs[i] = err_class(ans.get("err", {}).get("message"))
            else:
                obs[i] = f"status {ans.get('status')} {ans.get('panic') or ''}"[:200]
    q_idx = [i for i in keep if cases[i][0] == "inspect" and obs[i].startswith("ok ")
             and set(c_ops(cases[i][1][0])) <= {"mul", "div"} and c_ops(cases[i][1][0])]
    q_out = dict(zip(q_idx, driver([f"units qcheck {hexs(obs[i][3:])} {' '.join(rp[i])}" for i in q_idx]))) if q_idx else {}
    failing = []
    for i in keep:
        fin, ts = cases[i]
        mt = ("ok " + unhex(model[i][3:])) if model[i].startswith("ok ") else model[i]
        ck.count(("c08-compound", rp[i]), True)
        ck.hist("compound:" + fin)
        ck.hist("compound-impl:" + (obs[i].split(" ")[0] if obs[i].startswith("ok ") else obs[i][:20]))
        if i % 997 == 0:
            ck.sample({"source": f"v: {srcs[i]}", "impl": obs[i], "model": mt})
        if obs[i] != mt:
            ck.cov["model_disagreements"] += 1
            if len(disagreements) < 5:
                disagreements.append({"source": f"v: {srcs[i]}", "model_observation": mt, "impl_observation": obs[i]})
        fail = None
        if obs[i].startswith("status "):
            fail = "compilation did not finish normally: " + obs[i]
        elif i in q_out:
            ck.hist("compound-qcheck:" + q_out[i])
            if q_out[i] == "ok 0":
                fail = "product/quotient does not denote the quantity given by the CSS ratios (units must multiply/cancel)"
        if fail:
            failing.append({"source": HEAD + f"x{{v: {srcs[i]}}}", "style": "e", "rpn": rp[i], "impl_observation": obs[i],
                            "model_observation": mt, "expected_by_property": fail, "tags": []})
    return failing



# ---------------------------------------------------------------------------------------------
# global min()/max() (value/calculation.rs) with two arguments of known inconvertible units:
# direct predicate only — "operations on inconvertible units are errors, never silently computed"
# ---------------------------------------------------------------------------------------------
CALC_BRIDGE = "C08-calc-minmax-unitless-bridge"
CALC_REPS = [("px", 0), ("em", 0), ("deg", 1), ("s", 2), ("Hz", 3), ("dppx", 4)]


def evaluate_calc_minmax(ck, pool):
    items = []
    for (a, sa) in CALC_REPS:
        for (b, sb) in CALC_REPS:
            if sa == sb:
                continue
            for mags in (("1", "1", "1"), ("1", "2", "3")):
                for fn in ("min", "max"):
                    for arr, third in (("ab", None), ("a1b", ""), ("1ab", ""), ("ab1", ""), ("%ab", "%"), ("fab", "foo0"),
                                       ("a%b", "%")):
                        if third is None:
                            args = [mags[0] + a, mags[2] + b]
                        else:
                            pos = {"a1b": 1, "1ab": 0, "ab1": 2, "%ab": 0, "fab": 0, "a%b": 1}[arr]
                            two = [a, b]
                            args, k = [], 0
                            for j in range(3):
                                if j == pos:
                                    args.append(mags[j] + third)
                                else:
                                    args.append(mags[j] + two[k])
                                    k += 1
                        items.append((f"{fn}({', '.join(args)})", third == ""))
    jobs = [compile_job(f"x{{v: {e}}}", syntax="scss") for e, _ in items]
    failing = []
    for (e, unitless), ans in zip(items, pool.map(jobs, timeout=20)):
        ck.count(("c08-calc", e), True)
        ck.hist("calc-minmax:" + str(ans.get("status")))
        if ans.get("status") == "err" and "ncompatible" in (ans.get("err", {}).get("message") or ""):
            continue
        got = (ans.get("css") or ans.get("err", {}).get("message") or ans.get("panic") or "").strip()
        failing.append({"source": f"x{{v: {e}}}", "style": "e", "impl_observation": f"{ans.get('status')} {got}"[:200],
                        "model_observation": "err incompatible",
                        "expected_by_property": "min()/max() over numbers with inconvertible units must be an error",
                        "tags": [CALC_BRIDGE] if (unitless and ans.get("status") == "ok") else []})
    return failing


def run(tier, seed):
    ck = Check("C08", tier, seed)
    ck.cov["rule"] = ("EXHAUSTIVE: every ordered pair over the 34 known units + one unknown unit + unitless (36x36) and two "
                      "different unknown units, x 14 observations (+ - < == % math.min math.max math.div * "
                      "inspect(div) inspect(*) math.compatible math.unit(*) math.unit(div)) x 3 magnitude pairs (thorough: 7) x both styles; "
                      "plus compound units: every convertible pair of different known units in 7 product/quotient shapes (numerator-vs-"
                      "denominator cancellation in both operand positions) and random product/quotient/sum trees of up to 4 leaves, "
                      "observed through inspect / math.unit / print / < / == / math.compatible; "
                      "cases whose outcome is an error are compiled once (first magnitude, expanded: the error is decided "
                      "before any arithmetic). Distinct by (op, operands, style); non-trivial when the two units are different "
                      "and both present.")
    ck.cov["exhaustive"] = True
    ck.assumptions = ["f64 rounding of the table constants is modelled by evaluating the constant expressions of "
                      "conversion.rs with rnd53 (checked against grass's printed digits on every pair)",
                      "P̂ for + and − uses the hand-written CSS ratios with a 30-digit enclosure of π and a tolerance of "
                      "1e-10 + 2^-40 relative"]
    disagreements = []
    # (b1) translator
    try:
        tr = translate_units.generate()
        ck.cov["translator_ok"] = True
        ck.cov["translator"] = {k: tr[k] for k in ("units", "kinds", "entries", "changed")}
    except Exception as e:                                   # noqa: BLE001
        ck.cov["translator_ok"] = False
        ck.unproved("correspondence-broken", {"why": "translate_units.py cannot parse the unit sources", "error": str(e)})
        return ck.finish()
    # (a) proof (rebuilds when the generated tables changed)
    ck.do_prove(cores=("units",))
    if not ck.do_build_runner():
        ck.unproved("correspondence-broken", {"why": "runner does not build against /repo",
                                              "error": getattr(ck, "build_error", "")})
        return ck.finish()
    units = driver(["units units"])[0].split(" ")[1:]
    if sorted(units) != sorted(tr["names"][k] for k in tr["known"]):
        ck.unproved("correspondence-broken", {"why": "driver's unit list differs from the translator's", "driver": units})
        return ck.finish()
    pool = RunnerPool()
    cases, pairs = gen_cases(units, tier)
    model_all = driver([f"units op {c[5]} {c[0]} {c[1]} {c[2]} {c[3]} {c[4]}" for c in cases])
    # error outcomes: keep one representative (first magnitude, expanded)
    keep = []
    for i, (c, m) in enumerate(zip(cases, model_all)):
        if m.startswith("ok "):
            keep.append(i)
        elif m == "unsupported" or m == "bad-op":
            ck.cov["unsupported_dropped"] += 1
        elif c[1] == MAGS[0][0] and c[5] == "e":
            keep.append(i)
    cases = [cases[i] for i in keep]
    model = [model_all[i] for i in keep]
    model_txt = [("ok " + unhex(m[3:])) if m.startswith("ok ") else m for m in model]
    obs = run_impl(pool, cases, model)
    # P̂: spec predicates from the driver
    cmp_lines = [f"units comparable {u} {v}" for (u, v) in pairs]
    spec_cmp = {p: o.split(" ")[2] == "1" for p, o in zip(pairs, driver(cmp_lines))}
    code_cmp = {p: o.split(" ")[1] == "1" for p, o in zip(pairs, driver(cmp_lines))}
    for p in pairs:
        if spec_cmp[p] != code_cmp[p]:
            ck.notes.append(f"comparable() and the CSS ratios disagree on {p}")
    fac = spec_factors(pairs)
    chk_lines, chk_idx = [], []
    for i, c in enumerate(cases):
        if c[0] in ("add", "sub") and (obs[i].startswith("ok ") or obs[i] == "err incompatible"):
            o = "!incompatible" if obs[i] == "err incompatible" else hexs(obs[i][3:])
            chk_lines.append(f"units check {c[0]} {c[1]} {c[2]} {c[3]} {c[4]} {o}")
            chk_idx.append(i)
    verdict = dict(zip(chk_idx, driver(chk_lines))) if chk_lines else {}
    failing = []
    for i, c in enumerate(cases):
        op, x, u, y, v, st = c
        src = expr(op, num(x, u), num(y, v))
        nontrivial = u != v and u != "-" and v != "-"
        ck.count(("c08",) + c, nontrivial)
        ck.hist("op:" + op)
        ck.hist("impl:" + (obs[i].split(" ")[0] if obs[i].startswith("ok ") else obs[i][:20]))
        if u != "-" and v != "-":
            ck.hist("pair:" + ("same" if u == v else "convertible" if spec_cmp[(u, v)] else "inconvertible"))
        else:
            ck.hist("pair:unitless-involved")
        if i % 4999 == 0:
            ck.sample({"source": f"v: {src}", "style": st, "impl": obs[i], "model": model_txt[i]})
        if obs[i] != model_txt[i]:
            ck.cov["model_disagreements"] += 1
            if len(disagreements) < 5:
                disagreements.append({"source": f"v: {src}", "style": st, "model_observation": model_txt[i],
                                      "impl_observation": obs[i]})
        fail = None
        sc = spec_cmp[(u, v)]
        if obs[i].startswith("status "):
            fail = "compilation did not finish normally: " + obs[i]
        elif op in ("add", "sub"):
            vd = verdict.get(i)
            if vd is None or vd != "ok 1":
                fail = f"+/− does not give the CSS-ratio result in the left operand's unit (verdict {vd})"
        elif op in ERR_OPS_INCOMPAT:
            if sc and not obs[i].startswith("ok "):
                fail = "operation on convertible units failed"
            if not sc and obs[i] != "err incompatible":
                fail = "operation on inconvertible units did not raise 'Incompatible units'"
            if not fail and sc and u != "-" and v != "-" and op in ("lt", "min", "max"):
                o = spec_order(x, u, y, v, fac)
                if o is not None:
                    ck.hist("direct-order:" + op)
                    if op == "lt" and obs[i] != ("ok true" if o < 0 else "ok false"):
                        fail = f"`<` across convertible units disagrees with the CSS ratios (order by ratios: {o})"
                    if op in ("min", "max") and o != 0 and u != v:
                        want = u if ((o < 0) == (op == "min")) else v
                        if _unit_of(obs[i][3:]) != want:
                            fail = f"math.{op} across convertible units picked the wrong operand (by the CSS ratios the result has unit {want})"
        elif op == "eq":
            if not obs[i].startswith("ok ") or (not sc and obs[i] != "ok false"):
                fail = "== on inconvertible units must be false (and never an error)"
            if not fail and sc and u != "-" and v != "-":
                o = spec_order(x, u, y, v, fac)
                if o is not None:
                    ck.hist("direct-order:eq")
                    if obs[i] != ("ok true" if o == 0 else "ok false"):
                        fail = f"== across convertible units disagrees with the CSS ratios (order by ratios: {o})"
        elif op == "compatible":
            if obs[i] != ("ok true" if sc else "ok false"):
                fail = "math.compatible disagrees with convertibility by the CSS ratios"
        elif op == "mul":
            # a product of two unit-bearing numbers has a compound unit and cannot be emitted
            if u != "-" and v != "-" and obs[i] != "err notcss":
                fail = "number with a compound unit was emitted as CSS"
        elif op == "div":
            if v != "-" and not (sc and u != "-") and obs[i] != "err notcss":
                fail = "number with a compound unit was emitted as CSS"
            if v != "-" and u != "-" and sc and not re.fullmatch(r"ok -?[0-9.]+", obs[i]):
                fail = "dividing convertible units must cancel them"
        if fail:
            failing.append({"source": HEAD + f"x{{v: {src}}}", "style": st, "case": list(c), "impl_observation": obs[i],
                            "model_observation": model_txt[i], "expected_by_property": fail, "tags": []})
    conv_pairs = [(u, v) for (u, v) in pairs if u != v and spec_cmp[(u, v)] and u not in ("-",) and v not in ("-",)
                  and not u.startswith("?") and not v.startswith("?")]
    failing += evaluate_compound(ck, pool, compound_cases(ck.rng, tier, conv_pairs), disagreements)
    failing += evaluate_calc_minmax(ck, pool)
    failing.sort(key=lambda f: len(f["source"]))
    reported = 0
    for f in failing:
        if ck.impl_violation(f["source"], f, tags=f["tags"]):
            reported += 1
    seen = {k["id"] for k in ck.known_seen}
    for k in known_findings("C08"):
        if k["id"] not in seen:
            ck.notes.append(f"known finding {k['id']} was not reproduced in this run: entry may be stale")
    if ck.cov["model_disagreements"] and not reported:
        ck.unproved("correspondence-broken", {"correspondence": "units op (Grass.Units.runOp) vs grass, printed text / error class",
                                              "cases": disagreements})
    return ck.finish()


def replay(path):
    r = json.load(open(path))
    src, st = r.get("source"), r.get("style", "e")
    if not src:
        print(json.dumps(r, indent=1))
        return 0
    ck = Check("C08", "quick", 0)
    ck.do_build_runner()
    ans = RunnerPool(1).map([compile_job(src, style="compressed" if st == "c" else None, syntax="scss")])[0]
    print("source:", src)
    print("grass :", ans.get("status"), (ans.get("css") or ans.get("err", {}).get("message") or "").strip())
    if r.get("case"):
        c = r["case"]
        m = driver([f"units op {c[5]} {c[0]} {c[1]} {c[2]} {c[3]} {c[4]}"])[0]
        print("model :", ("ok " + unhex(m[3:])) if m.startswith("ok ") else m)
    if r.get("rpn"):
        m = driver([f"units expr e {' '.join(r['rpn'])}"])[0]
        print("model :", ("ok " + unhex(m[3:])) if m.startswith("ok ") else m)
    print("recorded:", r.get("impl_observation"), "|", r.get("expected_by_property"))
    return 0
