"""C10 — @extend makes extenders match wherever the target matched, nothing else."""
import json
import time

import cssread
from props import selgen as G
from vlib import Check, RunnerPool, compile_job, hexs, log, unhex
from vlib import driver as _driver

def driver(lines, chunk=2500):
    """vlib.driver in chunks: bounded memory of the driver process and of the pipe buffers"""
    out = []
    for i in range(0, len(lines), chunk):
        out += _driver(lines[i:i + chunk])
    return out


EXPECT = ("after `E {@extend T}` every rule's rewritten selector matches an element context iff the original selector "
          "matches it once extenders are credited with the target (subset for complex extenders); originals keep "
          "matching (no :not); generated selectors are at least as specific as the extender; no placeholder in the "
          "output; rule order does not matter; an @extend stays inside its @media block (else error); a missing "
          "target is an error unless !optional; no crash")

MEDIA = [None, "screen", "print"]


def H(t):
    return hexs(t)


def dec(ans):
    p = ans.split(" ")
    return unhex(p[-1]) if len(p) > 2 else ""


# ---------------------------------------------------------------------------------------------
# stylesheet trees:  item = ("rule", id, selector text, media) | ("ext", id, extender text, target text, optional, media)
# an "ext" item is itself a style rule `E { j: id; @extend T }`
# ---------------------------------------------------------------------------------------------

def sheet_text(items):
    out = []
    for it in items:
        if it[0] == "rule":
            body = f"{it[2]} {{ i: {it[1]} }}"
            media = it[3]
        else:
            body = f"{it[2]} {{ i: {it[1]}; @extend {it[3]}{' !optional' if it[4] else ''}; }}"
            media = it[5]
        out.append(f"@media {media} {{ {body} }}" if media else body)
    return "\n".join(out)


def media_tok(m):
    return "-" if m is None else str(MEDIA.index(m))


def driver_items(items):
    """Every style rule is an `R`; an extender rule is registered before its `@extend` runs."""
    toks = []
    for it in items:
        if it[0] == "rule":
            toks += ["R", media_tok(it[3]), H(it[2])]
        else:
            toks += ["R", media_tok(it[5]), H(it[2])]
            toks += ["E", media_tok(it[5]), "1" if it[4] else "0", H(it[3]), H(it[2])]
    return " ".join(toks)


def rule_ids(items):
    """ids in the order of the driver's `R` items"""
    return [it[1] for it in items]


CORPUS = [
    # D16: @extend across @media boundaries is silently allowed
    [("rule", 0, ".a", None), ("ext", 1, ".b", ".a", False, "screen")],
    [("rule", 0, ".x.y a", "print"), ("ext", 1, "b", ".x", False, "screen")],
    # D18: missing target compiles without error
    [("ext", 0, "a", ".missing", False, None)],
    [("rule", 0, ".x", None), ("ext", 1, "a", ".y", False, None)],
    # D17 (fixed): same extender/target from two media blocks is an error now, not a panic
    [("rule", 0, ".t", None), ("ext", 1, ".e", ".t", False, "screen"), ("ext", 2, ".e", ".t", False, "print")],
    # allowed: top-level extender of a rule inside @media; same block
    [("rule", 0, ".a", "screen"), ("ext", 1, ".b", ".a", False, None)],
    [("rule", 0, ".a", "screen"), ("ext", 1, ".b", ".a", False, "screen")],
    # basics, unification, placeholders, order, chains, cycles
    [("rule", 0, ".a.x c, d", None), ("ext", 1, ".b", ".a", False, None)],
    [("ext", 1, ".b, c", ".a", False, None), ("rule", 0, "x > .a.y", None)],
    [("rule", 0, "a.x", None), ("ext", 1, "b", ".x", False, None)],
    [("rule", 0, "%p .a", None), ("ext", 1, ".b", "%p", False, None)],
    [("rule", 0, ".a.b", None), ("ext", 1, ".x", ".a", False, None), ("ext", 2, ".y", ".b", False, None)],
    [("rule", 0, ".a", None), ("ext", 1, ".b", ".a", False, None), ("ext", 2, ".c", ".b", False, None)],
    [("ext", 2, ".c", ".b", False, None), ("ext", 1, ".b", ".a", False, None), ("rule", 0, ".a", None)],
    [("ext", 0, ".a", ".b", False, None), ("ext", 1, ".b", ".a", False, None)],
    [("rule", 0, ".a .b", None), ("ext", 1, ".x .y", ".b", False, None)],
    [("rule", 0, ":not(.a)", None), ("ext", 1, ".b", ".a", False, None)],
    [("rule", 0, ":is(.a, c)", None), ("ext", 1, ".b", ".a", False, None)],
    # X1 (fixed, c66199e): a chain was lost for a rule that comes after both @extend rules; every order must agree now
    [("ext", 1, ".b", ".a", False, None), ("ext", 2, ".c", ".b", False, None), ("rule", 0, ".a", None)],
    [("ext", 2, ".c", ".b", False, None), ("rule", 0, ".a", None), ("ext", 1, ".b", ".a", False, None)],
    [("rule", 0, ".a", None), ("ext", 2, ".c", ".b", False, None), ("ext", 1, ".b", ".a", False, None)],
    [("ext", 1, ".b.x", ".a", False, None), ("ext", 2, ".c", ".b", False, None), ("rule", 0, ".a", None), ("rule", 3, ".b", None)],
    [("ext", 2, ".y:hover", "a", False, None), ("ext", 3, "b", ".y", False, None), ("rule", 1, "a", None)],
    # X2: two extensions meeting in one compound (incremental extension loses `.y > b.x`)
    [("ext", 2, "b.x", ".y", False, None), ("rule", 0, ".y > a.y", None), ("ext", 1, ".x", "a", False, None)],
    # X4 (fixed, 5015dbf): the second `MergedExtension::merge(..).unwrap()` (mod.rs:1093) panicked; now an error
    [("rule", 0, ".y", None), ("ext", 1, ".y", ".y", False, "screen"), ("ext", 2, ".y#i", ".y", False, "print")],
    # X3: weave puts `.y` between `[t]:focus` and `b`
    [("ext", 2, "[t]:focus + b", "#i", False, None), ("ext", 1, ".y ~ b[t]", "a", False, None), ("rule", 0, "#i + a.x", None)],
    # three and four hops, target rule last / first / in between
    [("ext", 1, ".b", ".a", False, None), ("ext", 2, ".c", ".b", False, None), ("ext", 3, ".d", ".c", False, None), ("rule", 0, ".a", None)],
    [("rule", 0, ".a", None), ("ext", 1, ".b", ".a", False, None), ("ext", 2, ".c", ".b", False, None), ("ext", 3, ".d", ".c", False, None)],
    [("ext", 3, ".d", ".c", False, None), ("ext", 1, ".b", ".a", False, None), ("rule", 0, ".a", None), ("ext", 2, ".c", ".b", False, None)],
    [("ext", 1, ".b", ".a", False, None), ("ext", 2, ".c", ".b", False, None), ("ext", 3, ".d", ".c", False, None),
     ("ext", 4, ".e", ".d", False, None), ("rule", 0, ".a", None)],
    # a member written twice in one list, two others between the copies (trim's rotate_slice)
    [("rule", 0, ".c, .a, .b, .c, .t", None), ("ext", 1, ".e", ".t", False, None)],
    [("rule", 0, ".c, .a, .b, .d, .c, .t", None), ("ext", 1, ".c", ".t", False, None)],
    # merge_final_combinators must keep the descendant parent when the sibling compound is not dropped
    [("rule", 0, ".a y", None), ("ext", 1, ".a.b ~ x", "y", False, None)],
    [("rule", 0, ".a y", None), ("ext", 1, ".a.b + x", "y", False, None)],
    [("rule", 0, ".a y", None), ("ext", 1, ".a.b > x", "y", False, None)],
    # specificity floor with the target in a non-final compound
    [("rule", 0, ".t b, a b", None), ("ext", 1, "a.foo", ".t", False, None)],
    # two hops through selector pseudos, rules before and after the @extends
    [("rule", 0, ":is(.t)", None), ("ext", 1, ".a", ".t", False, None), ("ext", 2, ".b", ".a", False, None), ("rule", 3, ":not(.t)", None)],
    [("ext", 1, ".a", ".t", False, None), ("rule", 0, ":is(.t)", None), ("ext", 2, ".b", ".a", False, None), ("rule", 3, ":not(.t)", None)],
    # C11-S1 reaching trim: a generated selector dropped because of a wrong superselector answer
    [("rule", 0, ".t c", None), ("ext", 1, "a > b", ".t", False, None), ("ext", 2, "a > x > b", ".t", False, None)],
]


def gen_chain_sheet(rng):
    """Two-hop chains through selector pseudos, class-only extenders (no unification can fail), rules before and after."""
    k = rng.choice(["is", "not", "where", "matches"])
    inner = rng.choice([".t", ".t.x", "a.t", ".t, .x"])
    rule = ("rule", 0, rng.choice([f":{k}({inner})", f"a:{k}({inner})", f".x :{k}({inner}) > a", ".t", "a.t .x"]), None)
    e1 = ("ext", 1, rng.choice([".m", ".m.x", ".m, .n"]), ".t", False, None)
    e2 = ("ext", 2, rng.choice([".q", ".q.y"]), ".m", False, None)
    other = ("rule", 3, rng.choice([".m", ".x .m", ":is(.m)", ":not(.m)"]), None)
    items = [rule, e1, e2, other]
    rng.shuffle(items)
    return items, meta_of(items)


def gen_long_chain_sheet(rng):
    """3- and 4-hop chains of single-class extenders (`.b{@extend .a} .c{@extend .b} .d{@extend .c}` …) in a random order of
    rules and @extends; pseudo-free and clash-free, so they are judged strictly"""
    hops = rng.choice([3, 3, 4])
    names = [".a", ".b", ".c", ".d", ".e"][:hops + 1]
    deco = rng.choice(["", "", ".x", ":hover"])
    items = [("rule", 0, rng.choice([".a", ".a", "a.a", ".x .a", ".a > a", ".a, .x"]), None)]
    for k in range(hops):
        items.append(("ext", k + 1, names[k + 1] + (deco if rng.random() < 0.3 else ""), names[k], False, None))
    if rng.random() < 0.4:
        items.append(("rule", hops + 1, rng.choice([names[1], names[2] + " a", ".y"]), None))
    rng.shuffle(items)
    m = meta_of(items)
    m["hops"] = hops
    return items, m


def gen_dup_sheet(rng):
    """selector lists of 4-6 complexes in which one member is written twice at distance >= 3 (trim's duplicate-original path,
    mod.rs:803 rotate_slice), sometimes with the extender itself among the members"""
    pool = [".a", ".b", ".c", ".d", "a", ".x a", "a > .y", ".f"]
    members = rng.sample(pool, rng.choice([3, 4, 5]))
    dup = rng.choice(members[:2])
    i = members.index(dup)
    lst = list(members)
    lst.insert(min(len(lst), i + rng.choice([3, 3, 4])), dup)
    target = ".t"
    lst.insert(rng.randrange(len(lst) + 1), rng.choice([".t", ".t.x", "a .t"]))
    ext_sel = rng.choice([".e", ".e", dup, members[-1]])
    items = [("rule", 0, ", ".join(lst), None), ("ext", 1, ext_sel, target, False, None)]
    if rng.random() < 0.3:
        items.append(("ext", 2, ".g", rng.choice([".a", ".b", target]), False, None))
    rng.shuffle(items)
    return items, meta_of(items)


def gen_sibling_sheet(rng):
    """`~`/`+`/`>` extenders whose leading compound is covered by the descendant parent of the target (merge_final_combinators)."""
    P = rng.choice([".a", ".x", "a"])
    T = rng.choice(["y", ".t", "%p"])
    comb = rng.choice(["~", "+", ">", "~", "+"])
    lead = P + rng.choice(["", ".b", ".q", ":hover"])
    rule = ("rule", 0, rng.choice([f"{P} {T}", f"{P} > {T}", f"{P} {T}.z", f".w {P} {T}"]), None)
    ext = ("ext", 1, f"{lead} {comb} {rng.choice(['x', '.e', 'x.e'])}", T, False, None)
    items = [rule, ext]
    rng.shuffle(items)
    return items, meta_of(items)


def gen_floor_sheet(rng):
    """Second law: the target sits in a non-final compound and a more general complex of the same rule is a superselector of
    the generated one; only the specificity floor of the extender keeps the generated complex."""
    T = rng.choice([".t", "%p", ".t.u"][:2])
    tail = rng.choice(["b", ".z", "b .z", "> b"])
    gen = rng.choice(["a", "a", ".x"])
    E = gen + rng.choice([".foo", "#i", ".foo.bar", ":hover"])
    rule = ("rule", 0, f"{T} {tail}, {gen} {tail}", None)
    ext = ("ext", 1, E, T, False, None)
    items = [rule, ext] if rng.random() < 0.5 else [ext, rule]
    return items, meta_of(items)


def gen_weave_sheet(rng):
    """Complex extenders woven into complex rules: descendant/child combinators only (the fragment of the weave theorems) in
    70% of the sheets, sibling combinators otherwise; the target sits in any compound of the rule; no chains."""
    sib = rng.random() < 0.3
    combs = [" ", " ", " > "] + ([" + ", " ~ "] if sib else [])
    cls = [".a", ".b", ".c", ".d", "a", "b", "#i", ".x", ".y", "[t]", ":hover"]

    def compound(extra=None):
        parts = rng.sample(cls[:9], rng.choice([1, 1, 2]))
        parts.sort(key=lambda t: (0 if t[0].isalpha() else 1))
        if sum(1 for t in parts if t[0].isalpha()) > 1:
            parts = parts[1:]
        if extra and extra not in parts:
            parts.append(extra)
        if rng.random() < 0.15:
            parts.append(rng.choice(["[t]", ":hover"]))
        return "".join(parts)

    T = rng.choice([".t", "%p", ".t"])
    nr = rng.choice([1, 2, 2, 3])
    pos = rng.randrange(nr)
    rule_parts = [compound(T if k == pos else None) if (k != pos or rng.random() < 0.5) else T for k in range(nr)]
    rule_sel = rule_parts[0]
    for part in rule_parts[1:]:
        rule_sel += rng.choice(combs) + part
    ne = rng.choice([2, 2, 3])
    ext_sel = compound()
    for _ in range(ne - 1):
        ext_sel += rng.choice(combs) + compound()
    if rng.random() < 0.2:
        ext_sel += ", " + compound()
    items = [("rule", 0, rule_sel, None), ("ext", 1, ext_sel, T, False, None)]
    if rng.random() < 0.25:
        T2 = rng.choice([p for p in [".a", ".b", "a"] if p not in ext_sel] or [".zz"])
        items.append(("ext", 2, compound() + rng.choice(combs) + ".e", T2, True, None))
    rng.shuffle(items)
    m = meta_of(items)
    m["weave_kind"] = "sibling" if any(c in rule_sel + ext_sel for c in "+~") else "desc-child"
    return items, m


def gen_cycle_sheet(rng):
    """cycles of length 2-3 among single-class extenders (`.a{@extend .b} .b{@extend .a}` …) plus a rule on one member, optionally
    a placeholder member and an @media-wrapped bystander; any order of rules and @extends"""
    n = rng.choice([2, 2, 3])
    names = [".a", ".b", ".c"][:n]
    if rng.random() < 0.3:
        names[rng.randrange(n)] = "%p"
    items = []
    for k in range(n):
        items.append(("ext", k + 1, names[k], names[(k + 1) % n], False, None))
    items.append(("rule", 0, rng.choice([names[0], names[1] + " a", "a" + names[0] if names[0][0] != "%" else names[0], ".x > " + names[-1]]), None))
    if rng.random() < 0.3:
        items.append(("rule", n + 1, ".z", rng.choice(MEDIA[1:])))
    rng.shuffle(items)
    m = meta_of(items)
    m["cycle_len"] = n
    return items, m


def pe_norm(t):
    """one spelling for the legacy pseudo-elements (`:after` is printed as written)"""
    t = " ".join(t.split())
    for n in ("after", "before", "first-line", "first-letter"):
        t = t.replace("::" + n, ":" + n)
    return t


def gen_sheet(rng, uid):
    """One random stylesheet; ids are unique within the sheet."""
    items = []
    n_rules = rng.choice([1, 1, 2, 2, 3])
    kind = rng.random()
    sel_depth = 1 if kind > 0.7 else 0
    rules = []
    for _ in range(n_rules):
        rules.append(G.gen_list(rng, 2, max_compounds=3, sel_depth=sel_depth, placeholders=True, pe=rng.random() < 0.2))
    targets = [s for l in rules for x in l for p in x if not isinstance(p, str) for s in p
               if s[0] in ("cls", "id", "type", "attr", "pc", "ph")]
    n_ext = rng.choice([1, 1, 1, 2, 2, 3])
    use_media = rng.random() < 0.18
    exts = []
    for _ in range(n_ext):
        r = rng.random()
        if r < 0.62:
            E = [[G.gen_compound(rng, 0, False, False)] for _ in range(rng.choice([1, 1, 2]))]
        elif r < 0.9:
            E = [G.gen_complex(rng, rng.choice([2, 3]), 0, False, False)]
            if rng.random() < 0.3:
                E.append([G.gen_compound(rng, 0, False, False)])
        else:
            E = [[G.gen_compound(rng, 1, False, False)]]
        t = rng.random()
        if targets and t < 0.86:
            T = rng.choice(targets)
        elif t < 0.93 and exts:
            # chain / cycle: extend something that occurs in another extender
            prev = rng.choice(exts)
            cand = [s for x in prev[0] for p in x if not isinstance(p, str) for s in p if s[0] in ("cls", "id", "type")]
            T = rng.choice(cand) if cand else ("cls", "x")
        else:
            T = ("cls", "missing") if rng.random() < 0.5 else G.gen_simple(rng, ["cls", "id", "ph"])
        exts.append((E, T, rng.random() < 0.15))
    k = 0
    for l in rules:
        items.append(("rule", k, G.list_text(l), rng.choice(MEDIA[1:]) if use_media and rng.random() < 0.5 else None))
        k += 1
    for E, T, opt in exts:
        items.append(("ext", k, G.list_text(E), G.simple_text(T), opt,
                      rng.choice(MEDIA[1:]) if use_media and rng.random() < 0.6 else None))
        k += 1
    rng.shuffle(items)
    if uid % 3 == 0:
        # every third sheet cannot have a failing unification (one type, one id, one pseudo-element): incremental extension
        # loses nothing there, so missing matches / order differences are judged strictly
        def fix(t):
            out, i = [], 0
            import re as _re
            t = _re.sub(r"(?<![\w.#:%-])b(?![\w-])", "a", t)
            return t.replace("#j", "#i").replace(":after", "::before")
        items = [(it[0], it[1], fix(it[2])) + ((it[3],) if it[0] == "rule" else (fix(it[3]), it[4], it[5])) for it in items]
    chain = any(any(s == T for x in E2 for p in x if not isinstance(p, str) for s in p) for E, T, _ in exts for E2, _, _ in exts)
    meta = {"complex_extender": any(len(x) > 1 for E, _, _ in exts for x in E),
            "sel_pseudo": sel_depth > 0 or any(s[0] == "sel" for E, _, _ in exts for x in E for p in x if not isinstance(p, str) for s in p),
            "has_not": ":not(" in sheet_text(items), "media": use_media, "chain": chain, "n_ext": n_ext}
    return items, meta


def meta_of(items):
    txt = sheet_text(items)
    return {"complex_extender": any(it[0] == "ext" and any(c in it[2].replace(", ", ",") for c in " >+~") for it in items),
            "sel_pseudo": "(" in txt, "has_not": ":not(" in txt, "media": "@media" in txt, "chain": None,
            "n_ext": sum(1 for it in items if it[0] == "ext")}


def duplicated_selectors(items):
    """selector texts written on more than one style rule of the sheet (extender rules included)"""
    seen, dup = set(), set()
    for it in items:
        t = " ".join(it[2].split())
        (dup if t in seen else seen).add(t)
    return dup


def compile_sheets(pool, sheets):
    out = []
    for ans in pool.map([compile_job(s, syntax="scss") for s in sheets], timeout=30):
        st = ans.get("status")
        if st != "ok":
            out.append((st, (ans.get("err") or {}).get("message") or str(ans.get("panic"))[:300], None))
            continue
        css = ans["css"]
        try:
            rules = cssread.flat_rules(cssread.parse(css))
        except cssread.IllFormed as e:
            out.append(("bad", str(e), css))
            continue
        found = {}
        for ctx, sel, decls in rules:
            for n, v in decls:
                if n == "i" and sel is not None:
                    found[int(v)] = (sel, ctx)
        out.append(("ok", found, css))
    return out


def err_class(msg):
    m = (msg or "").lower()
    if "across media" in m:
        return "cross-media"
    if "different media" in m:
        return "media-merge"
    if "not found" in m or "failed to @extend" in m:
        return "missing-target"
    if "may not be extended" in m or "may no longer be extended" in m:
        return "bad-target"
    return "other:" + m[:60]


def run(tier, seed):
    ck = Check("C10", tier, seed)
    ck.disagreements = []
    ck.cov["rule"] = ("stylesheets of 1-3 style rules (selector lists over the Appendix C alphabet incl. placeholders, 30% with "
                      ":not/:is/:where/:matches) and 1-3 `E {@extend T}` rules (single-compound, list, complex and pseudo extenders; "
                      "targets mostly taken from the rules, some missing, some chained/cyclic, 15% !optional), shuffled order, "
                      "18% with @media blocks; a fixed corpus first.  A case is distinct by the stylesheet text and non-trivial "
                      "when at least one rule's selector was rewritten by grass and judged on at least one matched context.")
    ck.assumptions = [
        "matching semantics Grass.Selector.matchesList; credited semantics Grass.Extend.cList/creditN (elements matched by an "
        "extender count as matching its target, through chains)",
        "contexts: canonical minimal contexts of all selectors involved, perturbations over the features occurring in them and "
        "the Appendix C alphabet, pseudo-random contexts; thorough adds every single-element context",
        "grass observed through the selectors of emitted rules (tools/cssread.py), parsed only by the Lean driver"]
    ck.do_prove(cores=("sel", "ext"))
    if not ck.do_build_runner():
        ck.unproved("correspondence-broken", {"why": "runner does not build against /repo", "error": getattr(ck, "build_error", "")})
        return ck.finish()
    pool = RunnerPool()
    rng = ck.rng
    big = tier == "thorough"
    NR = 60 if not big else 200
    EXH = "1" if big else "0"
    T0 = time.time()

    def lap(w):
        log(f"[C10] {w}: t+{time.time() - T0:.1f}s")

    sheets = [(items, meta_of(items)) for items in CORPUS]
    if big:
        # X5 (does not terminate): only replayed in the thorough tier, a confirmed timeout costs minutes
        x5 = [("ext", 1, ".y:focus", ":focus", False, None), ("ext", 3, "a.y ~ .y:hover", ".y", False, None),
              ("ext", 2, ".y ~ #j", ".y", False, None)]
        sheets.append((x5, meta_of(x5)))
    for k in range(700 if not big else 3000):
        sheets.append(gen_sheet(rng, k))
    for k in range(120 if not big else 600):
        sheets.append(gen_chain_sheet(rng))
    for k in range(60 if not big else 300):
        sheets.append(gen_sibling_sheet(rng))
        sheets.append(gen_floor_sheet(rng))
    for k in range(90 if not big else 500):
        sheets.append(gen_long_chain_sheet(rng))
    for k in range(60 if not big else 300):
        sheets.append(gen_dup_sheet(rng))
    for k in range(140 if not big else 1500):
        sheets.append(gen_weave_sheet(rng))
    for k in range(40 if not big else 300):
        sheets.append(gen_cycle_sheet(rng))
    texts = [sheet_text(it) for it, _ in sheets]
    impl = compile_sheets(pool, texts)
    lap("compiled")
    # order-swapped variants (reverse item order)
    swapped = compile_sheets(pool, [sheet_text(list(reversed(it))) for it, _ in sheets])
    lap("compiled swapped")

    failing = []
    disagree_early = []

    def fail(case, payload, tags):
        p = dict(payload)
        p["case"] = case
        p["expected_by_property"] = EXPECT
        p["tags"] = list(tags)
        failing.append((len(case), case, p, list(tags)))

    # X6 (fixed, 13c9676): equal selectors on two style rules — every one of 50 compiles must extend both rules
    x6_src = ".m { i: 0 }\n.m { i: 1 }\n.q { i: 2; @extend .m; }"
    for ans in compile_sheets(pool, [x6_src] * 50):
        ck.hist("x6-regression:" + ans[0])
        sels = {k: v[0] for k, v in ans[1].items()} if ans[0] == "ok" else None
        if sels is None or sels.get(0) != ".m, .q" or sels.get(1) != ".m, .q":
            fail(x6_src, {"impl_observation": sels if sels is not None else ans[:2],
                          "why": "a rule whose selector is written twice was not extended (must be deterministic)"}, ["too-little", "X6"])
            break
    lap("x6 regression")

    # ---- weave / unify_complex directly: `selector-unify(A, B)` on complex operands, text against the model (as found)
    upairs = [("a > b", "c > d"), ("a b", "c d"), ("a + b", "c ~ b"), ("#i a", "#i b"), (".a > .b", ".c .b"), (".x .a > .b", ".c .b"),
              (".a ~ .b", ".c ~ .b"), (".a ~ .b", ".c + .b"), (".a > .b", ".c + .b"), ("[t]:focus + b + a", ".y ~ a"),
              (".a .b .c", ".a .d .c"), (".a.x .c", ".a .c"), ("#i.x > .c", "#i .d .c")]
    for _ in range(260 if not big else 3000):
        sib = rng.random() < 0.3
        pair = []
        for _k in range(2):
            x = G.gen_complex(rng, rng.choice([2, 3]), 0, False, False)
            if not sib:
                x = [(">" if (isinstance(c, str) and c in "+~") else c) for c in x]
            pair.append(G.list_text([x]))
        upairs.append(tuple(pair))

    def sq(t):
        return '"' + t.replace("\\", "\\\\").replace('"', '\\"') + '"'

    usrc = "\n".join(f"x{{i:{k}; v: selector-unify({sq(a)}, {sq(b)})}}" for k, (a, b) in enumerate(upairs))
    uans = pool.map([compile_job(usrc, syntax="scss")], timeout=60)[0]
    umodel = driver([f"ext unifyx 1 {H(a)} {H(b)}" for a, b in upairs])
    if uans.get("status") != "ok":
        ck.hist("weave-unify:batch-" + str(uans.get("status")))
        ck.cov["weave_unify_batch_error"] = str((uans.get("err") or {}).get("message") or uans.get("panic"))[:200]
    else:
        uvals = {}
        for _ctx, _sel, decls in cssread.flat_rules(cssread.parse(uans["css"])):
            d = dict(decls)
            if "i" in d:
                uvals[int(d["i"])] = d.get("v")
        for k, (a, b) in enumerate(upairs):
            m = umodel[k]
            kind = "sibling" if any(c in a + b for c in "+~") else "desc-child"
            if not m.startswith("ok"):
                ck.hist("weave-unify:" + m.split(" ")[0])
                continue
            mt = None if m == "ok null" else unhex(m.split(" ")[1])
            gt = uvals.get(k)
            case = f"selector-unify({sq(a)}, {sq(b)})"
            if (mt is None) != (gt is None) or (mt is not None and pe_norm(mt) != pe_norm(gt)):
                disagree_early.append({"case": case, "model_observation": mt, "impl_observation": gt})
            ck.hist(f"weave-unify:{kind}:" + ("null" if mt is None else "woven" if "," in mt or len(mt.split()) > max(len(a.split()), len(b.split())) else "merged"))
            ck.count(case, mt is not None)
    lap("weave-unify")

    # model runs + expectations
    lines = []
    for items, _ in sheets:
        d = driver_items(items)
        lines.append("ext run 1 1 0 " + d)        # the code as it stands: D16/D18 switches on, repaired walk in trim
        lines.append("ext expect " + d)
    outs = driver(lines)
    # complex extenders: the model with unify_complex / weave (as found: X3 switch on)
    xouts = driver(["ext runx 1 1 0 1 " + driver_items(items) for items, _ in sheets])
    lap("model runs")

    def disagree(d):
        ck.cov["model_disagreements"] += 1
        if len(ck.disagreements) < 6:
            ck.disagreements.append(d)

    for d0 in disagree_early:
        disagree(d0)

    follow, fmeta = [], []
    for n, ((items, meta), text) in enumerate(zip(sheets, texts)):
        g, sw = impl[n], swapped[n]
        m_run, m_exp = outs[2 * n], outs[2 * n + 1]
        ck.hist("impl:" + (g[0] if g[0] != "err" else "err:" + err_class(g[1])))
        ck.hist("extenders:" + ("complex" if meta["complex_extender"] else "compound-lists"))
        if meta["media"]:
            ck.hist("with-@media")
        if meta.get("weave_kind"):
            ck.hist("gen:weave-" + meta["weave_kind"])
        if meta.get("cycle_len"):
            ck.hist(f"gen:cycle-{meta['cycle_len']}")
        if any(it[0] == "ext" and it[5] for it in items):
            ck.hist("gen:extender-inside-@media")
        if "%" in text:
            ck.hist("gen:placeholder")
        if g[0] in ("panic", "timeout", "abort", "bad"):
            tags = ["crash"]
            msg = str(g[1])
            if g[0] == "panic" and "selector/extend/mod.rs" in msg and "different media queries" in msg and "unwrap()" in msg:
                tags.append("X4")
            if g[0] == "timeout" and m_exp.startswith("ok") and "chain" in m_exp.split(" "):
                tags.append("X5")
            fail(text, {"impl_observation": g[:2]}, tags)
            ck.count(text, False)
            continue
        expect = [t for t in m_exp.split(" ")[1:] if t not in ("chain", "clash")] if m_exp.startswith("ok") else None
        meta["clash"] = m_exp.startswith("ok") and "clash" in m_exp.split(" ")
        meta["chain"] = m_exp.startswith("ok") and "chain" in m_exp.split(" ")
        meta["ext_not"] = any(it[0] == "ext" and ":not(" in it[2] for it in items)
        # ---- errors the property demands
        if expect:
            ck.hist("expected-error:" + "+".join(expect))
            if g[0] == "ok":
                tags = []
                if "cross-media" in expect:
                    tags.append("D16")
                if "missing-target" in expect:
                    tags.append("D18")
                fail(text, {"impl_observation": "compiled: " + " | ".join(f"{k}: {v[0]}" for k, v in sorted(g[1].items())),
                            "expected_error": expect}, tags)
            ck.count(text, True)
            # tie on the as-found model still applies below when grass compiled
            if g[0] != "ok":
                continue
        if g[0] == "err":
            cls = err_class(g[1])
            if cls == "media-merge" and (m_run == "err media-merge" or (m_run == "unsupported" and xouts[n] == "err media-merge")):
                pass
            elif m_run == "unsupported":
                if xouts[n].startswith("ok"):
                    disagree({"case": text, "model_observation": xouts[n], "impl_observation": "error: " + g[1][:120]})
            elif m_run.startswith("ok") or (m_run.startswith("err") and m_run != "err " + cls):
                disagree({"case": text, "model_observation": m_run, "impl_observation": "error: " + g[1][:120]})
            ck.count(text, False)
            continue
        found = g[1]
        ids = rule_ids(items)
        originals = {it[1]: it[2] for it in items}
        # ---- placeholders never reach the output (a statement about text)
        if "%" in (g[2] or ""):
            fail(text, {"impl_observation": g[2][:300], "why": "placeholder in output"}, ["placeholder-in-output"])
        # ---- tie: model's rewritten selectors vs grass's, semantically
        if m_run.startswith("ok"):
            msels = m_run.split(" ")[1:]
            ck.hist("tie:in-fragment")
            for rid, ms in zip(ids, msels):
                gs = found.get(rid, (None,))[0]
                if (ms == "-") != (gs is None):
                    disagree({"case": text, "rule": rid, "model_observation": unhex(ms) if ms != "-" else None, "impl_observation": gs})
                elif gs is not None and len(gs) <= 2500:
                    follow.append(f"sel equivspec {H(gs)} {ms} {seed * 53 + n} {NR} 0")
                    fmeta.append(("tie", n, rid, gs, unhex(ms)))
        elif m_run == "unsupported" and xouts[n].startswith("ok"):
            # complex extenders: model = extend_compound/unify_complex/extend_complex/weave; compared as text first
            msels = xouts[n].split(" ")[1:]
            ck.hist("tie:weave-fragment")
            if meta.get("weave_kind"):
                ck.hist("tie:weave-fragment:" + meta["weave_kind"])
            all_text = True
            for rid, ms in zip(ids, msels):
                gs = found.get(rid, (None,))[0]
                if (ms == "-") != (gs is None):
                    all_text = False
                    disagree({"case": text, "rule": rid, "model_observation": unhex(ms) if ms != "-" else None, "impl_observation": gs})
                elif gs is not None and pe_norm(gs) != pe_norm(unhex(ms)):
                    all_text = False
                    if len(gs) <= 2500:
                        follow.append(f"sel equivspec {H(gs)} {ms} {seed * 53 + n} {NR} 0")
                        fmeta.append(("tie", n, rid, gs, unhex(ms)))
                    else:
                        disagree({"case": text, "rule": rid, "model_observation": unhex(ms)[:300], "impl_observation": gs[:300]})
                elif gs is not None and pe_norm(gs) != pe_norm(originals[rid]):
                    ck.hist("tie:weave-rule-rewritten-text-equal")
            ck.hist("tie:weave-sheet-" + ("text-equal" if all_text else "text-differs"))
            if meta["chain"]:
                # chains / cycles as whole sheets: add_extension + extend_existing_extensions (Grass.Extend.addExtensionX)
                kind = f"cycle-{meta['cycle_len']}" if meta.get("cycle_len") else f"hops-{meta['hops']}" if meta.get("hops") else "other"
                ck.hist(f"tie:chain-sheet:{kind}:" + ("text-equal" if all_text else "text-differs"))
        elif m_run == "unsupported" and xouts[n].startswith("err"):
            disagree({"case": text, "model_observation": xouts[n], "impl_observation": "compiled"})
        elif m_run == "unsupported":
            ck.cov["unsupported_dropped"] += 1
            ck.hist("tie:outside-fragment")
        else:
            disagree({"case": text, "model_observation": m_run, "impl_observation": "compiled"})
        if expect:
            continue
        # ---- direct oracle on grass's own output, every rule
        d = driver_items(items)
        mode = "sub" if meta["complex_extender"] else "iff"
        rewritten = False
        extenders = " ".join(H(it[2]) for it in items if it[0] == "ext")
        for rid in ids:
            gs = found.get(rid, (None,))[0]
            S = originals[rid]
            if gs is not None and " ".join(gs.split()) != " ".join(S.split()):
                rewritten = True
            if gs is not None and len(gs) > 2500:
                # weave output with hundreds of complexes: judging it would dominate the run
                ck.hist("direct:selector-too-large(not judged)")
                continue
            if meta["ext_not"]:
                # an extender that negates (`:not(..)`) makes "credited" non-monotone: not judged
                ck.hist("direct:extender-with-:not(not judged)")
            elif mode == "sub" and meta["has_not"]:
                ck.hist("direct:complex-extender-under-not(not judged)")
            else:
                follow.append(f"ext credited sub {seed * 59 + n} {NR} {EXH} {H(S)} {H(gs) if gs else '-'} {d}")
                fmeta.append(("sub", n, rid, gs, S))
                if mode == "iff":
                    follow.append(f"ext credited sup {seed * 59 + n} {NR} {EXH} {H(S)} {H(gs) if gs else '-'} {d}")
                    fmeta.append(("sup", n, rid, gs, S))
                elif not meta["has_not"]:
                    follow.append(f"ext credited law {seed * 61 + n} {NR} 0 {H(S)} {H(gs) if gs else '-'} {d}")
                    fmeta.append(("law", n, rid, gs, S))
            if gs is not None:
                follow.append(f"ext specific {H(S)} {H(gs)} {extenders}")
                fmeta.append(("specific", n, rid, gs, S))
                # judged only with one @extend whose extender is one compound: then the source specificity of every simple
                # of the extender (mod.rs:989, first registration wins) is the extender's own specificity
                if not meta["sel_pseudo"] and meta["n_ext"] == 1 and all("," not in it[2] for it in items if it[0] == "ext"):
                    follow.append(f"ext floor {seed * 71 + n} {NR} {H(S)} {H(gs)} {d}")
                    fmeta.append(("floor", n, rid, gs, S))
            # order independence: the same rule in the reversed stylesheet.  Not judged when a complex extender takes
            # part in a chain/cycle (`.y + .x {@extend .y}`): the credited set is an infinite unrolling of which every
            # order emits a different finite part — the property only promises a subset there.
            if meta["chain"] and meta["complex_extender"]:
                ck.hist("direct:order-with-recursive-complex-extender(not judged)")
            elif sw[0] == "ok":
                gs2 = sw[1].get(rid, (None,))[0]
                if (gs is None) != (gs2 is None):
                    fail(text, {"rule": rid, "impl_observation": gs, "reversed_order": gs2, "why": "rule present in one order only"},
                         ["order"])
                elif gs is not None:
                    follow.append(f"sel equiv {H(gs)} {H(gs2)} {seed * 67 + n} {NR} 0")
                    fmeta.append(("order", n, rid, gs, gs2))
        if sw[0] not in ("ok",) and g[0] == "ok":
            if sw[0] in ("panic", "timeout", "abort", "bad"):
                fail(sheet_text(list(reversed(items))), {"impl_observation": sw[:2]}, ["crash"])
            else:
                fail(text, {"impl_observation": "compiled", "reversed_order": "error: " + str(sw[1])[:120],
                            "why": "compiles in one order only"}, ["order"])
        sheets[n][1]["rewritten"] = rewritten
        if n % 131 == 0:
            ck.sample({"sheet": text, "impl": {k: v[0] for k, v in found.items()}, "model_as_found": m_run if not m_run.startswith("ok") else
                       [unhex(x) if x != "-" else None for x in m_run.split(" ")[1:]]})
    lap("classified")
    fouts = driver(follow)
    lap("follow-up verdicts")
    judged = {}
    for (what, n, rid, a, b), ans in zip(fmeta, fouts):
        text = texts[n]
        if ans.startswith("ok holds"):
            if what in ("sup", "sub") and int(ans.split(" ")[3]) > 0:
                judged[n] = True
            continue
        if ans == "ok 1":
            continue
        if not ans.startswith("ok"):
            ck.hist(f"direct:{what}-not-judged({ans.split(' ')[0]})")
            continue
        if what == "tie":
            S0 = {it[1]: it[2] for it in sheets[n][0]}[rid]
            if " ".join(S0.split()) in duplicated_selectors(sheets[n][0]):
                fail(text, {"rule": rid, "impl_observation": a, "model_observation": b, "context": dec(ans),
                            "why": "a rule whose selector is written twice was not extended (address-dependent)"}, ["too-little", "X6"])
            else:
                disagree({"case": text, "rule": rid, "impl_observation": a, "model_observation": b,
                          "differing_context": dec(ans)})
        elif what in ("sup", "sub", "law"):
            why = {"sup": "the credited original matches a context the rewritten selector does not (extension matches too little)",
                   "sub": "the rewritten selector matches a context the credited original does not (extension matches too much)",
                   "law": "original selector matches a context the rewritten one does not (first law)"}[what]
            fail(text, {"rule": rid, "original": b, "impl_observation": a, "context": dec(ans), "why": why},
                 [{"sup": "too-little", "sub": "too-much", "law": "first-law"}[what]])
        elif what == "floor":
            fail(text, {"rule": rid, "impl_observation": a, "original": b, "context": dec(ans),
                        "why": "second law: where the extender put in place of its target matches, no matching complex of the output "
                               "is as specific as the extender"}, ["specificity-floor"])
        elif what == "specific":
            fail(text, {"rule": rid, "impl_observation": a, "original": b, "why": "a generated complex is less specific than every extender"},
                 ["specificity"])
        elif what == "order":
            fail(text, {"rule": rid, "impl_observation": a, "reversed_order": b, "context": dec(ans),
                        "why": "rule matches different elements when the stylesheet order is reversed"}, ["order"])
    for n, ((items, meta), text) in enumerate(zip(sheets, texts)):
        if impl[n][0] == "ok" and not [t for t in outs[2 * n + 1].split(" ")[1:] if t not in ("chain", "clash")]:
            ck.count(text, bool(meta.get("rewritten")) and judged.get(n, False))

    # class tags of the two known multi-extension deviations (computed, not guessed):
    #   X2: >= 2 @extends, some unification of the stylesheet can fail (two different types / ids / pseudo-elements occur), the
    #       failure is a missing match / an order difference, and — inside the modelled fragment — the model reproduces grass
    #   X3: a complex extender in a stylesheet using both `+` and `~`, the rewritten selector matches too much
    tie_ok = {}
    for (what, n, rid, a, b), ans in zip(fmeta, fouts):
        if what == "tie":
            tie_ok[n] = tie_ok.get(n, True) and ans.startswith("ok holds")
    index_of = {t: k for k, t in enumerate(texts)}
    x3 = set()
    for i, (_, case, payload, tags) in enumerate(failing):
        n = index_of.get(case, -1)
        if n < 0 or not tags:
            continue
        meta = sheets[n][1]
        sheet_txt = " ".join(it[2] for it in sheets[n][0])
        if tags[0] == "too-much" and meta["complex_extender"] and "+" in sheet_txt and "~" in sheet_txt:
            tags.append("X3")
            x3.add((n, payload.get("rule")))
    for i, (_, case, payload, tags) in enumerate(failing):
        n = index_of.get(case, -1)
        if n < 0 or not tags or tags[0] not in ("too-little", "order"):
            continue
        meta = sheets[n][1]
        S0 = {it[1]: it[2] for it in sheets[n][0]}.get(payload.get("rule"), "")
        if "X6" in tags:
            pass
        elif " ".join(S0.split()) in duplicated_selectors(sheets[n][0]):
            # X6: two style rules with equal selectors — the second one is sometimes not registered (hash by address, equality by value)
            tags.append("X6")
        elif tags[0] == "order" and (n, payload.get("rule")) in x3:
            tags.append("X3")          # one of the two orders contains the wrongly woven complex
        elif meta["n_ext"] >= 2 and meta.get("clash") and (not outs[2 * n].startswith("ok") or tie_ok.get(n, False)):
            # X2: an alternative dropped by a failed unification is never reconsidered (incremental extension); possible only
            # when some unification of the stylesheet can fail (Grass.Extend.canClash) and several @extends interact
            tags.append("X2")
            payload["model_reproduces_grass"] = outs[2 * n].startswith("ok")
        payload["tags"] = tags

    failing.sort(key=lambda f: f[0])
    reported = 0
    for _, case, payload, tags in failing:
        if ck.impl_violation(case, payload, tags=tags):
            reported += 1
    ck.cov["disagreement_samples"] = ck.disagreements
    ck.cov["failing_cases_by_tag"] = {}
    for _, _, _, tags in failing:
        key = ",".join(tags) or "untagged"
        ck.cov["failing_cases_by_tag"][key] = ck.cov["failing_cases_by_tag"].get(key, 0) + 1
    ck.cov["failing_samples_unattributed"] = [
        {"case": c, "tags": t, "why": p.get("why"), "rule": p.get("rule"), "impl": str(p.get("impl_observation"))[:300],
         "context": p.get("context"), "reversed": p.get("reversed_order"), "extender": p.get("extender")}
        for _, c, p, t in failing if not set(t) & {"D16", "D18", "X2", "X3", "X5", "X6"}][:80]
    ck.cov["failing_samples"] = [{"case": c, "tags": t, "why": p.get("why"), "rule": p.get("rule"), "impl": str(p.get("impl_observation"))[:160],
                                  "context": p.get("context")} for _, c, p, t in failing[:40]]
    if ck.cov["model_disagreements"] and not reported:
        ck.unproved("correspondence-broken", {"correspondence": "Grass.Extend.run (as-found switches) vs grass rule selectors",
                                              "cases": ck.disagreements})
    return ck.finish()


def replay(path):
    r = json.load(open(path))
    ck = Check("C10", "quick", 0)
    ck.do_build_runner()
    pool = RunnerPool(1)
    print(json.dumps(r, indent=1))
    if r.get("case"):
        print("grass now:", compile_sheets(pool, [r["case"]])[0][:2])
    return 0
