"""C07 — numbers are IEEE doubles with Sass rounding, modulo and printing rules.

Cases are expression trees over decimal *literal texts* (python never evaluates anything
numerically: the Lean model parses the same text grass parses).  Each case is rendered as one
rule `x{i:N; v: <expr>}`; hundreds of rules per compile; both output styles.

  (b) tie    : grass's printed text == text printed by the model of the code as it stands
  (c) direct : P̂ evaluated by the Lean driver on grass's own text: shape, correct rounding,
               re-read (`num check`), and — for comparisons / integer checks — agreement with the
               tolerance-aware result (`num eval`, first answer = the code as it stands, proved
               tolerance-aware by C07_lt_le_now; the second answer is the old exact-order variant).
"""
import json
import re
from decimal import Decimal, getcontext
import struct

from vlib import Check, RunnerPool, compile_job, driver, hexs, unhex, log, known_findings

getcontext().prec = 60

D15 = "D15-reread-11th-digit"

BIN = {"add": "+", "sub": "-", "mul": "*", "mod": "%", "eq": "==", "ne": "!=", "lt": "<", "le": "<=",
       "gt": ">", "ge": ">="}
ARITH = ["add", "sub", "mul", "div", "mod"]
CMP = ["eq", "ne", "lt", "le", "gt", "ge"]
UN_NUM = ["round", "ceil", "floor", "abs", "neg", "pos"]


# ---------------------------------------------------------------------------------------------
# expression trees:  ("L", text) | ("U", op, a, variant) | ("B", op, a, b, variant)
# ---------------------------------------------------------------------------------------------

def rpn(t):
    if t[0] == "L":
        return ["L" + t[1]]
    if t[0] == "U":
        return rpn(t[2]) + [t[1]]
    return rpn(t[2]) + rpn(t[3]) + [t[1]]


def sass(t):
    k = t[0]
    if k == "L":
        s = t[1]
        return f"({s})" if s[0] in "+-" else s
    if k == "U":
        op, a, var = t[1], sass(t[2]), t[3]
        if op == "neg":
            return f"(-({a}))"
        if op == "pos":
            return f"(+({a}))"
        if op in ("round", "ceil", "floor", "abs"):
            return f"math.{op}({a})" if var else f"{op}({a})"
        if op == "cat":
            return f'(({a}) + "")'
        if op == "interp":
            return f'"x#{{{a}}}"'
        if op.startswith("nth"):
            n = int(op[3:])
            return f"nth({' '.join(str(i) for i in range(1, n + 1))}, {a})"
        raise ValueError(op)
    op, a, b, var = t[1], sass(t[2]), sass(t[3]), t[4]
    if op == "div":
        return f"math.div({a}, {b})" if var else f"({a} / {b})"
    return f"({a} {BIN[op]} {b})"


def ops_of(t, acc=None):
    acc = [] if acc is None else acc
    if t[0] == "U":
        acc.append(t[1][:3] if t[1].startswith("nth") else t[1])
        ops_of(t[2], acc)
    elif t[0] == "B":
        acc.append(t[1])
        ops_of(t[2], acc)
        ops_of(t[3], acc)
    return acc


def lits_of(t, acc=None):
    acc = [] if acc is None else acc
    if t[0] == "L":
        acc.append(t[1])
    else:
        for x in t[2:4]:
            if isinstance(x, tuple):
                lits_of(x, acc)
    return acc


def size(t):
    return 1 if t[0] == "L" else 1 + sum(size(x) for x in t[2:4] if isinstance(x, tuple))


# ---------------------------------------------------------------------------------------------
# literal generators (texts only)
# ---------------------------------------------------------------------------------------------

def plain(d):
    """Decimal -> positional text without exponent."""
    s = format(d, "f")
    if "." in s:
        s = s.rstrip("0").rstrip(".")
    return s if s not in ("", "-") else "0"


DELTAS = ["1e-12", "4e-12", "4.9e-12", "5e-12", "5.1e-12", "6e-12", "9e-12", "1e-11", "1.1e-11", "2e-11",
          "4.9e-11", "5e-11", "5.1e-11", "1e-10", "1e-13", "1e-14", "0"]
INTS = [0, 1, 2, 3, 5, 7, 10, 16, 100, 255, 1000, 4096, 65536, 123456, 10 ** 6, 10 ** 9, 10 ** 12, 10 ** 15]
BELOW1 = ["0.99999999995", "0.999999999949", "0.99999999999", "0.9999999999", "0.99999999994",
          "0.999999999951", "0.9999999999499999", "0.99999999995000001", "0.999999999999", "0.9999999999999999",
          "0.99999999989", "0.09999999999", "0.009999999999", "0.99999999990000005"]
BOUND = ["1e-10", "1e-11", "5e-11", "4.9999e-11", "5.0001e-11", "0.00000000005", "0.00000000004999",
         "0.00000000015", "0.00000000025", "0.0000000001", "0.00000000001", "0.000000000049", "0.000000000051",
         "0.0000000000499999999", "0.00000000005000000001", "1e-12", "9.9e-11", "0.00000000035", "0.12345678904",
         "0.12345678905", "0.123456789049", "0.1234567890499999", "0.12345678915", "0.12345678925"]
EXPFORM = ["1.5e3", "2E-4", "1e+2", ".5", "+.5e1", "1.5E+2", "12e0", "7e-1", "1e18", "1e-12", "2.5e17", "+3", "0.0",
           "-0.0", "-0", "00.5", "1.50", "0001", "1e0", "5e-01"]


def lit_nearint(rng):
    n = rng.choice(INTS[:14])
    d = Decimal(rng.choice(DELTAS))
    v = Decimal(n) + (d if rng.random() < 0.5 else -d)
    return plain(v)


def lit_half(rng):
    n = rng.choice(INTS[:12])
    d = Decimal(rng.choice(DELTAS))
    v = Decimal(n) + Decimal("0.5") + (d if rng.random() < 0.5 else -d)
    return plain(v)


def lit_tie(rng):
    # exact binary ties at the 10th digit: odd k / 2^11 ; and decimal ...5 at the 11th digit
    if rng.random() < 0.5:
        k = rng.randrange(1, 1 << 14) | 1
        return plain(Decimal(k) / Decimal(2048))
    digs = "".join(rng.choice("0123456789") for _ in range(10)) + "5"
    return f"{rng.choice(['0', '1', '12', '255'])}.{digs}"


def lit_dec(rng):
    ip = rng.choice(["0", "0", str(rng.randrange(1, 10)), str(rng.randrange(10, 100000))])
    nd = rng.choice([1, 2, 3, 5, 8, 9, 10, 10, 11, 11, 12, 13, 15, 18, 22])
    return ip + "." + "".join(rng.choice("0123456789") for _ in range(nd))


def lit_mag(rng):
    e = rng.randrange(-12, 19)
    nd = rng.choice([1, 1, 2, 3, 6, 10, 15, 17])
    m = rng.randrange(10 ** (nd - 1), 10 ** nd)
    v = Decimal(m).scaleb(e - nd + 1)
    if rng.random() < 0.25:
        return f"{m}e{e - nd + 1}"
    return plain(v)


def lit_bits(rng):
    e = rng.randrange(1023 - 40, 1023 + 60)
    bits = (e << 52) | rng.getrandbits(52)
    f = struct.unpack(">d", struct.pack(">Q", bits))[0]
    return repr(f)


def lit_int(rng):
    return str(rng.choice(INTS + [rng.randrange(0, 30), rng.randrange(0, 10 ** 6)]))


LIT_CLASSES = [("nearint", lit_nearint, 5), ("half", lit_half, 4), ("tie", lit_tie, 3), ("dec", lit_dec, 5),
               ("mag", lit_mag, 5), ("bits", lit_bits, 5), ("int", lit_int, 2),
               ("below1", lambda r: r.choice(BELOW1), 3), ("bound", lambda r: r.choice(BOUND), 3),
               ("expform", lambda r: r.choice(EXPFORM), 1)]
_LW = [w for _, _, w in LIT_CLASSES]


def gen_lit(rng, hist=None):
    name, f, _ = rng.choices(LIT_CLASSES, weights=_LW)[0]
    s = f(rng)
    if s[0] not in "+-" and rng.random() < 0.4:
        s = "-" + s
    if hist is not None:
        hist("lit:" + name)
    return ("L", s)


def gen_num(rng, depth, hist=None):
    """an expression of number type"""
    if depth <= 0 or rng.random() < 0.3:
        return gen_lit(rng, hist)
    r = rng.random()
    if r < 0.65:
        op = rng.choice(ARITH)
        a = gen_num(rng, depth - 1, hist)
        if rng.random() < 0.25:
            # second operand close to the first / a small integer: cancellations, exact quotients
            b = rng.choice([a, ("L", rng.choice(["1", "2", "3", "10", "0.1", "0.5", "1e-11", "0", "-1", "1e11"]))])
        else:
            b = gen_num(rng, depth - 1, hist)
        return ("B", op, a, b, rng.random() < 0.5)
    return ("U", rng.choice(UN_NUM), gen_num(rng, depth - 1, hist), rng.random() < 0.5)


def gen_close_pair(rng, hist):
    a = gen_lit(rng, hist)
    s = a[1]
    try:
        v = Decimal(s)
    except Exception:
        return a, gen_lit(rng, hist)
    d = Decimal(rng.choice(DELTAS))
    w = v + (d if rng.random() < 0.5 else -d)
    return a, ("L", plain(w))


def dyadic_text(q):
    """exact positional decimal text of a Fraction whose denominator is a power of two (integers only)"""
    n, d = q.numerator, q.denominator
    k = d.bit_length() - 1
    assert d == 1 << k
    neg, n = n < 0, abs(n)
    digs = str(n * 5 ** k)
    if k:
        digs = digs.rjust(k + 1, "0")
        digs = (digs[:-k] + "." + digs[-k:]).rstrip("0").rstrip(".")
    return ("-" if neg else "") + digs


def gen_parseround(rng, hist):
    """decimal -> double rounding of LONG digit strings (value.rs:996 `raw_text(start).parse::<f64>()`):
    the literal is the exact midpoint of two adjacent doubles d0 < d1 (tie: even mantissa wins), or a
    hair above / below it, or the full expansion of d0 / d1 with a perturbed tail; the observation
    `(literal - d0) * 2^k` is exactly 0 or 1 (Sterbenz), so the printed text exposes the last bit."""
    from fractions import Fraction as F
    e = rng.randrange(-30, 62)
    m = (1 << 52) | rng.getrandbits(52)
    if rng.random() < 0.15:
        m = rng.choice([1 << 52, (1 << 53) - 1, (1 << 52) + 1, (1 << 53) - 2])
    ulp = F(2) ** (e - 52)
    d0, mid = m * ulp, m * ulp + ulp / 2
    base = dyadic_text(mid)
    if "." not in base:
        base += ".0"
    var = rng.choice(["tie", "above", "below", "d0+", "d1-", "quarter"])
    if var == "tie":
        text = base
    elif var == "above":
        text = base + "0" * rng.randrange(0, 30) + "1"
    elif var == "below":
        ip, fp = base.split(".")
        n = int(ip + fp) * 10 ** 12 - 1
        digs = str(n).rjust(len(fp) + 13, "0")
        text = digs[:-(len(fp) + 12)] + "." + digs[-(len(fp) + 12):]
    elif var == "d0+":
        t = dyadic_text(d0)
        text = (t if "." in t else t + ".") + "0" * rng.randrange(1, 25) + str(rng.randrange(1, 10 ** 6))
    elif var == "d1-":
        text = dyadic_text(d0 + ulp * F(rng.choice([3, 5, 7, 15]), 16))
    else:
        text = dyadic_text(d0 + ulp / 4) + str(rng.randrange(10 ** 5))
        if "." not in text:
            text = dyadic_text(d0 + ulp / 4)
    if rng.random() < 0.2:                                  # the same digits in exponent spelling
        ip, fp = (text.split(".") + [""])[:2]
        text = f"{ip + fp}e-{len(fp)}" if fp and rng.random() < 0.5 else f"{text}E+0"
        hist("parseround:exponent-spelling")
    hist("parseround:" + var)
    hist("parseround:sigdigits>17" if len(text.replace(".", "").strip("0")) > 17 else "parseround:sigdigits<=17")
    neg = rng.random() < 0.3
    sg = "-" if neg else ""
    return ("B", "mul", ("B", "sub", ("L", sg + text), ("L", sg + dyadic_text(d0)), False), ("L", dyadic_text(1 / ulp)), False)


def gen_case(rng, kind, hist):
    if kind == "lit":
        return gen_lit(rng, hist)
    if kind == "str":
        return ("U", rng.choice(["cat", "interp"]), gen_num(rng, rng.choice([0, 0, 1]), hist), False)
    if kind == "arith":
        return gen_num(rng, rng.choice([1, 1, 2, 3]), hist)
    if kind == "cmp":
        if rng.random() < 0.6:
            a, b = gen_close_pair(rng, hist)
        else:
            a, b = gen_num(rng, 1, hist), gen_num(rng, 1, hist)
        if rng.random() < 0.5:
            a, b = b, a
        return ("B", rng.choice(CMP), a, b, False)
    if kind == "divchain":
        # chains through math.div / `/`: ((a / b) / c) * d, a / (b / c), (a * b) / (c * d) …
        a, b, c, d = (gen_lit(rng, hist) for _ in range(4))
        dv = lambda x, y: ("B", "div", x, y, rng.random() < 0.7)
        shape = rng.randrange(6)
        if shape == 0:
            return ("B", "mul", dv(dv(a, b), c), d, False)
        if shape == 1:
            return dv(a, dv(b, c))
        if shape == 2:
            return dv(("B", "mul", a, b, False), ("B", "mul", c, d, False))
        if shape == 3:
            return ("B", rng.choice(["add", "sub"]), dv(a, b), dv(c, d), False)
        if shape == 4:
            return ("U", rng.choice(["round", "floor", "ceil", "abs"]), dv(dv(a, b), dv(c, d)), rng.random() < 0.5)
        return ("B", rng.choice(CMP), dv(("B", "mul", a, b, False), b), a, False)      # (a*b)/b vs a
    if kind == "modbound":
        # `%` with negative operands / mixed signs, dividend within δ of a multiple of the divisor
        bs = rng.choice(["1", "3", "0.5", "0.1", "2.5", "7", "0.25", "1e-10", "12", "0.3"])
        k = rng.choice([0, 1, 2, 3, 5, 10, 33, 1000])
        d = Decimal(rng.choice(DELTAS))
        v = Decimal(bs) * k + (d if rng.random() < 0.5 else -d)
        a = ("L", plain(v if rng.random() < 0.5 else -v))
        b = ("L", bs if rng.random() < 0.5 else "-" + bs)
        m = ("B", "mod", a, b, False)
        r = rng.random()
        if r < 0.5:
            return m
        if r < 0.65:
            return ("B", rng.choice(["eq", "ne"]), m, ("L", rng.choice(["0", bs, "-" + bs])), False)
        if r < 0.8:
            return ("B", rng.choice(["lt", "le", "gt", "ge"]), m, ("L", rng.choice(["0", bs, "-" + bs])), False)
        if r < 0.9:
            return ("B", "div", ("L", "1"), m, True)          # sign of a zero remainder
        return ("B", "mod", m, ("L", rng.choice(["-" + bs, bs, "2", "-2"])), False)
    if kind == "parseround":
        return gen_parseround(rng, hist)
    if kind == "nth":
        n = rng.choice([3, 5])
        idx = rng.choice([0, 1, 2, n - 1, n, n + 1, -1, -n, -n - 1])
        d = Decimal(rng.choice(DELTAS))
        v = Decimal(idx) + (d if rng.random() < 0.5 else -d)
        if rng.random() < 0.15:
            return ("U", f"nth{n}", gen_num(rng, 1, hist), False)
        return ("U", f"nth{n}", ("L", plain(v)), False)
    raise ValueError(kind)


# minimised past failures and the witnesses of the known findings: run first on every run
CORPUS = [
    ("L", "0.12345678904"),                                   # D15 (known): prints 0.123456789, which != it
    ("B", "lt", ("L", "1"), ("L", "1.000000000001"), False),  # C07-ORD (fixed da52790): < was exact although == is fuzzy
    ("B", "le", ("L", "1.000000000001"), ("L", "1"), False),
    ("B", "gt", ("L", "1.000000000001"), ("L", "1"), False),
    ("B", "ge", ("L", "1"), ("L", "1.000000000001"), False),
    ("U", "nth3", ("L", "-3.000000000001"), False),
    ("U", "nth3", ("L", "3.000000000001"), False),            # C07-ORD (fixed ca51d14): range test was exact, before the int check
    ("L", "0.99999999999"),                                   # D5 (fixed): compressed printed 0
    ("L", "-0.99999999999"),
    ("L", "0.999999999949"),
    ("L", "-0.00000000004"),                                  # "-0" must not appear
    ("L", "-0.0"),
    ("B", "div", ("L", "1"), ("L", "2048"), True),            # exact tie at the 10th digit: half-even
    ("B", "div", ("L", "3"), ("L", "2048"), False),
    ("B", "mod", ("L", "-1e-20"), ("L", "3"), False),         # rem_euclid rounding edge: prints 3
    ("B", "mod", ("L", "5"), ("L", "-3"), False),
    ("B", "mod", ("L", "-6"), ("L", "3"), False),
    ("B", "div", ("L", "1"), ("B", "mod", ("L", "-6"), ("L", "3"), False), True),   # -0 from fmod
    ("B", "mod", ("L", "5"), ("L", "0"), False),
    ("B", "div", ("L", "1"), ("L", "0"), True),
    ("B", "div", ("L", "-1"), ("L", "0"), True),
    ("B", "div", ("L", "0"), ("L", "0"), True),
    ("B", "add", ("L", "0.1"), ("L", "0.2"), False),
    ("U", "round", ("L", "2.5"), False),
    ("U", "round", ("L", "-2.5"), True),
    ("U", "round", ("L", "0.49999999999999994"), True),
    ("U", "nth3", ("L", "2.0000000000049"), False),
    ("U", "nth3", ("L", "2.00000000001"), False),
    ("U", "nth3", ("L", "0.000000000001"), False),
    ("U", "cat", ("L", "0.5"), False),
    ("U", "interp", ("L", "0.99999999999"), False),
]

SIZES = {"quick": {"lit": 9000, "str": 800, "arith": 3500, "cmp": 1500, "nth": 600, "divchain": 1500, "modbound": 1500,
                   "parseround": 800},
         "thorough": {"lit": 70000, "str": 4000, "arith": 28000, "cmp": 9000, "nth": 3000, "divchain": 12000,
                      "modbound": 12000, "parseround": 12000}}
SCAN_N = {"quick": 2000, "thorough": 25000}
MFN_N = {"quick": 1000, "thorough": 15000}


def gen_cases(ck, tier):
    rng = ck.rng
    cases = list(CORPUS)
    for kind, n in SIZES[tier].items():
        for _ in range(n):
            cases.append(gen_case(rng, kind, ck.hist))
    return cases


# ---------------------------------------------------------------------------------------------
# running
# ---------------------------------------------------------------------------------------------

RULE = re.compile(r"i:\s*(\d+);\s*v:\s*([^;}]*?)\s*;?\s*\}")
ERR_CLASS = [("Infinity or NaN toInt", "toInt"), ("is not an int", "notInt"), ("List index may not be 0", "zeroIdx"),
             ("Invalid index", "badIdx")]


def err_class(msg):
    for pat, c in ERR_CLASS:
        if pat in (msg or ""):
            return "err " + c
    return "err other:" + (msg or "")[:80]


def source(cases_idx):
    return '@use "sass:math";\n' + "\n".join(f"x{{i:{i}; v: {sass(t)}}}" for i, t in cases_idx)


def run_impl(pool, cases, model_err, B=250):
    """-> {(i, style): observation}; observation = 'ok <text>' | 'err <class>' | 'status …'"""
    obs = {}
    ok_idx = [i for i in range(len(cases)) if not model_err[i]]
    err_idx = [i for i in range(len(cases)) if model_err[i]]
    jobs, meta = [], []
    for off in range(0, len(ok_idx), B):
        chunk = ok_idx[off:off + B]
        src = source([(i, cases[i]) for i in chunk])
        for st in ("e", "c"):
            jobs.append(compile_job(src, style="compressed" if st == "c" else None, syntax="scss"))
            meta.append((chunk, st))
    for i in err_idx:                                   # expected errors: one compile each
        for st in ("e", "c"):
            jobs.append(compile_job(source([(i, cases[i])]), style="compressed" if st == "c" else None, syntax="scss"))
            meta.append(([i], st))
    answers = pool.map(jobs, timeout=30)
    retry = []
    for (chunk, st), ans in zip(meta, answers):
        if ans.get("status") == "ok":
            found = {int(m.group(1)): m.group(2) for m in RULE.finditer(ans.get("css") or "")}
            for i in chunk:
                obs[(i, st)] = ("ok " + found[i]) if i in found else "status missing-rule"
        elif len(chunk) == 1:
            i = chunk[0]
            if ans.get("status") == "err":
                obs[(i, st)] = err_class(ans.get("err", {}).get("message"))
            else:
                obs[(i, st)] = f"status {ans.get('status')} {ans.get('panic') or ''}"[:200]
        else:
            retry.append((chunk, st))
    if retry:                                           # a batch failed: attribute case by case
        jobs2, meta2 = [], []
        for chunk, st in retry:
            for i in chunk:
                jobs2.append(compile_job(source([(i, cases[i])]), style="compressed" if st == "c" else None, syntax="scss"))
                meta2.append((i, st))
        for (i, st), ans in zip(meta2, pool.map(jobs2, timeout=20)):
            if ans.get("status") == "ok":
                m = RULE.search(ans.get("css") or "")
                obs[(i, st)] = ("ok " + m.group(2)) if m else "status missing-rule"
            elif ans.get("status") == "err":
                obs[(i, st)] = err_class(ans.get("err", {}).get("message"))
            else:
                obs[(i, st)] = f"status {ans.get('status')} {ans.get('panic') or ''}"[:200]
    return obs


def dec_model(ans):
    """'ok <hex>' -> 'ok <text>'; errors unchanged"""
    if ans.startswith("ok "):
        return "ok " + unhex(ans[3:])
    return ans


def is_numeric_text(s):
    return bool(re.fullmatch(r"-?[0-9.]+", s))


def evaluate(ck, cases, pool, direct_only=False):
    # 1. the model (as it stands | specified ordering), both styles
    lines = []
    for t in cases:
        r = " ".join(rpn(t))
        lines.append(f"num eval e {r}")
        lines.append(f"num eval c {r}")
    outs = driver(lines)
    model = {}
    model_err, unsupported = [], []
    for i, t in enumerate(cases):
        for k, st in enumerate(("e", "c")):
            o = outs[2 * i + k]
            if " | " not in o:
                model[(i, st)] = (o, o)
            else:
                a, b = o.split(" | ")
                model[(i, st)] = (dec_model(a), dec_model(b))
        a = model[(i, "e")][0]
        unsupported.append(not (a.startswith("ok ") or a.startswith("err ")))
        model_err.append(a.startswith("err "))
    live = [i for i in range(len(cases)) if not unsupported[i]]
    ck.cov["unsupported_dropped"] += len(cases) - len(live)
    sub = [cases[i] for i in live]
    obs_sub = run_impl(pool, sub, [model_err[i] for i in live])
    obs = {(live[j], st): v for (j, st), v in obs_sub.items()}
    # 2. P̂ on grass's own text for numeric results
    chk_lines, chk_keys = [], []
    for i in live:
        for st in ("e", "c"):
            o = obs[(i, st)]
            if o.startswith("ok ") and is_numeric_text(o[3:]) and not ops_of(cases[i])[:1] in (["cat"], ["interp"]):
                top = ops_of(cases[i])[:1]
                if top and (top[0] in CMP or top[0] == "nth"):
                    continue
                chk_lines.append(f"num check {st} {hexs(o[3:])} {' '.join(rpn(cases[i]))}")
                chk_keys.append((i, st))
    verdict = dict(zip(chk_keys, driver(chk_lines))) if chk_lines else {}
    failing = []
    for i in live:
        t = cases[i]
        src = sass(t)
        ops = ops_of(t)
        top = ops[0] if ops else "lit"
        for st in ("e", "c"):
            o = obs[(i, st)]
            asfound, spec = model[(i, st)]
            nontrivial = not (t[0] == "L" and asfound == "ok " + t[1])
            ck.count(("c07", rpn(t), st), nontrivial)
            ck.hist("top:" + top)
            ck.hist("style:" + ("compressed" if st == "c" else "expanded"))
            ck.hist("size:" + str(min(size(t), 8)))
            ck.hist("impl:" + (o.split(" ")[0] if not o.startswith("err ") else o))
            if (i * 2 + (st == "c")) % 1999 == 0:
                ck.sample({"source": f"v: {src}", "style": st, "impl": o, "model": asfound})
            if not direct_only and o != asfound:
                ck.cov["model_disagreements"] += 1
                if len(ck.disagreements) < 5:
                    ck.disagreements.append({"source": f"v: {src}", "style": st, "model_observation": asfound,
                                             "impl_observation": o})
            fail, tags = None, []
            if o.startswith("status "):
                fail = "compilation did not finish normally: " + o
            elif o != asfound and (top in CMP or top == "nth"):
                fail = f"comparison / integer check disagrees with the tolerance-aware result {asfound!r}"
            v = verdict.get((i, st))
            if v is not None and fail is None:
                m = re.match(r"ok fin shape=(\d) round=(\d) reread=(\w) rereadX=(\d) d15=(\d) d15X=(\d) exact=(\d)", v)
                if m:
                    shape, rnd, rr, rrx, d15, d15x, exact = m.groups()
                    ck.hist("reread:" + rr)
                    if d15 != d15x:
                        ck.hist("d15 float-vs-exact differ")
                    if shape != "1":
                        fail = "printed text is not plain decimal notation (shape)"
                    elif rnd != "1":
                        fail = "printed text is not within half a unit of the 10th fractional digit"
                    elif rr == "0":
                        fail = "re-reading the printed text gives a number != the original"
                        if exact == "1" and d15 == "1":
                            tags = [D15]
                elif v.startswith("ok special"):
                    if not v.endswith("1"):
                        fail = "non-finite number not printed as Infinity/-Infinity/NaN"
                elif v.startswith("ok nonnum") or v.startswith("err") or v == "unsupported":
                    pass
                else:
                    fail = "driver could not judge: " + v
            if fail:
                failing.append({"source": f'@use "sass:math";\nx{{v: {src}}}', "style": st, "rpn": rpn(t),
                                "impl_observation": o, "model_observation": asfound, "old_exact_order_variant": spec,
                                "verdict": v, "expected_by_property": fail, "tags": tags, "size": size(t)})
    return failing



# ---------------------------------------------------------------------------------------------
# sass:math functions on arguments whose real-valued result is an exactly known rational
# (libm itself is outside the model: only these cases are checked; the expected text is the model's
#  print of the exact value, computed with integer arithmetic — never with floats)
# ---------------------------------------------------------------------------------------------

def _pow_exact(b, e):
    """b: Fraction, e: int -> Fraction or None (0^negative)"""
    from fractions import Fraction
    if b == 1:
        return Fraction(1)
    if b == -1:
        return Fraction(1 if e % 2 == 0 else -1)
    if abs(e) > 1100:
        return None
    if e >= 0:
        return b ** e
    return None if b == 0 else Fraction(1) / (b ** (-e))


def _is_double(q):
    """exactly representable as a normal f64"""
    if q == 0:
        return True
    n, d = abs(q.numerator), q.denominator
    if d & (d - 1):
        return False
    while n % 2 == 0:
        n //= 2
    return n < (1 << 53) and -1000 < (abs(q.numerator).bit_length() - d.bit_length()) < 1000


def _dec(q):
    """finite decimal text of a dyadic/decimal rational"""
    from decimal import Decimal, getcontext
    getcontext().prec = 1200
    return plain(Decimal(q.numerator) / Decimal(q.denominator))


def math_cases(rng=None):
    from fractions import Fraction as F
    out = []
    bases = ["2", "-2", "0.5", "10", "3", "-1", "1", "1.5", "-0.5", "4", "0.25", "-3", "7", "0.125", "16"]
    exps = [0, 1, 2, 3, 5, 10, 20, 31, 52, 53, 64, 100, -1, -2, -3, -10, -31, 1023, -1022,
            2147483647, 2147483648, 4294967296, 4294967297, -2147483649, 10000000000, 10000000001, 65536 * 65536 * 4]
    for b in bases:
        for e in exps:
            q = _pow_exact(F(b), e)
            if q is None or not _is_double(q) or (q != 0 and abs(q) >= F(10) ** 30):
                continue
            out.append((f"math.pow({b}, {e})", _dec(q)))
    for r in ["0", "1", "2", "1.5", "0.25", "100000", "12", "0.001953125", "3", "255", "1024", "0.5"]:
        q = F(r) * F(r)
        out.append((f"math.sqrt({_dec(q)})", r))
    for fn, deg, val in [("sin", 0, "0"), ("sin", 30, "0.5"), ("sin", 90, "1"), ("sin", 150, "0.5"), ("sin", 180, "0"),
                         ("sin", 270, "-1"), ("sin", -30, "-0.5"), ("sin", 360, "0"), ("cos", 0, "1"), ("cos", 60, "0.5"),
                         ("cos", 90, "0"), ("cos", 120, "-0.5"), ("cos", 180, "-1"), ("cos", 270, "0"), ("cos", 360, "1"),
                         ("tan", 0, "0"), ("tan", 45, "1"), ("tan", 135, "-1"), ("tan", 180, "0"), ("tan", -45, "-1")]:
        out.append((f"math.{fn}({deg}deg)", val))
        if deg % 90 == 0:
            out.append((f"math.{fn}({deg * 10 // 9}grad)", val))
            out.append((f"math.{fn}({F(deg, 360)}turn)" if deg % 360 == 0 else f"math.{fn}({_dec(F(deg, 360))}turn)", val))
    out += [("math.log(1)", "0"), ("math.log(8, 2)", "3"), ("math.log(100, 10)", "2"), ("math.log(0.5, 2)", "-1"),
            ("math.hypot(3, 4)", "5"), ("math.hypot(5, 12)", "13"), ("math.hypot(0.3, 0.4)", "0.5"),
            ("math.abs(-2.5)", "2.5"), ("math.percentage(0.5) == 50%", None)]
    if rng is not None:
        # random exactly-representable powers and perfect squares
        n = 0
        while n < 400:
            b = F(rng.randrange(-64, 65), rng.choice([1, 2, 4, 8, 16]))
            e = rng.randrange(-12, 25)
            q = _pow_exact(b, e)
            if b == 0 or q is None or not _is_double(q) or abs(q) >= F(10) ** 30 or (q != 0 and abs(q) < F(1, 10 ** 30)):
                continue
            out.append((f"math.pow({_dec(b)}, {e})", _dec(q)))
            n += 1
        for _ in range(300):
            r = F(rng.randrange(0, 1 << rng.choice([4, 10, 20, 26])), rng.choice([1, 2, 16, 1024, 1 << 20]))
            out.append((f"math.sqrt({_dec(r * r)})", _dec(r)))
            if rng.random() < 0.3:
                out.append((f"math.pow({_dec(r * r)}, 0.5)", _dec(r)))
    return [c for c in out if c[1] is not None]


def evaluate_math(ck, pool):
    cases = math_cases(ck.rng)
    lines = []
    for _, val in cases:
        lines += [f"num eval e L{val}", f"num eval c L{val}"]
    outs = driver(lines)
    failing = []
    for k, st in enumerate(("e", "c")):
        src = '@use "sass:math";\n' + "\n".join(f"x{{i:{i}; v: {e}}}" for i, (e, _) in enumerate(cases))
        ans = pool.map([compile_job(src, style="compressed" if st == "c" else None, syntax="scss")], timeout=30)[0]
        found = {int(m.group(1)): m.group(2) for m in RULE.finditer(ans.get("css") or "")} if ans.get("status") == "ok" else {}
        for i, (e, val) in enumerate(cases):
            want = dec_model(outs[2 * i + k].split(" | ")[0])
            got = ("ok " + found[i]) if i in found else f"status {ans.get('status')} {(ans.get('err') or {}).get('message', '')}"[:160]
            ck.count(("c07-math", e, st), True)
            ck.hist("math:" + e.split("(")[0])
            if got != want:
                failing.append({"source": f'@use "sass:math";\nx{{v: {e}}}', "style": st, "impl_observation": got,
                                "model_observation": want, "specified": want, "verdict": None, "size": 2, "tags": [],
                                "expected_by_property": f"sass:math function must agree with the real-valued function: "
                                                        f"exact value {val}"})
    return failing


# ---------------------------------------------------------------------------------------------
# `parse_number` as a prefix scanner (Lean `scanNumber`): spellings with signs, leading / trailing dots,
# exponents (complete, truncated, huge), long digit strings, followed by nothing / `%` / a unit / a dot
# ---------------------------------------------------------------------------------------------

SCAN_CORPUS = ["1e3", "1E-3", "1e+3", ".5", "5.", "+5", "1e400", "-1e400", "1e400px", "1e", "1em", "1e-x", "1e+", "5.e3",
               ".x", "+.5e1px", "1.5E2%", "1e3x", "-0px", "9007199254740993", ".", "+.", "-.e1",
               "1.7976931348623157e308", "1.7976931348623159e308", "1.797693134862315807e308", "1.797693134862315808e308",
               "179769313486231580793728971405303415079934132710037826936173778980444968292764750946649017977587207096330286416692887910946555547851940402630657488671505820681908902000708383676273854845817711531764475730270069855571366959622842914819860834936475292719074168444365510704342711559699508093042880177904174497791.999",
               "2.2250738585072014e-308", "1e308", "1e309", "0e999", "0.0e-999", "1E", "1e1e1", "00012.500e+01px"]
# precondition (the dispatcher in parse_single_expression, value.rs:318-328, 497-499, 1094-1117, is not part of the
# model): parse_number is entered on a digit, on `.` not followed by `.`, on a sign followed by a digit or `.`;
# units are lower-case or unknown words (Unit::from folds the case of known unit names — C08's subject).


def gen_scan_text(rng, hist):
    digs = lambda n: "".join(rng.choice("0123456789") for _ in range(n))
    sign = rng.choice(["", "", "", "+", "-", "-"])
    ip = rng.choice(["", "0", "5", "12", "007", str(rng.randrange(0, 10 ** 6)), digs(rng.randrange(18, 45)), "1", "9"])
    fp = rng.choice([None, None, "", "5", "25", "000", digs(rng.randrange(1, 12)), digs(rng.randrange(18, 60)), "0"])
    ex = rng.choice([None, None, None, "e3", "E-3", "e+3", "e", "E", "e+", "e-", "e-x", "e0", "e10", "e-12", "E+02", "e308",
                     "e309", "e400", "e-5", "e+x", "e1", "E1e1", f"e{rng.randrange(-30, 330)}", f"e-{rng.randrange(0, 300)}"])
    rest = rng.choice(["", "", "", "", "%", "px", "em", "ex", "x", "e", "E", "zz", "deg", ".", ".x", "rem"])
    text = sign + ip + ("" if fp is None else "." + fp) + (ex or "") + rest
    if ip == "" and fp in (None, ""):
        text = sign + "." + (ex or "") + rest if rng.random() < 0.5 else sign + "1" + (ex or "") + rest
    unit = re.search(r"[A-Za-z]+$", text)
    if ".." in text or (unit and len(unit.group(0)) > 1 and unit.group(0) != unit.group(0).lower()):
        return gen_scan_text(rng, hist)                     # outside the precondition stated above
    for key, cond in [("exp", ex is not None), ("trailing-dot", fp == ""), ("lead-dot", ip == "" and fp), ("sign" + sign, True),
                      ("unit", rest not in ("", ".", ".x")), ("long-digits", len(ip) + len(fp or "") > 17),
                      ("rest-dot", rest.startswith("."))]:
        if cond:
            hist("scan:" + key)
    return text


def evaluate_scan(ck, pool, n):
    texts = list(SCAN_CORPUS) + [gen_scan_text(ck.rng, ck.hist) for _ in range(n)]
    texts = list(dict.fromkeys(texts))
    failing = []
    outs = driver([f"num scan {st} {hexs(t)}" for t in texts for st in ("e", "c")])
    model = {}
    for i, t in enumerate(texts):
        for k, st in enumerate(("e", "c")):
            o = outs[2 * i + k]
            if o.startswith("ok "):
                parts = o.split(" ")
                model[(i, st)] = ("ok " + unhex(parts[1]), parts[2], parts[3])
            else:
                model[(i, st)] = (o, "", "")
    live = [i for i in range(len(texts)) if model[(i, "e")][0] != "unsupported"]
    ck.cov["unsupported_dropped"] += len(texts) - len(live)
    ok_idx = [i for i in live if model[(i, "e")][0].startswith("ok ")]
    err_idx = [i for i in live if not model[(i, "e")][0].startswith("ok ")]
    jobs, meta = [], []
    B = 250
    for off in range(0, len(ok_idx), B):
        chunk = ok_idx[off:off + B]
        src = "\n".join(f"x{{i:{i}; v: {texts[i]};}}" for i in chunk)
        for st in ("e", "c"):
            jobs.append(compile_job(src, style="compressed" if st == "c" else None, syntax="scss"))
            meta.append((chunk, st))
    for i in err_idx:
        jobs.append(compile_job(f"x{{i:{i}; v: {texts[i]};}}", syntax="scss"))
        meta.append(([i], "e"))
    obs = {}
    retry = []
    for (chunk, st), ans in zip(meta, pool.map(jobs, timeout=30)):
        if ans.get("status") == "ok":
            found = {int(m.group(1)): m.group(2) for m in RULE.finditer(ans.get("css") or "")}
            for i in chunk:
                obs[(i, st)] = ("ok " + found[i]) if i in found else "status missing-rule"
        elif len(chunk) == 1:
            msg = (ans.get("err") or {}).get("message") or ""
            obs[(chunk[0], st)] = "err digit" if ans.get("status") == "err" and "Expected digit." in msg \
                else f"status {ans.get('status')} {msg or ans.get('panic') or ''}"[:160]
        else:
            retry += [(i, st) for i in chunk]
    if retry:
        jobs2 = [compile_job(f"x{{i:{i}; v: {texts[i]};}}", style="compressed" if st == "c" else None, syntax="scss")
                 for i, st in retry]
        for (i, st), ans in zip(retry, pool.map(jobs2, timeout=20)):
            if ans.get("status") == "ok":
                m = RULE.search(ans.get("css") or "")
                obs[(i, st)] = ("ok " + m.group(2)) if m else "status missing-rule"
            else:
                msg = (ans.get("err") or {}).get("message") or ""
                obs[(i, st)] = "err digit" if "Expected digit." in msg else f"status {ans.get('status')} {msg}"[:160]
    for (i, st), o in sorted(obs.items()):
        want, rest, same = model[(i, st)]
        t = texts[i]
        ck.count(("c07-scan", t, st), True)
        ck.hist("scan-result:" + ("err digit" if want == "err digit" else "Infinity" if "Infinity" in want else "ok"))
        if rest and rest != "rest=0":
            ck.hist("scan-result:rest>0")
        if same == "same=0":
            failing.append({"source": f"x{{v: {t};}}", "style": st, "impl_observation": o, "model_observation": want,
                            "verdict": "scanNumber and parseLit disagree on the consumed prefix (theorem C07_scan_sound broken)",
                            "expected_by_property": "internal: scanner/grammar mismatch", "tags": [], "size": 1})
        if o != want:
            ck.cov["model_disagreements"] += 1
            if len(ck.disagreements) < 5:
                ck.disagreements.append({"source": f"v: {t}", "style": st, "model_observation": want, "impl_observation": o})
            failing.append({"source": f"x{{v: {t};}}", "style": st, "impl_observation": o, "model_observation": want,
                            "verdict": None, "tags": [], "size": 1,
                            "expected_by_property": "number literal must denote the correctly rounded double of its decimal "
                                                    "text (prefix taken by parse_number), printed by the printing rule"})
    return failing


def evaluate_mfn(ck, pool, n):
    """math.min / math.max / math.clamp / math.percentage on literal arguments (Lean minD maxD clampD percentageD)"""
    rng = ck.rng
    cases = [("clamp", ["1", "1.000000000004", "1"]), ("clamp", ["1", "0.5", "3"]), ("clamp", ["3", "2", "1"]),
             ("min", ["1", "1.000000000001", "0.999999999999"]), ("max", ["1", "1.000000000001"]), ("min", ["0", "-0"]),
             ("max", ["-0", "0"]), ("percentage", ["0.123"]), ("percentage", ["1e400"]), ("min", ["1e400", "5"]),
             ("clamp", ["-1e400", "7", "1e400"]), ("percentage", ["0.07"])]
    for _ in range(n):
        fn = rng.choice(["min", "max", "clamp", "percentage", "min", "max", "clamp"])
        k = {"clamp": 3, "percentage": 1}.get(fn, rng.choice([2, 2, 3, 4]))
        a = gen_lit(rng, ck.hist)[1]
        args = [a]
        while len(args) < k:
            r = rng.random()
            if r < 0.6:
                try:
                    v = Decimal(rng.choice(args))
                    d = Decimal(rng.choice(DELTAS))
                    args.append(plain(v + (d if rng.random() < 0.5 else -d)))
                    continue
                except Exception:
                    pass
            args.append(gen_lit(rng, ck.hist)[1])
        rng.shuffle(args)
        cases.append((fn, args))
    outs = driver([f"num mfn {st} {fn} {' '.join(args)}" for fn, args in cases for st in ("e", "c")])
    failing = []
    live = [i for i in range(len(cases)) if outs[2 * i].startswith("ok ")]
    ck.cov["unsupported_dropped"] += len(cases) - len(live)
    sassarg = lambda a: f"({a})" if a[0] in "+-" else a
    for k, st in enumerate(("e", "c")):
        found = {}
        for off in range(0, len(live), 300):
            chunk = live[off:off + 300]
            src = '@use "sass:math";\n' + "\n".join(
                f"x{{i:{i}; v: math.{cases[i][0]}({', '.join(sassarg(a) for a in cases[i][1])})}}" for i in chunk)
            ans = pool.map([compile_job(src, style="compressed" if st == "c" else None, syntax="scss")], timeout=30)[0]
            if ans.get("status") == "ok":
                found.update({int(m.group(1)): m.group(2) for m in RULE.finditer(ans.get("css") or "")})
            else:
                for i in chunk:
                    found[i] = None
                    failing.append({"source": src[:300], "style": st, "impl_observation": f"status {ans.get('status')} {(ans.get('err') or {}).get('message', '')}"[:200],
                                    "model_observation": "ok", "verdict": None, "size": 3, "tags": [],
                                    "expected_by_property": "sass:math min/max/clamp/percentage on numbers must not fail"})
                    break
        for i in live:
            fn, args = cases[i]
            want = dec_model(outs[2 * i + k])
            got = "ok " + found[i] if found.get(i) is not None else "status missing"
            ck.count(("c07-mfn", fn, tuple(args), st), True)
            ck.hist("mfn:" + fn)
            if got != want:
                ck.cov["model_disagreements"] += 1
                if len(ck.disagreements) < 5:
                    ck.disagreements.append({"source": f"math.{fn}({', '.join(args)})", "style": st, "model_observation": want,
                                             "impl_observation": got})
                failing.append({"source": f'@use "sass:math";\nx{{v: math.{fn}({", ".join(sassarg(a) for a in args)})}}', "style": st,
                                "impl_observation": got, "model_observation": want, "verdict": None, "size": 2, "tags": [],
                                "expected_by_property": f"math.{fn} must pick its result with the tolerance-aware comparison "
                                                        f"(model {want})"})
    return failing


def run(tier, seed):
    ck = Check("C07", tier, seed)
    ck.disagreements = []
    ck.cov["rule"] = ("expression trees over decimal literal texts (classes: near-integers n±δ, n.5±δ, exact binary ties at "
                      "the 10th digit, values just below 1, the 1e-10/1e-11 boundaries, random decimals with 1-22 digits, "
                      "m·10^e for e in -12..18, random doubles by bit pattern in 2^-40..2^60, exponent/sign/leading-dot "
                      "spellings; both signs) under + - * / % math.div round ceil floor abs unary± == != < <= > >= nth and "
                      "string conversion; every case in both output styles. Distinct by (rpn, style); a literal case is "
                      "non-trivial when the printed text differs from the literal text, every operator case is non-trivial. "
                      "Round 3: `parseround` trees (literal at / a hair above / below the exact midpoint of two adjacent doubles, "
                      "> 17 significant digits, observed through (literal - d0) * 2^k); `scan` texts for parse_number as a prefix "
                      "scanner (signs, leading / trailing dots, complete / truncated / huge exponents, 18-60 digit strings, "
                      "% / unit / dot rests; distinct by text and style; expected errors compiled one by one); `mfn` calls of "
                      "math.min/max/clamp/percentage on close literal arguments.")
    ck.assumptions = ["str::parse::<f64> and format!(\"{:.10}\") are correctly rounded (half-even on exact ties) — modelled, "
                      "checked by the correspondence",
                      "results below the normal range of f64 (subnormal) are not modelled: the driver answers unsupported",
                      "libm functions (pow, sqrt, trig, log, hypot) are outside the model: only arguments whose real-valued result is an "
                      "exactly known rational are checked (expected text = model print of that rational)"]
    ck.do_prove(cores=("num",))
    if not ck.do_build_runner():
        ck.unproved("correspondence-broken", {"why": "runner does not build against /repo",
                                              "error": getattr(ck, "build_error", "")})
        return ck.finish()
    pool = RunnerPool()
    cases = gen_cases(ck, tier)
    failing = evaluate(ck, cases, pool)
    failing += evaluate_math(ck, pool)
    failing += evaluate_scan(ck, pool, SCAN_N[tier])
    failing += evaluate_mfn(ck, pool, MFN_N[tier])
    if (not ck.proof["ok"] or ck.cov["model_disagreements"]) and not [f for f in failing if not f["tags"]] \
            and tier == "quick":
        log("[C07] proof or correspondence broken: enlarging the search")
        big = gen_cases(ck, "thorough")
        failing += evaluate(ck, big[len(CORPUS):len(CORPUS) + 40000], pool, direct_only=True)
    failing.sort(key=lambda f: (f["size"], len(f["source"])))
    reported = 0
    for f in failing:
        if ck.impl_violation(f["source"], f, tags=f["tags"]):
            reported += 1
    seen = {k["id"] for k in ck.known_seen}
    for k in known_findings("C07"):
        if k["id"] not in seen:
            ck.notes.append(f"known finding {k['id']} was not reproduced in this run: entry may be stale")
    if ck.cov["model_disagreements"] and not reported:
        ck.unproved("correspondence-broken", {"correspondence": "num eval (Grass.Num.eval true) vs grass, printed text",
                                              "cases": ck.disagreements})
    return ck.finish()


def replay(path):
    r = json.load(open(path))
    src, st = r.get("source"), r.get("style", "e")
    if not src:
        print(json.dumps(r, indent=1))
        return 0
    ck = Check("C07", "quick", 0)
    ck.do_build_runner()
    ans = RunnerPool(1).map([compile_job(src, style="compressed" if st == "c" else None, syntax="scss")])[0]
    print("source:", src)
    print("style :", "compressed" if st == "c" else "expanded")
    print("grass :", ans.get("status"), (ans.get("css") or ans.get("err", {}).get("message") or "").strip())
    if r.get("rpn"):
        m = driver([f"num eval {st} {' '.join(r['rpn'])}"])[0]
        print("model :", " | ".join(dec_model(x) for x in m.split(" | ")), "   (as it stands | old exact-order variant)")
        mt = RULE.search(ans.get("css") or "") or re.search(r"()v:\s*([^;}]*)", ans.get("css") or "")
        if mt and is_numeric_text(mt.group(2).strip()):
            print("P̂    :", driver([f"num check {st} {hexs(mt.group(2).strip())} {' '.join(r['rpn'])}"])[0])
    print("recorded:", r.get("impl_observation"), "|", r.get("expected_by_property"))
    return 0
