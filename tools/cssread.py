"""Independent CSS reader / canonicaliser used to observe grass's output.

parse(text) -> list of nodes
  node = {"type":"rule","prelude":str,"children":[nodes]}      qualified rule or block at-rule
       | {"type":"decl","name":str,"value":str}                 declaration
       | {"type":"stmt","text":str}                             block-less at-rule (@import …;)
       | {"type":"comment","text":str}
Raises IllFormed on unbalanced { ( [ " ' or an unterminated comment (C05's well-formedness oracle).
Whitespace inside preludes and values is collapsed; strings are kept verbatim.
"""
import re


class IllFormed(Exception):
    pass


def _scan(text):
    """Yield (kind, payload) events: 'open' prelude, 'close', 'decl'/'stmt' text, 'comment'."""
    i, n = 0, len(text)
    buf = []
    paren = []
    while i < n:
        c = text[i]
        if c == "/" and text.startswith("/*", i):
            j = text.find("*/", i + 2)
            if j < 0:
                raise IllFormed("unterminated comment")
            if not "".join(buf).strip() and not paren:
                yield ("comment", text[i:j + 2])
            else:
                buf.append(text[i:j + 2])
            i = j + 2
            continue
        if c in "\"'":
            j = i + 1
            while True:
                if j >= n:
                    raise IllFormed("unterminated string")
                if text[j] == "\\":
                    j += 2
                    continue
                if text[j] == "\n":
                    raise IllFormed("newline in string")
                if text[j] == c:
                    break
                j += 1
            buf.append(text[i:j + 1])
            i = j + 1
            continue
        if c == "\\":
            buf.append(text[i:i + 2])
            i += 2
            continue
        if c in "([":
            paren.append(c)
            buf.append(c)
        elif c in ")]":
            if not paren or {"(": ")", "[": "]"}[paren[-1]] != c:
                raise IllFormed(f"unbalanced {c}")
            paren.pop()
            buf.append(c)
        elif c == "{" and not paren:
            yield ("open", "".join(buf))
            buf = []
        elif c == "}" and not paren:
            if "".join(buf).strip():
                yield ("item", "".join(buf))
            buf = []
            yield ("close", None)
        elif c == ";" and not paren:
            if "".join(buf).strip():
                yield ("item", "".join(buf))
            buf = []
        else:
            buf.append(c)
        i += 1
    if paren:
        raise IllFormed("unbalanced " + paren[-1])
    if "".join(buf).strip():
        yield ("item", "".join(buf))


_ws = re.compile(r"\s+")


def norm_ws(s):
    return _ws.sub(" ", s).strip()


def parse(text):
    if text.startswith("﻿"):
        text = text[1:]
    root = []
    stack = [root]
    for kind, p in _scan(text):
        if kind == "open":
            node = {"type": "rule", "prelude": norm_ws(p), "children": []}
            stack[-1].append(node)
            stack.append(node["children"])
        elif kind == "close":
            if len(stack) == 1:
                raise IllFormed("unbalanced }")
            stack.pop()
        elif kind == "comment":
            stack[-1].append({"type": "comment", "text": p})
        else:
            t = p.strip()
            if t.startswith("@"):
                stack[-1].append({"type": "stmt", "text": norm_ws(t)})
            else:
                k = _top_colon(t)
                if k < 0:
                    stack[-1].append({"type": "stmt", "text": norm_ws(t)})
                else:
                    stack[-1].append({"type": "decl", "name": t[:k].strip(), "value": norm_ws(t[k + 1:])})
    if len(stack) != 1:
        raise IllFormed("unclosed {")
    return root


def _top_colon(t):
    depth = 0
    i = 0
    while i < len(t):
        c = t[i]
        if c in "\"'":
            j = i + 1
            while j < len(t) and t[j] != c:
                j += 2 if t[j] == "\\" else 1
            i = j
        elif c in "([":
            depth += 1
        elif c in ")]":
            depth -= 1
        elif c == ":" and depth == 0:
            return i
        i += 1
    return -1


def flat_rules(nodes, ctx=()):
    """[(at-rule context tuple, selector, [(name, value)…])] in document order."""
    out = []
    for nd in nodes:
        if nd["type"] != "rule":
            continue
        if nd["prelude"].startswith("@"):
            decls = [(c["name"], c["value"]) for c in nd["children"] if c["type"] == "decl"]
            if decls:
                out.append((ctx + (nd["prelude"],), None, decls))
            out += flat_rules(nd["children"], ctx + (nd["prelude"],))
        else:
            decls = [(c["name"], c["value"]) for c in nd["children"] if c["type"] == "decl"]
            out.append((ctx, nd["prelude"], decls))
            out += flat_rules(nd["children"], ctx + (nd["prelude"],))
    return out
