#!/usr/bin/env python3
"""tools/import_seed.py <ID> <round-tag>: copy /tmp/mut/<ID>/out/m<i>/ to seeded/<ID>-<tag>m<i>/,
record base commit and origin in meta.json, remove the mutator's worktree."""
import json, os, shutil, subprocess, sys
pid, tag = sys.argv[1], sys.argv[2]
src = f"/tmp/mut/{pid}/out"
base = subprocess.run(["git", "-C", f"/tmp/mut/{pid}", "rev-parse", "--short", "HEAD"], capture_output=True, text=True).stdout.strip()
for m in sorted(os.listdir(src)):
    d = os.path.join(src, m)
    if not (os.path.isdir(d) and os.path.exists(os.path.join(d, "patch.diff"))):
        continue
    dst = f"/verif/seeded/{pid}-{tag}{m}"
    shutil.rmtree(dst, ignore_errors=True)
    shutil.copytree(d, dst)
    mp = os.path.join(dst, "meta.json")
    meta = json.load(open(mp)) if os.path.exists(mp) else {"property": pid}
    meta["base_commit"] = base
    meta["origin"] = "independent sub-agent (third round) given only the property text, one-line summaries of earlier seeded changes to avoid, and a scratch worktree"
    json.dump(meta, open(mp, "w"), indent=1, ensure_ascii=False)
    print("imported", dst)
subprocess.run(["git", "-C", "/repo", "worktree", "remove", "--force", f"/tmp/mut/{pid}"])
