#!/bin/bash
# usage: r3_queue2.sh confirm|check <queuefile> : like r3_queue.sh but only one of the two steps, so two can run side by side
cd "$(dirname "$0")/.."
MODE=$1; Q=$2; touch $Q; n=${3:-0}
while true; do
  total=$(wc -l < $Q)
  if [ $n -ge $total ]; then sleep 20; continue; fi
  n=$((n+1)); d=$(sed -n "${n}p" $Q)
  [ "$d" = "END" ] && break
  [ -d "$d" ] || continue
  echo "=== $d $MODE $(date +%T)"
  if [ $MODE = confirm ]; then python3 tools/confirm_seed.py $d 2>&1 | tail -2; else python3 tools/seedqueue.py $d 2>&1 | tail -2; fi
done
