import Grass.Proto
/- Core `Color` — stub; replaced by the model (see DESIGN.md §8). -/
namespace Grass.Color

def handle : List String → String
  | _ => "bad-op"

end Grass.Color
