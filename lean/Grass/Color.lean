import Grass.Proto
import Grass.Generated.NamedColors
/-
  C15 core — colours.
  Mirrors crates/compiler/src/color/mod.rs (constructors, equality, mix, hsl/hwb conversions,
  invert, complement, lighten…, alpha operations), color/name.rs (through
  Grass/Generated/NamedColors.lean), parse/value.rs:873 `parse_hex_color_contents`,
  serializer.rs:465 `visit_color` and the argument handling of
  builtin/functions/color/{rgb,hsl,hwb,opacity,other}.rs.

  Numbers: grass computes in f64; the model computes in exact rationals (core `Rat`) with grass's
  own rounding rules (`fuzzy_round`, `fuzzy_equals`, `f64::round`, Sass modulo).  The small amount
  of number logic needed lives here (Num.lean / Units.lean / Value.lean belong to other properties).
  Where f64 rounding could make the two differ (values within ~1e-13 of a rounding threshold) the
  correspondence run reports it; on lattice inputs the thresholds are hit exactly or missed by far.
-/
namespace Grass.Color
open Grass.Proto

/-! ## Number helpers (value/number.rs) -/

/-- `epsilon()` = 10^(-PRECISION-1), value/number.rs:18. -/
def eps : Rat := 1 / 100000000000
/-- `inverse_epsilon()`, value/number.rs:22. -/
def invEps : Rat := 100000000000

def absQ (x : Rat) : Rat := if x < 0 then -x else x

/-- `f64::round`: nearest integer, halves away from zero. -/
def roundI (x : Rat) : Int := if 0 ≤ x then (x + 1/2).floor else -((-x + 1/2).floor)
def roundQ (x : Rat) : Rat := (roundI x : Rat)

/-- `fuzzy_equals`, value/number.rs:40. -/
def fuzzyEq (a b : Rat) : Bool :=
  a == b || (decide (absQ (a - b) ≤ eps) && roundI (a * invEps) == roundI (b * invEps))

/-- `fuzzy_less_than`, value/number.rs:79. -/
def fuzzyLt (a b : Rat) : Bool := decide (a < b) && !fuzzyEq a b
/-- `fuzzy_less_than_or_equals`, value/number.rs:83. -/
def fuzzyLe (a b : Rat) : Bool := decide (a < b) || fuzzyEq a b

/-- Rust `x % 1.0` (truncated remainder). -/
def fmod1 (x : Rat) : Rat := if 0 ≤ x then x - (x.floor : Rat) else x - (x.ceil : Rat)

/-- `fuzzy_round`, value/number.rs:63 — as written, including the branch for non-positive numbers. -/
def fuzzyRoundI (x : Rat) : Int :=
  if x > 0 then
    if fuzzyLt (fmod1 x) (1/2) then x.floor else x.ceil
  else if fuzzyLe (fmod1 x) (1/2) then x.floor else x.ceil
def fuzzyRound (x : Rat) : Rat := (fuzzyRoundI x : Rat)

/-- `Number::clamp`, value/number.rs:137: `min.max(self.min(max))`. -/
def clamp (x lo hi : Rat) : Rat :=
  let y := if x < hi then x else hi
  if lo < y then y else lo

/-- Sass modulo for a positive modulus = `rem_euclid` (value/number.rs:378). -/
def sassMod (a n : Rat) : Rat := a - n * ((a / n).floor : Rat)

/-- `Number::min` / `Number::max`, value/number.rs:88/97. -/
def nmin (a b : Rat) : Rat := if a < b then a else b
def nmax (a b : Rat) : Rat := if a > b then a else b

/-! ## Colours (color/mod.rs:24) -/

inductive Fmt where
  | rgb | hsl | literal (text : String) | infer
  deriving DecidableEq, Repr, Inhabited

structure Hsl where
  hue : Rat
  sat : Rat
  lum : Rat
  deriving DecidableEq, Repr, Inhabited

structure Color where
  r : Rat
  g : Rat
  b : Rat
  a : Rat                -- raw stored alpha: 255 for named colours (`Color::new` takes a `u8`)
  hsl : Option Hsl
  fmt : Fmt
  deriving DecidableEq, Repr, Inhabited

namespace Color

/-- `red()`, `green()`, `blue()`, color/mod.rs:185: rounded. -/
def red (c : Color) : Rat := roundQ c.r
def green (c : Color) : Rat := roundQ c.g
def blue (c : Color) : Rat := roundQ c.b

/-- `alpha()`, color/mod.rs:440. -/
def alpha (c : Color) : Rat := if c.a > 1 then c.a / 255 else c.a

/-- `impl PartialEq for Rgb`, color/mod.rs:90, one channel. -/
def chanEq (x y : Rat) : Bool := !(!fuzzyEq x y && !(decide (x ≥ 255) && decide (y ≥ 255)))

/-- `impl PartialEq for Color`, color/mod.rs:43. -/
def eq (c d : Color) : Bool :=
  if !fuzzyEq c.a d.a && !(decide (c.a ≥ 1) && decide (d.a ≥ 1)) then false
  else chanEq c.r d.r && chanEq c.g d.g && chanEq c.b d.b

end Color

/-- `Color::new_rgba`. -/
def newRgba (r g b a : Rat) (f : Fmt) : Color := { r, g, b, a, hsl := none, fmt := f }

/-- `Color::new` (named colours), color/mod.rs:146. -/
def newNamed (r g b a : Nat) (text : String) : Color :=
  { r := (r : Rat), g := (g : Rat), b := (b : Rat), a := (a : Rat), hsl := none, fmt := .literal text }

/-- `Color::from_rgba`, color/mod.rs:157. -/
def fromRgba (r g b a : Rat) : Color :=
  newRgba (clamp r 0 255) (clamp g 0 255) (clamp b 0 255) (clamp a 0 1) .infer

/-- `Color::from_rgba_fn`, color/mod.rs:171. -/
def fromRgbaFn (r g b a : Rat) : Color :=
  newRgba (clamp r 0 255) (clamp g 0 255) (clamp b 0 255) (clamp a 0 1) .rgb

/-! ### Named colours and hex literals -/

def lookupName (n : List Nat) : Option (Nat × Nat × Nat × Nat) :=
  (Grass.Generated.nameToRgba.find? (fun e => e.1 == n)).map (·.2)

def lookupRgb (k : Nat × Nat × Nat) : Option (List Nat) :=
  (Grass.Generated.rgbaToName.find? (fun e => e.1 == k)).map (·.2)

def lowerCode (c : Nat) : Nat := if 65 ≤ c ∧ c ≤ 90 then c + 32 else c

/-- parse/value.rs:1183: a bare identifier that (lower-cased) is in the table. `codes` are the
    code points of the spelling as written. -/
def ofNameCodes (codes : List Nat) (text : String) : Option Color :=
  match lookupName (codes.map lowerCode) with
  | some (r, g, b, a) => some (newNamed r g b a text)
  | none => none

/-- `parse_hex_color_contents`, parse/value.rs:873.  `ds` are the digit values (0–15). -/
def ofHexDigits (ds : List Nat) (text : String) : Option Color :=
  match ds with
  | [d1, d2, d3] =>
    some (newRgba ((d1 * 16 + d1 : Nat) : Rat) ((d2 * 16 + d2 : Nat) : Rat) ((d3 * 16 + d3 : Nat) : Rat) 1 (.literal text))
  | [d1, d2, d3, d4] =>
    some (newRgba ((d1 * 16 + d1 : Nat) : Rat) ((d2 * 16 + d2 : Nat) : Rat) ((d3 * 16 + d3 : Nat) : Rat)
      (((d4 * 16 + d4 : Nat) : Rat) / 255) (.literal text))
  | [d1, d2, d3, d4, d5, d6] =>
    some (newRgba ((d1 * 16 + d2 : Nat) : Rat) ((d3 * 16 + d4 : Nat) : Rat) ((d5 * 16 + d6 : Nat) : Rat) 1 (.literal text))
  | [d1, d2, d3, d4, d5, d6, d7, d8] =>
    some (newRgba ((d1 * 16 + d2 : Nat) : Rat) ((d3 * 16 + d4 : Nat) : Rat) ((d5 * 16 + d6 : Nat) : Rat)
      (((d7 * 16 + d8 : Nat) : Rat) / 255) (.literal text))
  | _ => none

/-! ### mix, color/mod.rs:200.  `asFound = true` is the pinned tree (D21: channels not rounded). -/

/-- The weighted channels (before `fuzzy_round`) and the alpha of `mix`, color/mod.rs:201–218. -/
def mixPre (c1 c2 : Color) (weight : Rat) : Rat × Rat × Rat × Rat :=
  let weight := clamp weight 0 100
  let nw := weight * 2 - 1
  let ad := c1.alpha - c2.alpha
  let cw1 := if fuzzyEq (nw * ad) (-1) then nw else (nw + ad) / (1 + nw * ad)
  let w1 := (cw1 + 1) / 2
  let w2 := 1 - w1
  (c1.red * w1 + c2.red * w2, c1.green * w1 + c2.green * w2, c1.blue * w1 + c2.blue * w2,
   c1.alpha * weight + c2.alpha * (1 - weight))

def mix (asFound : Bool) (c1 c2 : Color) (weight : Rat) : Color :=
  let (r, g, b, a) := mixPre c1 c2 weight
  let rd (x : Rat) : Rat := if asFound then x else fuzzyRound x
  fromRgba (rd r) (rd g) (rd b) a

/-! ### HSL, color/mod.rs:225 -/

def min3 (r g b : Rat) : Rat := nmin r (nmin g b)
def max3 (r g b : Rat) : Rat := nmax r (nmax g b)

/-- `hue()`, color/mod.rs:227. -/
def Color.hue (c : Color) : Rat :=
  match c.hsl with
  | some h => h.hue
  | none =>
    let red := c.red / 255; let green := c.green / 255; let blue := c.blue / 255
    let mn := min3 red green blue; let mx := max3 red green blue
    let delta := mx - mn
    let hue :=
      if fuzzyEq mn mx then 0
      else if fuzzyEq mx red then 60 * (green - blue) / delta
      else if fuzzyEq mx green then 120 + 60 * (blue - red) / delta
      else 240 + 60 * (red - green) / delta
    sassMod hue 360

/-- `saturation()`, color/mod.rs:255 (in percent). -/
def Color.saturation (c : Color) : Rat :=
  match c.hsl with
  | some h => h.sat * 100
  | none =>
    let red := c.red / 255; let green := c.green / 255; let blue := c.blue / 255
    let mn := min3 red green blue; let mx := max3 red green blue
    if fuzzyEq mn mx then 0
    else
      let delta := mx - mn
      let sum := mx + mn
      (delta / (if sum > 1 then 2 - sum else sum)) * 100

/-- `lightness()`, color/mod.rs:286 (in percent).  `asFound = true` is the pinned tree (D14: rounded). -/
def Color.lightness (asFound : Bool) (c : Color) : Rat :=
  match c.hsl with
  | some h => h.lum * 100
  | none =>
    let red := c.red / 255; let green := c.green / 255; let blue := c.blue / 255
    let mn := min3 red green blue; let mx := max3 red green blue
    let l := ((mn + mx) / 2) * 100
    if asFound then roundQ l else l

/-- The rgb → hsl conversion of `as_hsla`, color/mod.rs:304–340, on channels already divided by 255.
    Result: (hue in degrees, saturation in [0,1], lightness in [0,1]). -/
def rgbToHsl (red green blue : Rat) : Rat × Rat × Rat :=
  let mn := min3 red green blue; let mx := max3 red green blue
  let lightness := (mn + mx) / 2
  let saturation :=
    if fuzzyEq mn mx then 0
    else
      let d := mx - mn
      let mm := mx + mn
      d / (if mm > 1 then 2 - mm else mm)
  let hue :=
    if fuzzyEq mn mx then 0
    else if fuzzyEq blue mx then 4 + (red - green) / (mx - mn)
    else if fuzzyEq green mx then 2 + (blue - red) / (mx - mn)
    else (green - blue) / (mx - mn)
  -- `is_negative()`: sign bit set and not fuzzily zero
  let hue := if hue < 0 && !fuzzyEq hue 0 then hue + 360 else hue
  let hue := hue * 60
  (sassMod hue 360, saturation, lightness)

/-- `as_hsla`, color/mod.rs:299. -/
def Color.asHsla (c : Color) : Rat × Rat × Rat × Rat :=
  match c.hsl with
  | some h => (h.hue, h.sat, h.lum, c.alpha)
  | none =>
    let (h, s, l) := rgbToHsl (c.red / 255) (c.green / 255) (c.blue / 255)
    (h, s, l, c.alpha)

/-- `hue_to_rgb`, color/mod.rs:398 (`mul_add(a, b)` is `self * a + b`). -/
def hueToRgb (m1 m2 hue : Rat) : Rat :=
  let hue := if hue < 0 then hue + 1 else hue
  let hue := if hue > 1 then hue - 1 else hue
  if hue < 1/6 then ((m2 - m1) * hue) * 6 + m1
  else if hue < 1/2 then m2
  else if hue < 2/3 then ((m2 - m1) * (2/3 - hue)) * 6 + m1
  else m1

/-- The hsl → rgb conversion of `from_hsla`, color/mod.rs:379–393 (hue already reduced mod 360);
    channels before the final `fuzzy_round`, scaled to 0…255. -/
def hslToRgbExact (hue sat light : Rat) : Rat × Rat × Rat :=
  let sh := hue / 360
  let ss := clamp sat 0 1
  let sl := clamp light 0 1
  let m2 := if sl ≤ 1/2 then sl * (ss + 1) else sl * (-ss) + (sl + ss)
  let m1 := sl * 2 + (-m2)
  (hueToRgb m1 m2 (sh + 1/3) * 255, hueToRgb m1 m2 sh * 255, hueToRgb m1 m2 (sh - 1/3) * 255)

/-- `from_hsla`, color/mod.rs:375. -/
def fromHsla (hue sat light alpha : Rat) : Color :=
  let hue := sassMod hue 360
  let hsl : Hsl := { hue := hue, sat := clamp sat 0 1, lum := clamp light 0 1 }
  let (r, g, b) := hslToRgbExact hue sat light
  { r := fuzzyRound r, g := fuzzyRound g, b := fuzzyRound b, a := alpha, hsl := some hsl, fmt := .infer }

/-- `from_hsla_fn`, color/mod.rs:368. -/
def fromHslaFn (hue sat light alpha : Rat) : Color :=
  { fromHsla hue sat light alpha with fmt := .hsl }

def adjustHue (c : Color) (degrees : Rat) : Color :=
  let (h, s, l, a) := c.asHsla
  fromHsla (h + degrees) s l a

def lighten (c : Color) (amount : Rat) : Color :=
  let (h, s, l, a) := c.asHsla
  fromHsla h s (l + amount) a

def darken (c : Color) (amount : Rat) : Color :=
  let (h, s, l, a) := c.asHsla
  fromHsla h s (l - amount) a

def saturate (c : Color) (amount : Rat) : Color :=
  let (h, s, l, a) := c.asHsla
  fromHsla h (clamp (s + amount) 0 1) l a

def desaturate (c : Color) (amount : Rat) : Color :=
  let (h, s, l, a) := c.asHsla
  fromHsla h (clamp (s - amount) 0 1) l a

/-- `invert`, color/mod.rs:417 (`weight` already divided by 100). -/
def inverseOf (c : Color) : Color := newRgba (255 - c.red) (255 - c.green) (255 - c.blue) c.alpha .infer

def invert (asFound : Bool) (c : Color) (weight : Rat) : Color :=
  if fuzzyEq weight 0 then c
  else mix asFound (inverseOf c) c weight

/-- `complement`, color/mod.rs:431. -/
def complement (c : Color) : Color :=
  let (h, s, l, a) := c.asHsla
  fromHsla (h + 180) s l a

/-! ### Opacity, color/mod.rs:438 -/

def withAlpha (c : Color) (alpha : Rat) : Color := fromRgba c.red c.green c.blue alpha
def fadeIn (c : Color) (amount : Rat) : Color := fromRgba c.red c.green c.blue (c.alpha + amount)
def fadeOut (c : Color) (amount : Rat) : Color := fromRgba c.red c.green c.blue (c.alpha - amount)

/-! ### HWB, color/mod.rs:481 -/

/-- channels of `from_hwb` before the final `fuzzy_round`, scaled to 0…255. -/
def hwbToRgbExact (hue white black : Rat) : Rat × Rat × Rat :=
  let hue := sassMod hue 360 / 360
  let sw := white / 100
  let sb := black / 100
  let sum := sw + sb
  let sw' := if sum > 1 then sw / sum else sw
  let sb' := if sum > 1 then sb / sum else sb
  let factor := 1 - sw' - sb'
  let toRgb (h : Rat) : Rat := (hueToRgb 0 1 h * factor + sw') * 255
  (toRgb (hue + 1/3), toRgb hue, toRgb (hue - 1/3))

def fromHwb (hue white black alpha : Rat) : Color :=
  let (r, g, b) := hwbToRgbExact hue white black
  newRgba (fuzzyRound r) (fuzzyRound g) (fuzzyRound b) (clamp alpha 0 1) .infer

def Color.whiteness (c : Color) : Rat := nmin (nmin c.red c.green) c.blue / 255
def Color.blackness (c : Color) : Rat := 1 - nmax (nmax c.red c.green) c.blue / 255

/-! ### change-color / adjust-color / scale-color, builtin/functions/color/other.rs:14 -/

inductive Upd where
  | change | adjust | scale
  deriving DecidableEq, Repr, Inhabited

inductive Err where
  | bounds        -- an `assert_bounds` / `assert_unit` style argument error
  | mixedSpaces   -- RGB with HSL/HWB parameters, HSL with HWB parameters
  | channels      -- `parse_channels`: "Only 3 elements allowed" / "Missing element $x"
  | unsupported   -- outside the model
  deriving DecidableEq, Repr, Inhabited

structure UpdArgs where
  red : Option Rat := none
  green : Option Rat := none
  blue : Option Rat := none
  alpha : Option Rat := none
  hue : Option Rat := none
  saturation : Option Rat := none
  lightness : Option Rat := none
  whiteness : Option Rat := none
  blackness : Option Rat := none
  deriving Repr, Inhabited

/-- `update_value`, other.rs:173. -/
def updateValue (current : Rat) (param : Option Rat) (max : Rat) (u : Upd) : Rat :=
  match param with
  | none => current
  | some p =>
    match u with
    | .change => p
    | .adjust => clamp (p + current) 0 max
    | .scale => current + (if p > 0 then max - current else current) * p

/-- What `update_components` decides to build (other.rs:197–239): arguments of the constructor it calls. -/
inductive Plan where
  | rgb (r g b a : Rat)        -- channels before `fuzzy_round`, then `from_rgba`
  | hwb (h w b a : Rat)        -- `from_hwb`
  | hsl (h s l a : Rat)        -- `from_hsla`
  | alpha (a : Rat)            -- `with_alpha`
  | same
  deriving Repr, Inhabited

/-- The tail of `update_components` (other.rs:150–239), after the arguments were checked and scaled. -/
def updatePlan (u : Upd) (c : Color) (p : UpdArgs) : Except Err Plan :=
  let hasRgb := p.red.isSome || p.green.isSome || p.blue.isSome
  let hasSl := p.saturation.isSome || p.lightness.isSome
  let hasWb := p.whiteness.isSome || p.blackness.isSome
  if hasRgb && (hasSl || hasWb || p.hue.isSome) then .error .mixedSpaces
  else if hasSl && hasWb then .error .mixedSpaces
  else if hasRgb then
    .ok (.rgb (updateValue c.red p.red 255 u) (updateValue c.green p.green 255 u) (updateValue c.blue p.blue 255 u)
      (updateValue c.alpha p.alpha 1 u))
  else if hasWb then
    .ok (.hwb
      (if u = .change then p.hue.getD c.hue else c.hue + p.hue.getD 0)
      (updateValue c.whiteness p.whiteness 1 u * 100)
      (updateValue c.blackness p.blackness 1 u * 100)
      (updateValue c.alpha p.alpha 1 u))
  else if p.hue.isSome || hasSl then
    let (h, s, l, a) := c.asHsla
    .ok (.hsl
      (if u = .change then p.hue.getD h else h + p.hue.getD 0)
      (updateValue s p.saturation 1 u) (updateValue l p.lightness 1 u) (updateValue a p.alpha 1 u))
  else if p.alpha.isSome then .ok (.alpha (updateValue c.alpha p.alpha 1 u))
  else .ok .same

def execPlan (c : Color) : Plan → Color
  | .rgb r g b a => fromRgba (fuzzyRound r) (fuzzyRound g) (fuzzyRound b) a
  | .hwb h w b a => fromHwb h w b a
  | .hsl h s l a => fromHsla h s l a
  | .alpha a => withAlpha c a
  | .same => c

def updateComponents (u : Upd) (c : Color) (p : UpdArgs) : Except Err Color :=
  (updatePlan u c p).map (execPlan c)

/-! ## Serializer, serializer.rs:396–510 -/

def pow10 : Nat := 10000000000

/-- round-half-even of a non-negative rational to an integer. -/
def roundHalfEvenNat (x : Rat) : Nat :=
  let f := x.floor
  let r := x - (f : Rat)
  let n := f.toNat
  if r < 1/2 then n else if r > 1/2 then n + 1 else if n % 2 == 0 then n else n + 1

def padLeft (s : List Char) (n : Nat) : List Char := List.replicate (n - s.length) '0' ++ s

def dropTrailingZeros (s : List Char) : List Char := (s.reverse.dropWhile (· == '0')).reverse

/-- `write_float`, serializer.rs:568: `format!("{:.10}")`, trailing zeros removed; compressed output
    also drops the leading zero of numbers below 1. -/
def fmtNum (compressed : Bool) (x : Rat) : String :=
  let neg := x < 0
  let n := absQ x
  let scaled := roundHalfEvenNat (n * pow10)
  let ip := (toString (scaled / pow10)).toList
  let fp := dropTrailingZeros (padLeft (toString (scaled % pow10)).toList 10)
  let digits : List Char :=
    if compressed && n < 1 then
      -- trim_start_matches('0') then trailing zeros and '.'
      let ip' := ip.dropWhile (· == '0')
      if fp.isEmpty then ip' else ip' ++ ['.'] ++ fp
    else if fp.isEmpty then ip else ip ++ ['.'] ++ fp
  let s := (if neg then ['-'] else []) ++ digits
  if s.isEmpty || s == ['-'] || s == ['-', '0'] then "0" else String.ofList s

def hexChar (n : Nat) : Char := hexDigit n

def hex2 (n : Nat) : List Char := [hexChar (n / 16), hexChar (n % 16)]

def isSymHex (n : Nat) : Bool := n % 16 == n / 16

/-- `as u8` of a rounded channel (saturating cast). -/
def toU8 (x : Rat) : Nat := let i := roundI x; if i < 0 then 0 else if i > 255 then 255 else i.toNat

def writeRgb (compressed : Bool) (c : Color) : String :=
  let isOpaque := fuzzyEq c.alpha 1
  let sep := if compressed then "," else ", "
  (if isOpaque then "rgb(" else "rgba(") ++ fmtNum compressed c.red ++ sep ++ fmtNum compressed c.green ++ sep
    ++ fmtNum compressed c.blue ++ (if isOpaque then "" else sep ++ fmtNum compressed c.alpha) ++ ")"

def writeHsl (compressed : Bool) (c : Color) : String :=
  let isOpaque := fuzzyEq c.alpha 1
  (if isOpaque then "hsl(" else "hsla(") ++ fmtNum compressed c.hue ++ "deg, " ++ fmtNum compressed c.saturation ++ "%, "
    ++ fmtNum compressed (c.lightness false) ++ "%" ++ (if isOpaque then "" else ", " ++ fmtNum compressed c.alpha) ++ ")"

def nameStr (n : List Nat) : String := String.ofList (n.map Char.ofNat)

/-- The name the serializer would use (serializer.rs:466–474). -/
def serName (c : Color) : Option (List Nat) :=
  if fuzzyEq c.alpha 1 then lookupRgb (toU8 c.red, toU8 c.green, toU8 c.blue) else none

/-- Compressed spelling of an opaque colour as a code list (serializer.rs:477–494): theorem-facing. -/
def compressedOpaque (rgb : Nat × Nat × Nat) : List Nat :=
  let (r, g, b) := rgb
  let short := isSymHex r && isSymHex g && isSymHex b
  let hexLen := if short then 4 else 7
  match lookupRgb rgb with
  | some n => if n.length ≤ hexLen then n else
      if short then [35, (hexChar (r % 16)).toNat, (hexChar (g % 16)).toNat, (hexChar (b % 16)).toNat]
      else 35 :: ((hex2 r ++ hex2 g ++ hex2 b).map Char.toNat)
  | none =>
      if short then [35, (hexChar (r % 16)).toNat, (hexChar (g % 16)).toNat, (hexChar (b % 16)).toNat]
      else 35 :: ((hex2 r ++ hex2 g ++ hex2 b).map Char.toNat)

/-- `visit_color`, serializer.rs:465. -/
def visitColor (compressed : Bool) (c : Color) : String :=
  let red := toU8 c.red; let green := toU8 c.green; let blue := toU8 c.blue
  let name := serName c
  if compressed then
    if fuzzyEq c.alpha 1 then nameStr (compressedOpaque (red, green, blue))
    else writeRgb compressed c
  else
    match c.fmt with
    | .rgb => writeRgb compressed c
    | .hsl => writeHsl compressed c
    | .literal t => t
    | .infer =>
      match name with
      | some n => if !fuzzyEq c.alpha 0 then nameStr n else
          if fuzzyEq c.alpha 1 then String.ofList ('#' :: (hex2 red ++ hex2 green ++ hex2 blue)) else writeRgb compressed c
      | none =>
        if fuzzyEq c.alpha 1 then String.ofList ('#' :: (hex2 red ++ hex2 green ++ hex2 blue))
        else writeRgb compressed c

/-- `to_ie_hex_str`, color/mod.rs:470. -/
def ieHexStr (c : Color) : String :=
  let up (cs : List Char) : List Char := cs.map Char.toUpper
  let a := fuzzyRoundI (c.alpha * 255)
  String.ofList ('#' :: up (hex2 (if a < 0 then 0 else if a > 255 then 255 else a.toNat) ++ hex2 (toU8 c.red)
    ++ hex2 (toU8 c.green) ++ hex2 (toU8 c.blue)))

/-! ## Property predicates (P̂) — used by the theorems in GrassProofs/C15.lean and by the driver on
    grass's own output. -/

def isInt (x : Rat) : Bool := x.den == 1

/-- One stored channel: an integer in [0,255]. -/
def chanOk (x : Rat) : Bool := isInt x && decide (0 ≤ x) && decide (x ≤ 255)

/-- “integer-rounded red/green/blue in [0,255] and alpha in [0,1]”. -/
def Color.inRange (c : Color) : Bool :=
  chanOk c.r && chanOk c.g && chanOk c.b && decide (0 ≤ c.alpha) && decide (c.alpha ≤ 1)

/-- Invariant of every colour grass builds: channels as above, raw alpha in [0,1] or the 255 that
    `Color::new` stores for named colours. -/
def Color.wf (c : Color) : Bool :=
  chanOk c.r && chanOk c.g && chanOk c.b && ((decide (0 ≤ c.a) && decide (c.a ≤ 1)) || c.a == 255)

/-- Two colours are “the same colour” for the property: equal under grass's `==` and printed
    identically in compressed mode. -/
def sameColor (c d : Color) : Bool := c.eq d && visitColor true c == visitColor true d

/-! ## Driver protocol

  color eval <sexpr tokens…>   evaluate an expression; answers
       `ok color <r> <g> <b> <a> | <hex compressed> | <hex expanded>`  (channels as `n/d`, texts hex-encoded)
       `ok num <n/d> <unit>` | `ok bool 0|1` | `ok str <hex>` | `err <class>` | `unsupported`
       (a trailing ` risky` marks f64-sensitive roundings, see below)
  S-expression tokens: `(` f arg… `)`; atoms `n:<num>/<den>:<unit>` (unit `-` none, `pct`, `deg`, `grad`,
  `rad`, `turn`, or any other unit name such as `px`), `c:<spelling>` named colour, `h:<digits>` hex colour,
  `v:<hex of text>` an unquoted special-function string (`var(--x)`, `env(x)`), `k:<name>` keyword marker
  (next arg is its value).  `rgb`/`rgba`/`hsl`/`hsla` are separate function tokens (the name is part of
  the string they return for special arguments); `rgb-ch`/`rgba-ch`/`hsl-ch`/`hsla-ch`/`hwb-ch` are the
  one-argument forms `f(a b c)` / `f(a b c / alpha)` (elements as arguments, alpha as `k:slash`).
  color inrange <r> <g> <b> <a>                  P̂ range on an observed colour (rationals `n/d`)
  color same <r g b a> <r g b a>                 `sameColor` (`Color.eq` + identical compressed print) on two observed colours
-/

inductive Val where
  | color (c : Color)
  | num (x : Rat) (unit : String)
  | bool (b : Bool)
  | str (s : String)
  | special (s : String)   -- an unquoted string for which `is_special_function` holds
  deriving Repr, Inhabited

def ratStr (x : Rat) : String := toString x.num ++ "/" ++ toString x.den

def parseRat? (s : String) : Option Rat :=
  match s.splitOn "/" with
  | [n] => n.toInt?.map (fun i => (i : Rat))
  | [n, d] =>
    match n.toInt?, d.toNat? with
    | some n, some d => if d == 0 then none else some ((n : Rat) / (d : Rat))
    | _, _ => none
  | _ => none

def valStr : Val → String
  | .color c =>
    "ok color " ++ ratStr c.r ++ " " ++ ratStr c.g ++ " " ++ ratStr c.b ++ " " ++ ratStr c.alpha ++ " | "
      ++ hexEncode (visitColor true c) ++ " | " ++ hexEncode (visitColor false c)
  | .num x u => "ok num " ++ ratStr x ++ " " ++ (if u == "" then "-" else u)
  | .bool b => "ok bool " ++ boolStr b
  | .str s => "ok str " ++ hexEncode s
  | .special s => "ok str " ++ hexEncode s

def errStr : Err → String
  | .bounds => "err bounds"
  | .mixedSpaces => "err mixed"
  | .channels => "err channels"
  | .unsupported => "unsupported"

/-- `percentage_or_unitless`, rgb.rs:152. -/
def pctOrUnitless (x : Rat) (u : String) (max : Rat) : Except Err Rat :=
  if u == "" then .ok (clamp x 0 max)
  else if u == "pct" then .ok (clamp ((x * max) / 100) 0 max)
  else .error .bounds

/-- `180.0 / PI` (unit/conversion.rs:83): the exact value of the f64 grass computes. -/
def radToDeg : Rat := 1007958012753983 / 17592186044416

/-- `conversion_factor(unit, deg)` for the units compatible with `deg` (unit/conversion.rs:80–84:
    `from_deg`: deg 1, grad 9/10, rad 180/π, turn 360).  The f64 `9.0 / 10.0` is modelled as 9/10. -/
def angleFactor (u : String) : Option Rat :=
  if u == "deg" then some 1
  else if u == "grad" then some (9 / 10)
  else if u == "rad" then some radToDeg
  else if u == "turn" then some 360
  else none

/-- `angle_value`, builtin/functions/color/mod.rs:23: a number whose unit is compatible with `deg`
    (deg, grad, rad, turn) is converted to degrees; every other number — unitless, `%`, `px`, … —
    passes with its bare value. -/
def angleValue (x : Rat) (u : String) : Except Err Rat :=
  match angleFactor u with
  | some f => .ok (x * f)
  | none => .ok x

/-- `assert_bounds`, value/sass_number.rs:194 (exact comparisons). -/
def assertBounds (x lo hi : Rat) : Except Err Unit :=
  if x ≤ hi ∧ x ≥ lo then .ok () else .error .bounds

def asColor : Val → Except Err Color
  | .color c => .ok c
  | _ => .error .unsupported

def asNum : Val → Except Err (Rat × String)
  | .num x u => .ok (x, u)
  | _ => .error .unsupported

/-- rgb()/rgba() with 3 or 4 numeric arguments, rgb.rs:82. -/
def fnRgb (r g b : Rat × String) (a : Option (Rat × String)) : Except Err Color :=
  match pctOrUnitless r.1 r.2 255, pctOrUnitless g.1 g.2 255, pctOrUnitless b.1 b.2 255 with
  | .ok r, .ok g, .ok b =>
    match a with
    | none => .ok (fromRgbaFn (fuzzyRound r) (fuzzyRound g) (fuzzyRound b) 1)
    | some a =>
      match pctOrUnitless a.1 a.2 1 with
      | .ok a => .ok (fromRgbaFn (fuzzyRound r) (fuzzyRound g) (fuzzyRound b) a)
      | .error e => .error e
  | .error e, _, _ => .error e
  | _, .error e, _ => .error e
  | _, _, .error e => .error e

/-- hsl()/hsla() with 3 or 4 numeric arguments, hsl.rs:11. -/
def fnHsl (h s l : Rat × String) (a : Option (Rat × String)) : Except Err Color :=
  match angleValue h.1 h.2 with
  | .error e => .error e
  | .ok hue =>
    let a := a.getD (1, "")
    match pctOrUnitless a.1 a.2 1 with
    | .error e => .error e
    | .ok alpha => .ok (fromHslaFn (sassMod hue 360) (s.1 / 100) (l.1 / 100) alpha)

/-- color.hwb() with 3 or 4 numeric arguments, hwb.rs:37. -/
def fnHwb (h w b : Rat × String) (a : Option (Rat × String)) : Except Err Color :=
  match angleValue h.1 h.2 with
  | .error e => .error e
  | .ok hue =>
    if w.2 != "pct" || b.2 != "pct" then .error .bounds
    else
      match assertBounds w.1 0 100, assertBounds b.1 0 100 with
      | .ok _, .ok _ =>
        let a := a.getD (1, "")
        match pctOrUnitless a.1 a.2 1 with
        | .error e => .error e
        | .ok alpha => .ok (fromHwb hue w.1 b.1 alpha)
      | .error e, _ => .error e
      | _, .error e => .error e

/-! ### Special-function / var() arguments and the one-argument channel syntax, rgb.rs:5–330, hsl.rs:11–115 -/

/-- `is_special_function`, utils/mod.rs:36. -/
def isSpecialStr (s : String) : Bool :=
  s.startsWith "calc(" || s.startsWith "var(" || s.startsWith "env(" || s.startsWith "min("
    || s.startsWith "max(" || s.startsWith "clamp("

/-- `Value::is_var` on an unquoted string, value/mod.rs:310 (`s.len()` counts bytes). -/
def isVarStr (s : String) : Bool := decide (8 ≤ s.utf8ByteSize) && s.startsWith "var("

def Val.isSpecial : Val → Bool
  | .special s => isSpecialStr s
  | _ => false

def Val.isVar : Val → Bool
  | .special s => isVarStr s
  | _ => false

/-- How a unit is displayed (unit/mod.rs:270 `Display`): `%` for percent, the name otherwise. -/
def unitStr (u : String) : String := if u == "pct" then "%" else u

/-- `Number::inspect` / `to_string(false)` followed by the unit (value/number.rs:261). -/
def numCss (x : Rat) (u : String) : String := fmtNum false x ++ unitStr u

/-- `to_css_string(span, false)` of the argument kinds the model covers: numbers and special strings. -/
def argCss : Val → Except Err String
  | .num x u => .ok (numCss x u)
  | .special s => .ok s
  | _ => .error .unsupported

/-- `function_string`, rgb.rs:5: `name(arg, arg, …)`. -/
def functionString (name : String) (args : List Val) : Except Err String :=
  (args.mapM argCss).map fun ss => name ++ "(" ++ ", ".intercalate ss ++ ")"

/-- `inner_rgb_3_arg`, rgb.rs:82: three or four arguments; any special function among them makes the
    call a plain-CSS function string. -/
def fnRgb34 (name : String) (args : List Val) : Except Err Val :=
  if args.any Val.isSpecial then (functionString name args).map .str
  else
    match args with
    | [.num r ru, .num g gu, .num b bu] => (fnRgb (r, ru) (g, gu) (b, bu) none).map .color
    | [.num r ru, .num g gu, .num b bu, .num a au] => (fnRgb (r, ru) (g, gu) (b, bu) (some (a, au))).map .color
    | _ => .error .unsupported

/-- `name(r, g, b, alpha-text)` of rgb.rs:38/57 (`color.red().to_string(false)` …). -/
def rgbWithAlphaText (name : String) (c : Color) (alpha : String) : String :=
  name ++ "(" ++ fmtNum false c.red ++ ", " ++ fmtNum false c.green ++ ", " ++ fmtNum false c.blue ++ ", " ++ alpha ++ ")"

/-- `inner_rgb_2_arg`, rgb.rs:21: `rgba($color, $alpha)`. -/
def fnRgb2 (name : String) (color alpha : Val) : Except Err Val :=
  if color.isVar then (functionString name [color, alpha]).map .str
  else if alpha.isVar then
    match color, alpha with
    | .color c, .special s => .ok (.str (rgbWithAlphaText name c s))
    | _, _ => (functionString name [color, alpha]).map .str
  else if alpha.isSpecial then
    match color, alpha with
    | .color c, .special s => .ok (.str (rgbWithAlphaText name c s))
    | _, _ => .error .unsupported          -- "$color: … is not a color."
  else
    match color, alpha with
    | .color c, .num a au => (pctOrUnitless a au 1).map fun a => .color (withAlpha c a)
    | _, _ => .error .unsupported

/-- `hsl_3_args`, hsl.rs:11. -/
def fnHsl34 (name : String) (args : List Val) : Except Err Val :=
  if args.any Val.isSpecial then (functionString name args).map .str
  else
    match args with
    | [.num h hu, .num s su, .num l lu] => (fnHsl (h, hu) (s, su) (l, lu) none).map .color
    | [.num h hu, .num s su, .num l lu, .num a au] => (fnHsl (h, hu) (s, su) (l, lu) (some (a, au))).map .color
    | _ => .error .unsupported

/-- hsl()/hsla() with two arguments, hsl.rs:96. -/
def fnHsl2 (name : String) (hue sat : Val) : Except Err Val :=
  if hue.isVar || sat.isVar then (functionString name [hue, sat]).map .str
  else .error .unsupported                  -- "Missing argument $lightness."

inductive Channels where
  | string (s : String)
  | list (l : List Val)
  deriving Repr, Inhabited

def isNumVal : Val → Bool
  | .num _ _ => true
  | _ => false

/-- `parse_channels`, rgb.rs:170, for `$channels` = a space-separated list `elems` of numbers and
    special strings, optionally written `… last / alpha` with number literals `last` and `alpha`
    (the parser then stores both in `as_slash` of the last element, rgb.rs:303).  Other shapes
    (slash-separated lists built by `list.slash`, bracketed or comma lists, `3/var(--x)` strings)
    answer `unsupported`. -/
def parseChannels (name : String) (elems : List Val) (slash : Option Val) : Except Err Channels :=
  if elems.any (fun v => !(isNumVal v || v.isSpecial)) then .error .unsupported
  else if slash.isSome && !((elems.getLast?.map isNumVal).getD false && (slash.map isNumVal).getD false) then
    .error .unsupported
  else if elems.length == 1 && slash.isNone && elems.any Val.isVar then
    (functionString name elems).map .string                                   -- rgb.rs:177
  else if elems.length > 3 then .error .channels                              -- rgb.rs:254
  else if elems.length < 3 then
    if elems.any Val.isVar then                                               -- rgb.rs:260
      if slash.isSome then .error .unsupported
      else (elems.mapM argCss).map fun ss => .string (name ++ "(" ++ " ".intercalate ss ++ ")")
    else .error .channels                                                     -- "Missing element"
  else
    match slash with
    | some a => .ok (.list (elems ++ [a]))                                    -- rgb.rs:303 `as_slash`
    | none => .ok (.list elems)

/-- rgb()/rgba() with one argument, rgb.rs:317. -/
def fnRgb1 (name : String) (elems : List Val) (slash : Option Val) : Except Err Val :=
  match parseChannels name elems slash with
  | .ok (.string s) => .ok (.str s)
  | .ok (.list l) => fnRgb34 name l
  | .error e => .error e

/-- hsl()/hsla() with one argument, hsl.rs:76. -/
def fnHsl1 (name : String) (elems : List Val) (slash : Option Val) : Except Err Val :=
  match parseChannels name elems slash with
  | .ok (.string s) => .ok (.str s)
  | .ok (.list l) => fnHsl34 name l
  | .error e => .error e

/-- color.hwb() with one argument, hwb.rs:73 (a `var()` string is an error there). -/
def fnHwb1 (elems : List Val) (slash : Option Val) : Except Err Val :=
  match parseChannels "hwb" elems slash with
  | .ok (.list [.num h hu, .num w wu, .num b bu]) => (fnHwb (h, hu) (w, wu) (b, bu) none).map .color
  | .ok (.list [.num h hu, .num w wu, .num b bu, .num a au]) => (fnHwb (h, hu) (w, wu) (b, bu) (some (a, au))).map .color
  | .ok _ => .error .unsupported
  | .error e => .error e

/-- grayscale(n) / invert(n) / opacity(n) / saturate(n): the plain-CSS filter functions are returned as
    unquoted strings (hsl.rs:213, 283, 320; opacity.rs:70). -/
def cssFilter (name : String) (x : Rat) (u : String) : Val := .str (name ++ "(" ++ numCss x u ++ ")")

/-- `$amount` of lighten/darken/saturate/desaturate and `$weight` of mix/invert: bounds [0,100]
    (any unit), then divided by 100. -/
def pctAmount (x : Rat) : Except Err Rat :=
  match assertBounds x 0 100 with
  | .ok _ => .ok (x / 100)
  | .error e => .error e

/-- one keyword argument of change/adjust/scale, `check_num` in other.rs:33. -/
def checkNum (u : Upd) (x : Rat) (unit : String) (max : Rat) (assertPercent : Bool) : Except Err Rat :=
  let max := if u = .scale then 100 else max
  let lo := if u = .change then 0 else -max
  if (assertPercent || u = .scale) && unit != "pct" then .error .bounds
  else
    match assertBounds x lo max with
    | .error e => .error e
    | .ok _ => .ok (if max == 100 then x / 100 else x)

def setArg (u : Upd) (p : UpdArgs) (k : String) (x : Rat) (unit : String) : Except Err UpdArgs :=
  match k with
  | "red" => (checkNum u x unit 255 false).map fun v => { p with red := some v }
  | "green" => (checkNum u x unit 255 false).map fun v => { p with green := some v }
  | "blue" => (checkNum u x unit 255 false).map fun v => { p with blue := some v }
  | "alpha" => (checkNum u x unit 1 false).map fun v => { p with alpha := some v }
  | "hue" => if u = .scale then .error .unsupported else (angleValue x unit).map fun v => { p with hue := some v }
  | "saturation" => (checkNum u x unit 100 false).map fun v => { p with saturation := some v }
  | "lightness" => (checkNum u x unit 100 false).map fun v => { p with lightness := some v }
  | "whiteness" => (checkNum u x unit 100 true).map fun v => { p with whiteness := some v }
  | "blackness" => (checkNum u x unit 100 true).map fun v => { p with blackness := some v }
  | _ => .error .unsupported

/-- Keyword arguments are checked in the fixed order red, green, blue, alpha, hue, saturation,
    lightness, whiteness, blackness (other.rs:97–112); the first failing one decides the error, and
    every failure is an argument error, so the order does not matter for the error *class*. -/
def buildArgs (u : Upd) : UpdArgs → List (String × Val) → Except Err UpdArgs
  | p, [] => .ok p
  | p, (k, .num x unit) :: rest =>
    match setArg u p k x unit with
    | .ok p => buildArgs u p rest
    | .error e => .error e
  | _, _ => .error .unsupported

/-! ### f64 sensitivity (driver only)

  grass rounds channels with `fuzzy_round` after computing them in f64; the model rounds the exact
  value.  The two can only differ when the exact value lies within f64 error (≈1e-11 through the
  `+360, ×60` of `as_hsla`) of the rounding threshold.  The driver marks an answer `risky` when some
  rounding in the evaluation had its exact argument within 1e-8 of X.5; the check then compares that
  case channel-by-channel with a tolerance of one unit instead of byte for byte. -/

def nearHalf (x : Rat) : Bool := decide (absQ (fmod1 (absQ x) - 1/2) ≤ 1 / 100000000)

def risk3 (t : Rat × Rat × Rat) : Bool := nearHalf t.1 || nearHalf t.2.1 || nearHalf t.2.2

/-- a colour built by `from_hsla` keeps the arguments it was built from -/
def storedHslRisk (c : Color) : Bool :=
  match c.hsl with
  | some h => risk3 (hslToRgbExact h.hue h.sat h.lum)
  | none => false

def mixRisk (c1 c2 : Color) (w : Rat) : Bool :=
  let (r, g, b, _) := mixPre c1 c2 w
  risk3 (r, g, b)

def planRisk : Plan → Bool
  | .rgb r g b _ => risk3 (r, g, b)
  | .hwb h w b _ => risk3 (hwbToRgbExact h w b)
  | _ => false

def angleOf (x : Rat) (u : String) : Rat :=
  match angleValue x u with
  | .ok v => v
  | .error _ => x

def numRisk (x : Rat) (u : String) (max : Rat) : Bool :=
  match pctOrUnitless x u max with
  | .ok v => nearHalf v
  | .error _ => false

def updRisk (u : Upd) (c : Color) (kw : List (String × Val)) : Bool :=
  match buildArgs u {} kw with
  | .ok p =>
    match updatePlan u c p with
    | .ok plan => planRisk plan
    | .error _ => false
  | .error _ => false

/-- extra rounding risk of one function application (beyond what the result's stored HSL shows) -/
def applyRisk (f : String) (args : List Val) (kw : List (String × Val)) : Bool :=
  match f, args with
  | "rgb", .num r ru :: .num g gu :: .num b bu :: _ => numRisk r ru 255 || numRisk g gu 255 || numRisk b bu 255
  | "rgba", .num r ru :: .num g gu :: .num b bu :: _ => numRisk r ru 255 || numRisk g gu 255 || numRisk b bu 255
  | "rgb-ch", .num r ru :: .num g gu :: .num b bu :: _ => numRisk r ru 255 || numRisk g gu 255 || numRisk b bu 255
  | "rgba-ch", .num r ru :: .num g gu :: .num b bu :: _ => numRisk r ru 255 || numRisk g gu 255 || numRisk b bu 255
  | "hwb-ch", .num h hu :: .num w _ :: .num b _ :: _ => risk3 (hwbToRgbExact (angleOf h hu) w b)
  | "hwb", .num h hu :: .num w _ :: .num b _ :: _ => risk3 (hwbToRgbExact (angleOf h hu) w b)
  | "mix", [.color c1, .color c2] => mixRisk c1 c2 (1/2)
  | "mix", [.color c1, .color c2, .num w _] => mixRisk c1 c2 (w / 100)
  | "invert", [.color c] => mixRisk (inverseOf c) c 1
  | "invert", [.color c, .num w _] => mixRisk (inverseOf c) c (w / 100)
  | "change", [.color c] => updRisk .change c kw
  | "adjust", [.color c] => updRisk .adjust c kw
  | "scale", [.color c] => updRisk .scale c kw
  | "ie-hex-str", [.color c] => nearHalf (c.alpha * 255)
  | _, _ => false

def valRisk : Val → Bool
  | .color c => storedHslRisk c
  | _ => false

def applyFn (f : String) (args : List Val) (kw : List (String × Val)) : Except Err Val :=
  match f, args, kw with
  | "rgb", [c, a], [] => fnRgb2 "rgb" c a
  | "rgba", [c, a], [] => fnRgb2 "rgba" c a
  | "rgb", [r, g, b], [] => fnRgb34 "rgb" [r, g, b]
  | "rgba", [r, g, b], [] => fnRgb34 "rgba" [r, g, b]
  | "rgb", [r, g, b, a], [] => fnRgb34 "rgb" [r, g, b, a]
  | "rgba", [r, g, b, a], [] => fnRgb34 "rgba" [r, g, b, a]
  | "hsl", [h, s], [] => fnHsl2 "hsl" h s
  | "hsla", [h, s], [] => fnHsl2 "hsla" h s
  | "hsl", [h, s, l], [] => fnHsl34 "hsl" [h, s, l]
  | "hsla", [h, s, l], [] => fnHsl34 "hsla" [h, s, l]
  | "hsl", [h, s, l, a], [] => fnHsl34 "hsl" [h, s, l, a]
  | "hsla", [h, s, l, a], [] => fnHsl34 "hsla" [h, s, l, a]
  | "rgb-ch", elems, [] => fnRgb1 "rgb" elems none
  | "rgb-ch", elems, [("slash", a)] => fnRgb1 "rgb" elems (some a)
  | "rgba-ch", elems, [] => fnRgb1 "rgba" elems none
  | "rgba-ch", elems, [("slash", a)] => fnRgb1 "rgba" elems (some a)
  | "hsl-ch", elems, [] => fnHsl1 "hsl" elems none
  | "hsl-ch", elems, [("slash", a)] => fnHsl1 "hsl" elems (some a)
  | "hsla-ch", elems, [] => fnHsl1 "hsla" elems none
  | "hsla-ch", elems, [("slash", a)] => fnHsl1 "hsla" elems (some a)
  | "hwb-ch", elems, [] => fnHwb1 elems none
  | "hwb-ch", elems, [("slash", a)] => fnHwb1 elems (some a)
  | "hwb", [.num h hu, .num w wu, .num b bu], [] => (fnHwb (h, hu) (w, wu) (b, bu) none).map .color
  | "hwb", [.num h hu, .num w wu, .num b bu, .num a au], [] => (fnHwb (h, hu) (w, wu) (b, bu) (some (a, au))).map .color
  | "red", [.color c], [] => .ok (.num c.red "")
  | "green", [.color c], [] => .ok (.num c.green "")
  | "blue", [.color c], [] => .ok (.num c.blue "")
  | "alpha", [.color c], [] => .ok (.num c.alpha "")
  | "opacity", [.color c], [] => .ok (.num c.alpha "")
  | "opacity", [.num x u], [] => .ok (cssFilter "opacity" x u)
  | "hue", [.color c], [] => .ok (.num c.hue "deg")
  | "saturation", [.color c], [] => .ok (.num c.saturation "pct")
  | "lightness", [.color c], [] => .ok (.num (c.lightness false) "pct")
  | "lightness-asfound", [.color c], [] => .ok (.num (c.lightness true) "pct")
  | "whiteness", [.color c], [] => .ok (.num (c.whiteness * 100) "pct")
  | "blackness", [.color c], [] => .ok (.num (c.blackness * 100) "pct")
  | "mix", [.color c1, .color c2], [] => .ok (.color (mix false c1 c2 (50 / 100)))
  | "mix", [.color c1, .color c2, .num w _], [] => (pctAmount w).map fun w => .color (mix false c1 c2 w)
  | "mix-asfound", [.color c1, .color c2, .num w _], [] => (pctAmount w).map fun w => .color (mix true c1 c2 w)
  | "invert", [.color c], [] => .ok (.color (invert false c 1))
  | "invert", [.color c, .num w _], [] => (pctAmount w).map fun w => .color (invert false c w)
  | "complement", [.color c], [] => .ok (.color (complement c))
  | "grayscale", [.color c], [] => .ok (.color (desaturate c 1))
  | "grayscale", [.num x u], [] => .ok (cssFilter "grayscale" x u)
  | "invert", [.num x u], [] => .ok (cssFilter "invert" x u)
  | "saturate", [.num x u], [] => .ok (cssFilter "saturate" x u)
  | "adjust-hue", [.color c, .num d du], [] => (angleValue d du).map fun d => .color (adjustHue c d)
  | "lighten", [.color c, .num x _], [] => (pctAmount x).map fun x => .color (lighten c x)
  | "darken", [.color c, .num x _], [] => (pctAmount x).map fun x => .color (darken c x)
  | "saturate", [.color c, .num x _], [] => (pctAmount x).map fun x => .color (saturate c x)
  | "desaturate", [.color c, .num x _], [] => (pctAmount x).map fun x => .color (desaturate c x)
  | "opacify", [.color c, .num x _], [] => (assertBounds x 0 1).map fun _ => .color (fadeIn c x)
  | "transparentize", [.color c, .num x _], [] => (assertBounds x 0 1).map fun _ => .color (fadeOut c x)
  | "ie-hex-str", [.color c], [] => .ok (.str (ieHexStr c))
  | "eq", [.color c, .color d], [] => .ok (.bool (c.eq d))
  | "change", [.color c], kw => (buildArgs .change {} kw).bind fun p => (updateComponents .change c p).map .color
  | "adjust", [.color c], kw => (buildArgs .adjust {} kw).bind fun p => (updateComponents .adjust c p).map .color
  | "scale", [.color c], kw => (buildArgs .scale {} kw).bind fun p => (updateComponents .scale c p).map .color
  | _, _, _ => .error .unsupported

def hexDigitsOf (s : String) : Option (List Nat) := s.toList.mapM hexVal

def parseAtom (t : String) : Except Err Val :=
  match t.splitOn ":" with
  | ["n", q, u] =>
    match parseRat? q with
    | some x => .ok (.num x (if u == "-" then "" else u))
    | none => .error .unsupported
  | ["c", s] =>
    match ofNameCodes (s.toList.map Char.toNat) s with
    | some c => .ok (.color c)
    | none => .error .unsupported
  | ["v", h] =>
    match hexDecode h with
    | some s => if isSpecialStr s then .ok (.special s) else .error .unsupported
    | none => .error .unsupported
  | ["h", s] =>
    match hexDigitsOf s with
    | some ds =>
      match ofHexDigits ds ("#" ++ s) with
      | some c => .ok (.color c)
      | none => .error .unsupported
    | none => .error .unsupported
  | _ => .error .unsupported

mutual
/-- parse-and-evaluate one expression; fuel bounds the nesting.  The `Bool` is the f64-sensitivity mark. -/
def evalExpr : Nat → List String → Except Err (Val × Bool × List String)
  | 0, _ => .error .unsupported
  | _, [] => .error .unsupported
  | fuel + 1, "(" :: f :: rest =>
    match evalArgs fuel rest [] [] false with
    | .ok (args, kw, risky, rest) =>
      match applyFn f args kw with
      | .ok v => .ok (v, risky || applyRisk f args kw || valRisk v, rest)
      | .error e => .error e
    | .error e => .error e
  | _, t :: rest =>
    match parseAtom t with
    | .ok v => .ok (v, false, rest)
    | .error e => .error e

def evalArgs : Nat → List String → List Val → List (String × Val) → Bool →
    Except Err (List Val × List (String × Val) × Bool × List String)
  | 0, _, _, _, _ => .error .unsupported
  | _, [], _, _, _ => .error .unsupported
  | _, ")" :: rest, acc, kw, risky => .ok (acc.reverse, kw.reverse, risky, rest)
  | fuel + 1, t :: rest, acc, kw, risky =>
    if t.startsWith "k:" then
      match evalExpr fuel rest with
      | .ok (v, r, rest) => evalArgs fuel rest acc (((t.drop 2).toString, v) :: kw) (risky || r)
      | .error e => .error e
    else
      match evalExpr fuel (t :: rest) with
      | .ok (v, r, rest) => evalArgs fuel rest (v :: acc) kw (risky || r)
      | .error e => .error e
end

def observed (r g b a : String) : Option Color :=
  match parseRat? r, parseRat? g, parseRat? b, parseRat? a with
  | some r, some g, some b, some a => some (newRgba r g b a .infer)
  | _, _, _, _ => none

def handle : List String → String
  | "eval" :: toks =>
    match evalExpr (toks.length + 1) toks with
    | .ok (v, risky, []) => valStr v ++ (if risky then " risky" else "")
    | .ok (_, _, _) => "bad-op"
    | .error e => errStr e
  | ["inrange", r, g, b, a] =>
    match observed r g b a with
    | some c => "ok " ++ boolStr c.inRange
    | none => "bad-op"
  | ["same", r, g, b, a, r', g', b', a'] =>
    match observed r g b a, observed r' g' b' a' with
    | some c, some d => "ok " ++ boolStr (sameColor c d)
    | _, _ => "bad-op"
  | _ => "bad-op"

end Grass.Color
