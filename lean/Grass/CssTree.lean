import Grass.Proto
/-
  C04 core — nesting, `&`, @at-root and bubbling at-rules.

  Two independent descriptions of what a rule tree compiles to:

  (a) `flattenSpec`  — "flatten by hand": a direct structural recursion from the source rule tree
      to the ordered list of blocks (at-rule context, selector, declarations).
  (b) `treeBuild`    — grass's algorithm, written from the Rust text function by function:
        crates/compiler/src/evaluate/css_tree.rs      index-addressed tree, parent/child maps, `finish`
        crates/compiler/src/evaluate/visitor.rs       `add_child` (:1629), `with_parent` (:1668),
            `visit_ruleset` (:2900), `visit_style` (:3024), `visit_media_rule` (:1377),
            `visit_supports_rule` (:484), `visit_unknown_at_rule` (:1479),
            `trim_included` (:1078), `visit_at_root_rule` (:1119), `with_scope_for_at_root` (:1214)
        crates/compiler/src/selector/list.rs          `resolve_parent_selectors` (:157), `flatten_vertically` (:263)
        crates/compiler/src/selector/compound.rs      `resolve_parent_selectors` (:109)
        crates/compiler/src/ast/css.rs                `is_invisible` (:54), `copy_without_children` (:70)
        crates/compiler/src/ast/stmt.rs               `AtRootQuery` (:215)
        crates/compiler/src/lib.rs :205, serializer.rs :1113   invisible statements are not written
      followed by `observe` = blocks of the visible part of `finish`.

  Order convention of the property ("the same list of (context, selector, declarations)"):
  a rule's own declarations form ONE block placed where the rule starts (declarations written
  after a nested rule join that block, in source order); nested rules, bubbled at-rules and
  @at-root bodies follow in source order.  Blocks without declarations are not part of the list
  (empty rules vanish).  Adjacent blocks with equal context and selector are NOT merged: grass
  emits one block per source construct and so does `flattenSpec`.

  Simple selectors, declaration names/values and @supports conditions are opaque strings; media
  queries are lists of feature numbers (`(f0) and (f1)`), so merging nested queries is plain
  concatenation (the general merge is property C17).
-/
namespace Grass.CssTree

/-! ## Selectors (only what parent resolution needs) -/

/-- A compound selector: an optional leading `&` (`some none` = `&`, `some (some s)` = `&s`)
    followed by simple selectors kept as text (`a`, `.x`, `#i`). -/
structure Compound where
  par : Option (Option String)
  simples : List String
  deriving DecidableEq, Repr, Inhabited

inductive Comp where
  | comb (c : String)            -- `>`, `+`, `~`
  | cmp (c : Compound)
  deriving DecidableEq, Repr, Inhabited

abbrev Complex := List Comp       -- descendant combinator = adjacency
abbrev SelList := List Complex

inductive Err where
  | topLevelParent        -- "Top-level selectors may not contain the parent selector"
  | incompatibleParent    -- "Parent … is incompatible with this selector"
  | declOutsideRule       -- "Declarations may only be used within style rules"
  | unreachable           -- a Rust `unreachable!()` / `unwrap()` on None would fire
  deriving DecidableEq, Repr, Inhabited

def mapE {α β : Type} (f : α → Except Err β) : List α → Except Err (List β)
  | [] => .ok []
  | a :: as =>
    match f a with
    | .error e => .error e
    | .ok b =>
      match mapE f as with
      | .error e => .error e
      | .ok bs => .ok (b :: bs)

def compHasParent : Comp → Bool
  | .cmp c => c.par.isSome
  | .comb _ => false

def complexHasParent (c : Complex) : Bool := c.any compHasParent

/-- compound.rs:176–204: the parent's last compound absorbs the suffix and the rest of the
    compound that contained `&`. -/
def mergeLast (sfx : Option String) (extra : List String) (complex : Complex) : Except Err Complex :=
  match complex.getLast? with
  | some (.cmp last) =>
    match sfx with
    | none => .ok (complex.dropLast ++ [.cmp { last with simples := last.simples ++ extra }])
    | some s =>
      match last.simples.getLast? with
      | some e => .ok (complex.dropLast ++ [.cmp { last with simples := last.simples.dropLast ++ [e ++ s] ++ extra }])
      | none => .error .unreachable
  | _ => .error .incompatibleParent

/-- `CompoundSelector::resolve_parent_selectors` (compound.rs:109); `none` = no `&` inside. -/
def resolveCompound (parent : SelList) (c : Compound) : Except Err (Option (List Complex)) :=
  match c.par with
  | none => .ok none
  | some sfx =>
    if sfx.isNone && c.simples.isEmpty then .ok (some parent)
    else
      match mapE (mergeLast sfx c.simples) parent with
      | .error e => .error e
      | .ok r => .ok (some r)

/-- One iteration of the `for component in complex.components` loop (list.rs:204). -/
def stepComp (parent : SelList) (acc : List Complex) (comp : Comp) : Except Err (List Complex) :=
  match comp with
  | .comb _ => .ok (acc.map (· ++ [comp]))
  | .cmp c =>
    match resolveCompound parent c with
    | .error e => .error e
    | .ok none => .ok (acc.map (· ++ [comp]))
    | .ok (some resolved) => .ok (acc.flatMap (fun nc => resolved.map (nc ++ ·)))

def foldComps (parent : SelList) : List Complex → List Comp → Except Err (List Complex)
  | acc, [] => .ok acc
  | acc, c :: cs =>
    match stepComp parent acc c with
    | .error e => .error e
    | .ok acc' => foldComps parent acc' cs

/-- list.rs:180–247, one complex selector of the nested rule. -/
def resolveComplex (implicit : Bool) (parent : SelList) (complex : Complex) : Except Err (List Complex) :=
  if !complexHasParent complex then
    if !implicit then .ok [complex] else .ok (parent.map (· ++ complex))
  else foldComps parent [[]] complex

def heads {α : Type} (qs : List (List α)) : List α := qs.filterMap List.head?
def tails {α : Type} (qs : List (List α)) : List (List α) := qs.map List.tail

def fvAux {α : Type} : Nat → List (List α) → List α
  | 0, _ => []
  | n + 1, qs => heads qs ++ fvAux n (tails qs)

def maxLen {α : Type} (qs : List (List α)) : Nat := qs.foldr (fun q m => max q.length m) 0

/-- `flatten_vertically` (list.rs:263): first elements of every queue, then second elements, … -/
def flattenVertically {α : Type} (qs : List (List α)) : List α := fvAux (maxLen qs) qs

/-- `SelectorList::resolve_parent_selectors` (list.rs:157). -/
def resolveList (parent : Option SelList) (implicit : Bool) (sel : SelList) : Except Err SelList :=
  match parent with
  | none => if sel.any complexHasParent then .error .topLevelParent else .ok sel
  | some p =>
    match mapE (resolveComplex implicit p) sel with
    | .error e => .error e
    | .ok qs => .ok (flattenVertically qs)

/-- "By hand": textually put the parent complex `p` in the place of `&` (or in front). -/
def substCompound (p : Complex) (k : Compound) : Except Err Complex :=
  match k.par with
  | none => .ok [.cmp k]
  | some sfx => if sfx.isNone && k.simples.isEmpty then .ok p else mergeLast sfx k.simples p

def substComplex (p : Complex) : Complex → Except Err Complex
  | [] => .ok []
  | .comb c :: rest =>
    match substComplex p rest with
    | .error e => .error e
    | .ok r => .ok (.comb c :: r)
  | .cmp k :: rest =>
    match substCompound p k with
    | .error e => .error e
    | .ok h =>
      match substComplex p rest with
      | .error e => .error e
      | .ok r => .ok (h ++ r)

/-- The nested complex `c` under the single parent complex `p`. -/
def combine (p : Complex) (c : Complex) : Except Err Complex :=
  if !complexHasParent c then .ok (p ++ c) else substComplex p c

/-- number of compounds of `c` that contain `&` -/
def parentRefs (c : Complex) : Nat := (c.filter compHasParent).length

/-! ## Source trees -/

mutual
  /-- `name: value { body }`; a plain declaration has an empty body, a pure nested property has
      no value. -/
  inductive Decl where
    | mk (name : String) (value : Option String) (body : Decls)
  inductive Decls where
    | nil
    | cons (d : Decl) (ds : Decls)
end

structure Query where         -- AtRootQuery (stmt.rs:215)
  incl : Bool
  names : List String
  deriving DecidableEq, Repr, Inhabited

mutual
  inductive Stmt where
    | decl (d : Decl)
    | rule (sel : SelList) (body : Stmts)
    | media (qs : List (List Nat)) (body : Stmts)
    | supports (cond : String) (body : Stmts)
    | unknown (name params : String) (body : Stmts)
    | atroot (q : Option Query) (body : Stmts)
  inductive Stmts where
    | nil
    | cons (s : Stmt) (ss : Stmts)
end

/-! ## CSS nodes, blocks -/

inductive Kind where
  | rule (sel : SelList)
  | decl (name value : String)
  | media (qs : List (List Nat))
  | supports (cond : String)
  | unknown (name params : String)
  deriving DecidableEq, Repr, Inhabited

def Kind.isRule : Kind → Bool | .rule _ => true | _ => false
def Kind.isUnknown : Kind → Bool | .unknown _ _ => true | _ => false
def Kind.isMedia : Kind → Bool | .media _ => true | _ => false

/-- One entry of the observation: at-rule context (outermost first), selector (`none` =
    declarations directly inside an at-rule), declarations in order. -/
structure Block where
  ctx : List Kind
  sel : Option SelList
  decls : List (String × String)
  deriving DecidableEq, Repr, Inhabited

def Block.nonEmpty (b : Block) : Bool := !b.decls.isEmpty

/-! ## At-root queries (stmt.rs:222–266) -/

def Query.dflt : Query := { incl := false, names := ["rule"] }
def Query.all (q : Query) : Bool := q.names.contains "all"
def Query.rule (q : Query) : Bool := q.names.contains "rule"
def Query.excludesName (q : Query) (n : String) : Bool := (q.all || q.names.contains n) != q.incl
def Query.excludesStyleRules (q : Query) : Bool := (q.all || q.rule) != q.incl
def Query.excludes (q : Query) : Kind → Bool
  | .rule _ => if q.all then !q.incl else q.excludesStyleRules
  | .media _ => if q.all then !q.incl else q.excludesName "media"
  | .supports _ => if q.all then !q.incl else q.excludesName "supports"
  | .unknown n _ => if q.all then !q.incl else q.excludesName n.toLower      -- stmt.rs:252
  | .decl _ _ => if q.all then !q.incl else false

/-! ## Nested property names -/

def joinDash : List String → String
  | [] => ""
  | [a] => a
  | a :: b :: rest => a ++ "-" ++ joinDash (b :: rest)

mutual
  /-- By hand: `a: {b: {c: v}}` is the declaration `a-b-c: v`; `path` = enclosing names. -/
  def declSpec (path : List String) : Decl → List (String × String)
    | .mk n v body =>
      (match v with | some v => [(joinDash (path ++ [n]), v)] | none => []) ++ declsSpec (path ++ [n]) body
  def declsSpec (path : List String) : Decls → List (String × String)
    | .nil => []
    | .cons d ds => declSpec path d ++ declsSpec path ds
end

mutual
  /-- `visit_style` (visitor.rs:3024): `declaration_name` carried by the visitor, joined with
      `format!("{}-{}")` at :3041; returns the declarations in the order they are added. -/
  def visitDecl (declName : Option String) : Decl → List (String × String)
    | .mk n v body =>
      let name := match declName with | some p => p ++ "-" ++ n | none => n
      (match v with | some v => [(name, v)] | none => []) ++ visitDecls (some name) body
  def visitDecls (declName : Option String) : Decls → List (String × String)
    | .nil => []
    | .cons d ds => visitDecl declName d ++ visitDecls declName ds
end

/-! ## (a) flattenSpec — flatten by hand -/

def mergeQ (a b : List (List Nat)) : List (List Nat) := a.flatMap (fun x => b.map (fun y => x ++ y))

def innermostMedia (frames : List Kind) : Option (List (List Nat)) :=
  frames.reverse.findSome? (fun k => match k with | .media qs => some qs | _ => none)

/-- A nested `@media` is intersected with the nearest enclosing `@media` and replaces the media
    rules it sits in directly; `none` = empty intersection (rule dropped). -/
def pushMedia (frames : List Kind) (qs : List (List Nat)) : Option (List Kind) :=
  match innermostMedia frames with
  | none => some (frames ++ [.media qs])
  | some cur =>
    let m := mergeQ cur qs
    if m.isEmpty then none
    else some ((frames.reverse.dropWhile Kind.isMedia).reverse ++ [.media m])

structure SCtx where
  frames : List Kind             -- at-rule context, outermost first
  sel : Option SelList           -- enclosing style rule, resolved
  exclStyle : Bool               -- an @at-root took us out of it
  inUnknown : Bool
  deriving Repr

def SCtx.init : SCtx := { frames := [], sel := none, exclStyle := false, inUnknown := false }
def SCtx.ruleHere (c : SCtx) : Bool := c.sel.isSome && !c.exclStyle
def SCtx.home (c : SCtx) : Option SelList := if c.ruleHere then c.sel else none

abbrev SpecRes := Except Err (List (String × String) × List Block)

/-- The body of a construct that opens a new block: its own declarations become the block. -/
def wrapBlock (c : SCtx) : SpecRes → SpecRes
  | .error e => .error e
  | .ok (ds, bs) => .ok ([], { ctx := c.frames, sel := c.home, decls := ds } :: bs)

def seqRes : SpecRes → SpecRes → SpecRes
  | .error e, _ => .error e
  | .ok _, .error e => .error e
  | .ok (d1, b1), .ok (d2, b2) => .ok (d1 ++ d2, b1 ++ b2)

def atRootCtx (c : SCtx) (q : Query) : SCtx :=
  let frames' := c.frames.filter (fun k => !q.excludes k)
  { frames := frames', sel := c.sel, exclStyle := c.exclStyle || q.excludesStyleRules,
    inUnknown := c.inUnknown && frames'.any Kind.isUnknown }

/-- `@at-root` that excludes nothing of the current context is transparent. -/
def atRootTransparent (c : SCtx) (q : Query) : Bool :=
  c.frames.all (fun k => !q.excludes k) && (!c.ruleHere || !q.excludesStyleRules) &&
    (c.ruleHere || !c.frames.isEmpty)

mutual
  /-- own declarations of the enclosing block, and the blocks that follow it -/
  def specStmt (c : SCtx) : Stmt → SpecRes
    | .decl d => if c.ruleHere || c.inUnknown then .ok (declSpec [] d, []) else .error .declOutsideRule
    | .rule sel body =>
      match resolveList c.sel (!c.exclStyle) sel with
      | .error e => .error e
      | .ok sel' =>
        let c' := { c with sel := some sel', exclStyle := false }
        wrapBlock c' (specStmts c' body)
    | .media qs body =>
      match pushMedia c.frames qs with
      | none => .ok ([], [])
      | some frames' =>
        let c' := { c with frames := frames' }
        wrapBlock c' (specStmts c' body)
    | .supports cond body =>
      let c' := { c with frames := c.frames ++ [.supports cond] }
      wrapBlock c' (specStmts c' body)
    | .unknown n p body =>
      let c' := { c with frames := c.frames ++ [.unknown n p], inUnknown := true }
      wrapBlock c' (specStmts c' body)
    | .atroot q body =>
      let q := q.getD Query.dflt
      let c' := atRootCtx c q
      if atRootTransparent c q then specStmts c' body else wrapBlock c' (specStmts c' body)
  def specStmts (c : SCtx) : Stmts → SpecRes
    | .nil => .ok ([], [])
    | .cons s ss => seqRes (specStmt c s) (specStmts c ss)
end

def flattenSpec (src : Stmts) : Except Err (List Block) :=
  match specStmts SCtx.init src with
  | .error e => .error e
  | .ok (_, bs) => .ok (bs.filter Block.nonEmpty)

/-! ## (b) treeBuild — grass's algorithm -/

/-- css_tree.rs:9 — `stmts[i]`, `child_to_parent[i]`, `parent_to_child[i]` in one record.
    `children = []` ⇔ no entry in `parent_to_child`. -/
structure NodeRec where
  stmt : Option Kind              -- None = tombstone (ROOT)
  parent : Option Nat
  children : List Nat
  deriving DecidableEq, Repr, Inhabited

abbrev Tree := List NodeRec

def Tree.init : Tree := [{ stmt := none, parent := none, children := [] }]     -- css_tree.rs:23

def kindAt (t : Tree) (i : Nat) : Option Kind := (t[i]?).bind (·.stmt)
def parentOf (t : Tree) (i : Nat) : Option Nat := (t[i]?).bind (·.parent)
def childrenOf (t : Tree) (i : Nat) : List Nat := ((t[i]?).map (·.children)).getD []
def hasChildren (t : Tree) (i : Nat) : Bool := !(childrenOf t i).isEmpty

/-- `CssTree::add_child` (css_tree.rs:104). -/
def addRaw (t : Tree) (k : Kind) (p : Nat) : Tree × Nat :=
  ((t.modify p (fun r => { r with children := r.children ++ [t.length] }))
      ++ [{ stmt := some k, parent := some p, children := [] }], t.length)

/-- `CssTree::add_stmt` (css_tree.rs:135). -/
def addStmt (t : Tree) (k : Kind) (parent : Option Nat) : Tree × Nat := addRaw t k (parent.getD 0)

/-- `link_child_to_parent` (css_tree.rs:114): the old parent keeps its stale entry. -/
def linkChild (t : Tree) (child parent : Nat) : Tree :=
  (t.modify parent (fun r => { r with children := r.children ++ [child] })).modify child
    (fun r => { r with parent := some parent })

/-- `has_following_sibling` (css_tree.rs:122). -/
def hasFollowingSibling (t : Tree) (c : Nat) : Bool :=
  if c = 0 then false
  else match parentOf t c with
    | none => false
    | some p => (childrenOf t p).getLast? != some c

/-- The `through` closures passed to `with_parent`. -/
inductive Through where
  | styleRule                              -- CssStmt::is_style_rule
  | never                                  -- |_| false
  | media (sources : List (List Nat))      -- visitor.rs:1462
  deriving Repr

def Through.test : Through → Kind → Bool
  | .styleRule, .rule _ => true
  | .media _, .rule _ => true
  | .media srcs, .media qs => !srcs.isEmpty && qs.all (fun q => srcs.contains q)
  | _, _ => false

/-- the `while parent != ROOT && through(parent)` loop of `add_child` (visitor.rs:1641) -/
def climb (t : Tree) (th : Through) : Nat → Nat → Nat
  | 0, p => p
  | f + 1, p =>
    if p = 0 then p
    else match kindAt t p, parentOf t p with
      | some k, some g => if th.test k then climb t th f g else p
      | _, _ => p

/-- `p`, its parent, … up to (excluding) ROOT -/
def ancestorsOf (t : Tree) : Nat → Nat → List Nat
  | 0, _ => []
  | f + 1, p =>
    if p = 0 then []
    else p :: (match parentOf t p with | some g => ancestorsOf t f g | none => [])

/-- Specified variant of the copy rule: if the landing parent *or one of its ancestors* already
    has a following sibling, the chain from that ancestor down to the landing parent is
    re-created after the sibling, so that output keeps source order. -/
def addRawDeep (t : Tree) (k : Kind) (p' : Nat) : Tree × Nat :=
  let chain := ancestorsOf t t.length p'                                  -- innermost first
  let hits := (List.range chain.length).filter (fun j =>
    match chain[j]? with | some a => hasFollowingSibling t a | none => false)
  match hits.getLast? with
  | none => addRaw t k p'
  | some j =>
    match (chain[j]?).bind (parentOf t) with
    | none => addRaw t k p'
    | some g =>
      let r := ((chain.take (j + 1)).reverse).foldl (fun (acc : Tree × Nat) idx =>
        match kindAt t idx with
        | some kk => addRaw acc.1 kk acc.2
        | none => acc) (t, g)
      addRaw r.1 k r.2

/-- `Visitor::add_child` (visitor.rs:1629).  `deep = false` is the code as it stands. -/
def addChild (deep : Bool) (t : Tree) (parent : Option Nat) (k : Kind) (th : Through) : Tree × Nat :=
  match parent with
  | none => addStmt t k none
  | some 0 => addStmt t k (some 0)
  | some p =>
    let p' := climb t th t.length p
    if deep then addRawDeep t k p'
    else if hasFollowingSibling t p' then
      match kindAt t p', parentOf t p' with
      | some pk, some g =>
        let (t1, cp) := addRaw t pk g            -- copy_without_children, added after the sibling
        addRaw t1 k cp
      | _, _ => addRaw t k p'
    else addRaw t k p'

/-- Deviations from the property found in `visit_at_root_rule` / `add_child`, one switch each
    (`true` = the deviation is present).
    * `outerCopyParent` (C04-D1): the outermost copy became the new parent.  FIXED in /repo
      (c501619): visitor.rs:1196 now returns `Some(inner_copy)`.
    * `keepInUnknown` (C04-D2): IN_UNKNOWN_AT_RULE survived an @at-root that leaves every unknown
      at-rule.  FIXED in /repo (ea0c00a): `with_scope_for_at_root` clears it (visitor.rs:1278).
    * `shallowSibling` (C04-D3): `add_child` looks for a following sibling of the landing parent
      only (visitor.rs:1653).  Still present (dart-sass behaves the same). -/
structure AsFound where
  outerCopyParent : Bool
  keepInUnknown : Bool
  shallowSibling : Bool
  deriving DecidableEq, Repr

/-- the code as it stands now -/
def AsFound.code : AsFound := { outerCopyParent := false, keepInUnknown := false, shallowSibling := true }
/-- the tree as it was found at the start of the round (all three deviations) -/
def AsFound.pinned : AsFound := { outerCopyParent := true, keepInUnknown := true, shallowSibling := true }
def AsFound.specified : AsFound := { outerCopyParent := false, keepInUnknown := false, shallowSibling := false }

/-- Dynamically scoped visitor state (saved and restored around every callback). -/
structure VCtx where
  parent : Option Nat                    -- self.parent
  styleRule : Option SelList             -- style_rule_ignoring_at_root
  atRootExcl : Bool                      -- AT_ROOT_EXCLUDING_STYLE_RULE
  inUnknown : Bool                       -- IN_UNKNOWN_AT_RULE
  mq : Option (List (List Nat))          -- media_queries
  mqSources : List (List Nat)            -- media_query_sources
  deriving Repr

def VCtx.init : VCtx :=
  { parent := none, styleRule := none, atRootExcl := false, inUnknown := false, mq := none, mqSources := [] }

def VCtx.styleRuleExists (c : VCtx) : Bool := !c.atRootExcl && c.styleRule.isSome     -- visitor.rs:3020

/-- `visit_style` adds each declaration with `add_stmt(…, self.parent)` (visitor.rs:3058). -/
def addDecls (t : Tree) (parent : Option Nat) : List (String × String) → Tree
  | [] => t
  | (n, v) :: ds => addDecls (addStmt t (.decl n v) parent).1 parent ds

/-- the `while let Some(parent_idx)` loop of `visit_at_root_rule` (visitor.rs:1137) -/
def includedFrom (t : Tree) (q : Query) : Nat → Option Nat → List Nat
  | 0, _ => []
  | _, none => []
  | f + 1, some p =>
    match kindAt t p with
    | some k => (if !q.excludes k then [p] else []) ++ includedFrom t q f (parentOf t p)
    | none => []

/-- inner `while parent != nodes[i]` of `trim_included`; `(moved, node reached)` -/
def trimClimb (t : Tree) (target : Nat) : Nat → Option Nat → Option Bool
  | 0, _ => none
  | _, none => none
  | f + 1, some p =>
    if p = target then some false
    else match parentOf t p with
      | none => none
      | some g => (trimClimb t target f (some g)).map (fun _ => true)

def trimLoop (t : Tree) : List Nat → Nat → Option Nat → Option Nat → Option (Option Nat × Option Nat)
  | [], _, parent, inner => some (parent, inner)
  | n :: ns, i, parent, inner =>
    match trimClimb t n t.length parent with
    | none => none
    | some moved =>
      let inner := if moved then none else inner
      let inner := match inner with | some x => some x | none => some i
      match parentOf t n with
      | none => none
      | some g => trimLoop t ns (i + 1) (some g) inner

/-- `trim_included` (visitor.rs:1078); `none` = an `unreachable!()` would fire. -/
def trimIncluded (t : Tree) (parent : Option Nat) (nodes : List Nat) : Option Nat :=
  if nodes.isEmpty then some 0
  else match trimLoop t nodes 0 parent none with
    | none => none
    | some (p, inner) => if p != some 0 then some 0 else inner.bind (nodes[·]?)

/-- visitor.rs:1176: copies of the remaining included nodes, each linked above the previous. -/
def copyOuter (t : Tree) (outer : Nat) : List Nat → Option (Tree × Nat)
  | [] => some (t, outer)
  | n :: ns =>
    match kindAt t n with
    | none => none
    | some k =>
      let (t1, idx) := addStmt t k none
      copyOuter (linkChild t1 outer idx) idx ns

/-- visitor.rs:1168–1198: the node the @at-root body is attached to. -/
def atRootParent (af : AsFound) (t : Tree) (root : Nat) (included : List Nat) : Option (Tree × Option Nat) :=
  match included with
  | [] =>
    match kindAt t root with
    | some k => let (t1, idx) := addStmt t k none; some (t1, some idx)
    | none => some (t, none)
  | first :: rest =>
    match kindAt t first with
    | none => none
    | some k =>
      let (t1, inner) := addStmt t k none
      match copyOuter t1 inner rest with
      | none => none
      | some (t2, outer) => some (t2, some (if af.outerCopyParent then outer else inner))

/-- `with_scope_for_at_root` (visitor.rs:1214). -/
def atRootScope (af : AsFound) (c : VCtx) (t : Tree) (q : Query) (included : List Nat)
    (newParent : Option Nat) : VCtx :=
  let dropMedia := c.mq.isSome && q.excludesName "media"
  { parent := newParent,
    styleRule := c.styleRule,
    atRootExcl := c.atRootExcl || q.excludesStyleRules,
    inUnknown := if af.keepInUnknown then c.inUnknown
                 else c.inUnknown && included.any (fun i => ((kindAt t i).map Kind.isUnknown).getD false),
    mq := if dropMedia then none else c.mq,
    mqSources := if dropMedia then [] else c.mqSources }

mutual
  def visitStmt (af : AsFound) (c : VCtx) (t : Tree) : Stmt → Except Err Tree
    | .decl d =>
      -- visitor.rs:3025
      if !c.styleRuleExists && !c.inUnknown then .error .declOutsideRule
      else .ok (addDecls t c.parent (visitDecl none d))
    | .rule sel body =>
      -- visitor.rs:2952
      match resolveList c.styleRule (!c.atRootExcl) sel with
      | .error e => .error e
      | .ok sel' =>
        let (t1, idx) := addChild (!af.shallowSibling) t c.parent (.rule sel') .styleRule
        visitStmts af { c with parent := some idx, styleRule := some sel', atRootExcl := false } t1 body
    | .media qs body =>
      -- visitor.rs:1386–1407
      let merged := c.mq.map (fun cur => mergeQ cur qs)
      if merged == some [] then .ok t
      else
        let sources := match merged with
          | some _ => (c.mqSources ++ c.mq.getD []) ++ qs
          | none => []
        let query := merged.getD qs
        let (t1, idx) := addChild (!af.shallowSibling) t c.parent (.media query) (.media sources)
        let c1 := { c with parent := some idx, mq := some query, mqSources := sources }
        if !c.styleRuleExists then visitStmts af c1 t1 body
        else
          match c.styleRule with
          | none => .error .unreachable
          | some sel =>
            let (t2, idx2) := addChild (!af.shallowSibling) t1 (some idx) (.rule sel) .never
            visitStmts af { c1 with parent := some idx2 } t2 body
    | .supports cond body =>
      -- visitor.rs:484
      let (t1, idx) := addChild (!af.shallowSibling) t c.parent (.supports cond) .styleRule
      let c1 := { c with parent := some idx }
      if !c.styleRuleExists then visitStmts af c1 t1 body
      else
        match c.styleRule with
        | none => .error .unreachable
        | some sel =>
          let (t2, idx2) := addChild (!af.shallowSibling) t1 (some idx) (.rule sel) .never
          visitStmts af { c1 with parent := some idx2 } t2 body
    | .unknown n p body =>
      -- visitor.rs:1479 (names are never `keyframes` here: the driver rejects them)
      let (t1, idx) := addChild (!af.shallowSibling) t c.parent (.unknown n p) .styleRule
      let c1 := { c with parent := some idx, inUnknown := true }
      if !c.styleRuleExists then visitStmts af c1 t1 body
      else
        match c.styleRule with
        | none => .error .unreachable
        | some sel =>
          let (t2, idx2) := addChild (!af.shallowSibling) t1 (some idx) (.rule sel) .never
          visitStmts af { c1 with parent := some idx2 } t2 body
    | .atroot q body =>
      -- visitor.rs:1119
      let q := q.getD Query.dflt
      let included := includedFrom t q t.length c.parent
      match trimIncluded t c.parent included with
      | none => .error .unreachable
      | some root =>
        if some root == c.parent then visitStmts af c t body
        else
          match atRootParent af t root included with
          | none => .error .unreachable
          | some (t1, newParent) => visitStmts af (atRootScope af c t q included newParent) t1 body
  def visitStmts (af : AsFound) (c : VCtx) (t : Tree) : Stmts → Except Err Tree
    | .nil => .ok t
    | .cons s ss =>
      match visitStmt af c t s with
      | .error e => .error e
      | .ok t' => visitStmts af c t' ss
end

def treeBuild (af : AsFound) (src : Stmts) : Except Err Tree := visitStmts af VCtx.init Tree.init src

/-! ### finish (css_tree.rs:43) -/

mutual
  inductive Css where
    | mk (k : Kind) (body : CssList)
  inductive CssList where
    | nil
    | cons (c : Css) (cs : CssList)
end

def CssList.snoc : CssList → Css → CssList
  | .nil, x => .cons x .nil
  | .cons c cs, x => .cons c (cs.snoc x)

def CssList.toList : CssList → List Css
  | .nil => []
  | .cons c cs => c :: cs.toList

def Css.kind : Css → Kind | .mk k _ => k
def Css.body : Css → CssList | .mk _ b => b
def Css.push : Css → Css → Css | .mk k b, c => .mk k (b.snoc c)

abbrev FState := List (Option Css)

/-- `stmts[child].take()` then `add_child_to_parent` (css_tree.rs:69,80); `none` = `unreachable!()`. -/
def takeInto (s : FState) (child parent : Nat) : Option FState :=
  match s[child]? with
  | some (some c) =>
    match s[parent]? with
    | some (some (.mk (.decl _ _) _)) => none
    | some (some p) => some ((s.set child none).set parent (some (p.push c)))
    | _ => none
  | _ => some s

/-- `apply_children` (css_tree.rs:63); the recursion follows the child map, hence the fuel. -/
def applyChildren (t : Tree) : Nat → Nat → FState → Option FState
  | 0, _, _ => none
  | f + 1, p, s =>
    (childrenOf t p).foldlM (fun s c =>
      match (if hasChildren t c then applyChildren t f c s else some s) with
      | none => none
      | some s1 => takeInto s1 c p) s

def finishLoop (t : Tree) : List Nat → FState → Option FState
  | [], s => some s
  | i :: is, s =>
    if ((s[i]?).join).isNone || !hasChildren t i then finishLoop t is s
    else match applyChildren t t.length i s with
      | none => none
      | some s' => finishLoop t is s'

/-- `CssTree::finish`: indices `1 … len-2` (the loop bound is `idx < len - 1`). -/
def finish (t : Tree) : Option (List Css) :=
  (finishLoop t ((List.range (t.length - 1)).drop 1) (t.map (fun r => r.stmt.map (Css.mk · .nil)))).map
    (fun s => s.filterMap id)

/-! ### what is written: invisible statements are skipped (lib.rs:205, serializer.rs:1113) -/

mutual
  /-- `CssStmt::is_invisible` (css.rs:54); selectors here are never placeholders. -/
  def isInvisible : Css → Bool
    | .mk (.rule _) body => allInvisible body
    | .mk (.decl _ _) _ => false
    | .mk (.media _) body => allInvisible body
    | .mk (.supports _) body => allInvisible body
    | .mk (.unknown _ _) _ => false
  def allInvisible : CssList → Bool
    | .nil => true
    | .cons c cs => isInvisible c && allInvisible cs
end

def declsIn : CssList → List (String × String)
  | .nil => []
  | .cons (.mk (.decl n v) _) cs => (n, v) :: declsIn cs
  | .cons _ cs => declsIn cs

mutual
  /-- What the serializer writes: `visit_stmt` returns early on an invisible statement
      (serializer.rs:1113), `write_children` therefore skips it; an unknown at-rule whose children
      are all invisible is written as `@x {}` (serializer.rs:1155). -/
  def emit : Css → Css
    | .mk k body => .mk k (emitList body)
  def emitList : CssList → CssList
    | .nil => .nil
    | .cons c cs => if isInvisible c then emitList cs else .cons (emit c) (emitList cs)
end

/-- The top-level loop (lib.rs:205). -/
def emitTop : List Css → List Css
  | [] => []
  | c :: cs => if isInvisible c then emitTop cs else emit c :: emitTop cs

mutual
  /-- The written CSS read the way tools/cssread.py `flat_rules` reads it: every style rule is a
      block (context, selector, its declarations); declarations directly inside an at-rule form
      one block without selector; nested nodes follow with the prelude added to the context. -/
  def blocksOf (ctx : List Kind) : Css → List Block
    | .mk (.decl _ _) _ => []
    | .mk (.rule sel) body =>
      { ctx := ctx, sel := some sel, decls := declsIn body } :: blocksOfList (ctx ++ [.rule sel]) body
    | .mk (.media qs) body =>
      { ctx := ctx ++ [.media qs], sel := none, decls := declsIn body } :: blocksOfList (ctx ++ [.media qs]) body
    | .mk (.supports s) body =>
      { ctx := ctx ++ [.supports s], sel := none, decls := declsIn body } :: blocksOfList (ctx ++ [.supports s]) body
    | .mk (.unknown n p) body =>
      { ctx := ctx ++ [.unknown n p], sel := none, decls := declsIn body } :: blocksOfList (ctx ++ [.unknown n p]) body
  def blocksOfList (ctx : List Kind) : CssList → List Block
    | .nil => []
    | .cons c cs => blocksOf ctx c ++ blocksOfList ctx cs
end

def blocksTopRules : List Css → List Block
  | [] => []
  | c :: cs => blocksOf [] c ++ blocksTopRules cs

def topDecls : List Css → List (String × String)
  | [] => []
  | .mk (.decl n v) _ :: cs => (n, v) :: topDecls cs
  | _ :: cs => topDecls cs

/-- Blocks of a written statement list; blocks without declarations are not part of the
    observation.  Declarations written at the top level (possible only through `keepInUnknown`)
    are read as one block without context and selector, placed first. -/
def blocksTop (cs : List Css) : List Block :=
  ({ ctx := [], sel := none, decls := topDecls cs } :: blocksTopRules cs).filter Block.nonEmpty

/-- Observation of a finished tree. -/
def observeTree (t : Tree) : Except Err (List Block) :=
  match finish t with
  | none => .error .unreachable
  | some cs => .ok (blocksTop (emitTop cs))

def observe (r : Except Err Tree) : Except Err (List Block) :=
  match r with
  | .error e => .error e
  | .ok t => observeTree t

/-- The whole pipeline of the code as modelled. -/
def compile (af : AsFound) (src : Stmts) : Except Err (List Block) := observe (treeBuild af src)

/-- P̂: the observed block list is the one flattening by hand yields. -/
def specHolds (src : Stmts) (obs : Except Err (List Block)) : Bool :=
  match flattenSpec src, obs with
  | .ok a, .ok b => a == b
  | .error _, .error _ => true
  | _, _ => false

/-! ## Rendering (driver side only) -/

def renderCompound (c : Compound) : String :=
  (match c.par with | none => "" | some none => "&" | some (some s) => "&" ++ s) ++ String.join c.simples

def renderComp : Comp → String
  | .comb c => c
  | .cmp c => renderCompound c

def renderComplex (c : Complex) : String := " ".intercalate (c.map renderComp)
def renderSel (l : SelList) : String := ", ".intercalate (l.map renderComplex)

def renderKind : Kind → String
  | .rule sel => renderSel sel
  | .decl n v => n ++ ": " ++ v
  | .media qs => "@media " ++ ", ".intercalate (qs.map (fun q => " and ".intercalate (q.map (fun n => s!"(f{n})"))))
  | .supports c => "@supports " ++ c
  | .unknown n p => "@" ++ n ++ (if p.isEmpty then "" else " " ++ p)

/-- A block as the CSS reader reports it: preludes and selector as text. -/
structure RBlock where
  ctx : List String
  sel : Option String
  decls : List (String × String)
  deriving DecidableEq, Repr

def Block.render (b : Block) : RBlock :=
  { ctx := b.ctx.map renderKind, sel := b.sel.map renderSel, decls := b.decls }

/-- P̂ on text: used by the driver on the implementation's own output. -/
def specHoldsText (src : Stmts) (obs : Except Err (List RBlock)) : Bool :=
  match flattenSpec src, obs with
  | .ok a, .ok b => a.map Block.render == b
  | .error _, .error _ => true
  | _, _ => false

/-! ## Driver protocol

  tree   := <k> stmt^k
  stmt   := D decl | R <sel> <k> stmt^k | M <queries> <k> stmt^k | S <hex cond> <k> stmt^k
          | U <name> <hex params> <k> stmt^k | A <query> <k> stmt^k
  decl   := <name> <value|_> <k> decl^k
  sel    := complex{,complex}    complex := comp{/comp}    comp := > | + | ~ | compound
  compound := (_ | & | &suffix){:simple}
  queries := q{,q}   q := n{.n}
  query  := _ | w:name{.name} | o:name{.name}
  blocks := <n> { <nctx> <hex>^nctx <hex sel|_> <ndecl> (<hex name> <hex value>)^ndecl }^n
-/
open Grass.Proto

def parseCompound (s : String) : Option Compound :=
  match s.splitOn ":" with
  | [] => none
  | h :: rest =>
    let par : Option (Option (Option String)) :=
      if h == "_" then some none
      else if h == "&" then some (some none)
      else if h.startsWith "&" then some (some (some (h.drop 1).toString))
      else none
    match par with
    | none => none
    | some p => if rest.any (· == "") then none else some { par := p, simples := rest }

def parseComp (s : String) : Option Comp :=
  if s == ">" || s == "+" || s == "~" then some (.comb s) else (parseCompound s).map .cmp

def parseSel (s : String) : Option SelList :=
  (s.splitOn ",").mapM (fun c => (c.splitOn "/").mapM parseComp)

def parseQueries (s : String) : Option (List (List Nat)) :=
  (s.splitOn ",").mapM (fun q => (q.splitOn ".").mapM (·.toNat?))

def parseQuery (s : String) : Option (Option Query) :=
  if s == "_" then some none
  -- names are lower-cased by the parser (at_root_query.rs:44)
  else if s.startsWith "w:" then some (some { incl := true, names := ((s.drop 2).toString.splitOn ".").map String.toLower })
  else if s.startsWith "o:" then some (some { incl := false, names := ((s.drop 2).toString.splitOn ".").map String.toLower })
  else none

mutual
  def parseDecl : Nat → List String → Option (Decl × List String)
    | 0, _ => none
    | f + 1, n :: v :: k :: rest =>
      match k.toNat? with
      | none => none
      | some k =>
        match parseDecls f k rest with
        | none => none
        | some (body, rest') => some (.mk n (if v == "_" then none else some v) body, rest')
    | _, _ => none
  def parseDecls : Nat → Nat → List String → Option (Decls × List String)
    | 0, _, _ => none
    | _, 0, toks => some (.nil, toks)
    | f + 1, k + 1, toks =>
      match parseDecl f toks with
      | none => none
      | some (d, rest) =>
        match parseDecls f k rest with
        | none => none
        | some (ds, rest') => some (.cons d ds, rest')
end

def unvendor (s : String) : String :=
  -- `-x-keyframes` → `keyframes`
  if s.startsWith "-" then
    match (s.drop 1).toString.splitOn "-" with
    | _ :: rest@(_ :: _) => "-".intercalate rest
    | _ => s
  else s

mutual
  def parseStmt : Nat → List String → Option (Stmt × List String)
    | 0, _ => none
    | f + 1, "D" :: rest =>
      match parseDecl f rest with
      | none => none
      | some (d, rest') => some (.decl d, rest')
    | f + 1, "R" :: sel :: k :: rest =>
      match parseSel sel, k.toNat? with
      | some sel, some k => (parseStmts f k rest).map (fun (b, r) => (.rule sel b, r))
      | _, _ => none
    | f + 1, "M" :: qs :: k :: rest =>
      match parseQueries qs, k.toNat? with
      | some qs, some k => (parseStmts f k rest).map (fun (b, r) => (.media qs b, r))
      | _, _ => none
    | f + 1, "S" :: cond :: k :: rest =>
      match hexDecode cond, k.toNat? with
      | some cond, some k => (parseStmts f k rest).map (fun (b, r) => (.supports cond b, r))
      | _, _ => none
    | f + 1, "U" :: n :: p :: k :: rest =>
      match hexDecode p, k.toNat? with
      | some p, some k =>
        if unvendor n.toLower == "keyframes" then none
        else (parseStmts f k rest).map (fun (b, r) => (.unknown n p b, r))
      | _, _ => none
    | f + 1, "A" :: q :: k :: rest =>
      match parseQuery q, k.toNat? with
      | some q, some k => (parseStmts f k rest).map (fun (b, r) => (.atroot q b, r))
      | _, _ => none
    | _, _ => none
  def parseStmts : Nat → Nat → List String → Option (Stmts × List String)
    | 0, _, _ => none
    | _, 0, toks => some (.nil, toks)
    | f + 1, k + 1, toks =>
      match parseStmt f toks with
      | none => none
      | some (s, rest) =>
        match parseStmts f k rest with
        | none => none
        | some (ss, rest') => some (.cons s ss, rest')
end

/-- `<k> stmt^k`, returning the unread tokens. -/
def parseTree (toks : List String) : Option (Stmts × List String) :=
  match toks with
  | k :: rest =>
    match k.toNat? with
    | some k => parseStmts (toks.length + 1) k rest
    | none => none
  | [] => none

def encBlock (b : RBlock) : String :=
  " ".intercalate ([toString b.ctx.length] ++ b.ctx.map hexEncode ++ [match b.sel with | some s => hexEncode s | none => "_"]
    ++ [toString b.decls.length] ++ b.decls.flatMap (fun (n, v) => [hexEncode n, hexEncode v]))

def errStr : Err → String
  | .topLevelParent => "topLevelParent"
  | .incompatibleParent => "incompatibleParent"
  | .declOutsideRule => "declOutsideRule"
  | .unreachable => "unreachable"

def encRes (r : Except Err (List Block)) : String :=
  match r with
  | .error e => "E " ++ errStr e
  | .ok bs => " ".intercalate (["B", toString bs.length] ++ bs.map (fun b => encBlock b.render))

def takeHex : Nat → List String → Option (List String × List String)
  | 0, toks => some ([], toks)
  | k + 1, h :: rest =>
    match hexDecode h, takeHex k rest with
    | some s, some (ss, r) => some (s :: ss, r)
    | _, _ => none
  | _, [] => none

def takePairs : Nat → List String → Option (List (String × String) × List String)
  | 0, toks => some ([], toks)
  | k + 1, a :: b :: rest =>
    match hexDecode a, hexDecode b, takePairs k rest with
    | some a, some b, some (ps, r) => some ((a, b) :: ps, r)
    | _, _, _ => none
  | _, _ => none

def decBlocks : Nat → List String → Option (List RBlock)
  | 0, [] => some []
  | 0, _ => none
  | n + 1, nctx :: rest =>
    match nctx.toNat? with
    | none => none
    | some nctx =>
      match takeHex nctx rest with
      | some (ctx, sel :: nd :: rest') =>
        match (if sel == "_" then some none else (hexDecode sel).map some), nd.toNat? with
        | some sel, some nd =>
          match takePairs nd rest' with
          | some (ds, rest'') => (decBlocks n rest'').map (fun bs => { ctx := ctx, sel := sel, decls := ds } :: bs)
          | none => none
        | _, _ => none
      | _ => none
  | _, [] => none

/-- `B <n> blocks` | `E` (the implementation reported an error) -/
def decObs (toks : List String) : Option (Except Err (List RBlock)) :=
  match toks with
  | ["E"] => some (.error .unreachable)
  | "B" :: n :: rest =>
    match n.toNat? with
    | some n => (decBlocks n rest).map .ok
    | none => none
  | _ => none

def afOf (a b c : String) : Option AsFound :=
  match parseBool? a, parseBool? b, parseBool? c with
  | some a, some b, some c => some { outerCopyParent := a, keepInUnknown := b, shallowSibling := c }
  | _, _, _ => none

def handle : List String → String
  | "spec" :: toks =>
    match parseTree toks with
    | some (src, []) => "ok " ++ encRes (flattenSpec src)
    | _ => "bad-op"
  | "build" :: a :: b :: c :: toks =>
    match afOf a b c, parseTree toks with
    | some af, some (src, []) => "ok " ++ encRes (compile af src)
    | _, _ => "bad-op"
  | "run" :: toks =>
    -- spec | treeBuild with repair mask 0 … 7 (bit 0 = outerCopyParent repaired, bit 1 =
    -- keepInUnknown repaired, bit 2 = shallowSibling repaired; 0 = code as it stands, 7 = specified)
    match parseTree toks with
    | some (src, []) =>
      "ok " ++ " | ".intercalate
        (encRes (flattenSpec src) :: (List.range 8).map (fun m =>
          encRes (compile { outerCopyParent := m % 2 == 0, keepInUnknown := (m / 2) % 2 == 0,
                            shallowSibling := (m / 4) % 2 == 0 } src)))
    | _ => "bad-op"
  | "check" :: toks =>
    -- check <tree> <obs>: P̂ on the implementation's observation
    match parseTree toks with
    | some (src, rest) =>
      match decObs rest with
      | some obs => if specHoldsText src obs then "ok holds" else "ok fails"
      | none => "bad-op"
    | none => "bad-op"
  | "resolve" :: implicit :: parent :: child :: [] =>
    match parseBool? implicit, (if parent == "-" then some none else (parseSel parent).map some), parseSel child with
    | some i, some p, some c =>
      match resolveList p i c with
      | .ok r => "ok " ++ hexEncode (renderSel r)
      | .error e => "ok E " ++ errStr e
    | _, _, _ => "bad-op"
  | _ => "bad-op"

end Grass.CssTree
