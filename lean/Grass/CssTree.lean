import Grass.Proto
/- Core `CssTree` — stub; replaced by the model (see DESIGN.md §8). -/
namespace Grass.CssTree

def handle : List String → String
  | _ => "bad-op"

end Grass.CssTree
