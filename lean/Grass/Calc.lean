import Grass.Proto
/- Core `Calc` — stub; replaced by the model (see DESIGN.md §8). -/
namespace Grass.Calc

def handle : List String → String
  | _ => "bad-op"

end Grass.Calc
