import Grass.Proto
/-
  C16 core — calc()/min()/max()/clamp() simplification.

  Mirrors, function by function,
    crates/compiler/src/value/calculation.rs   (`CalculationArg`, `SassCalculation::{calc,min,max,clamp,
                                                 verify_length,verify_compatible_numbers,operate_internal,simplify}`)
    crates/compiler/src/value/sass_number.rs   (`has_compatible_units`, `is_comparable_to`,
                                                 `has_possibly_compatible_units`, `multiply_units`, Add/Sub/Mul/Div)
    crates/compiler/src/value/number.rs:158    (`Number::convert`)
    crates/compiler/src/unit/mod.rs:170        (`Unit::comparable`, `kind`), unit/conversion.rs (table, known compatibilities)
    crates/compiler/src/evaluate/visitor.rs:2584,2653 (`visit_calculation_value`, `visit_calculation_expr`)
    crates/compiler/src/serializer.rs:318,335  (`visit_calculation`, `write_calculation_arg`)
    crates/compiler/src/parse/value.rs:1588,1623,1677 (the grammar the printed form is read back with)

  Numbers are exact rationals (DESIGN §6); the units are the closed set
  px in cm mm q pt pc | em rem | vw | % | deg grad rad turn | s ms | Hz kHz | dpi dpcm dppx | unitless
  (every unit of UNIT_CONVERSION_TABLE, unit/conversion.rs:15, i.e. every convertible family), plus
  products/quotients of them.  `rad` factors contain `std::f64::consts::PI`, which IS a rational
  (`piF`): the model follows the code's constant, not the real π (relative difference 4e-17).
  A panic of the real code (`HashMap` index in `Number::convert`, the `debug_assert!` before it) is the
  explicit outcome `Res.panic`; the model never totalises it away.
-/
namespace Grass.Calc

/-! ### units -/

inductive BU where
  | px | inch | cm | mm | pt | em | rem | pct | vw | deg | turn | s | ms
  | q | pc | grad | rad | hz | khz | dpi | dpcm | dppx
  deriving DecidableEq, Repr, Inhabited

/-- `UnitKind` (unit/mod.rs:122). -/
inductive Kind where
  | absolute | fontRel | viewRel | angle | time | frequency | resolution | other | none
  deriving DecidableEq, Repr

/-- `Unit::kind` (unit/mod.rs:196) on base units. -/
def BU.kind : BU → Kind
  | .px | .inch | .cm | .mm | .pt | .q | .pc => .absolute
  | .em | .rem => .fontRel
  | .vw => .viewRel
  | .deg | .turn | .grad | .rad => .angle
  | .s | .ms => .time
  | .hz | .khz => .frequency
  | .dpi | .dpcm | .dppx => .resolution
  | .pct => .other

/-- A `Unit` value: `Unit::None` = `⟨[],[]⟩`, a plain unit = `⟨[u],[]⟩`, everything else is
    `Unit::Complex` (`Unit::new`, unit/mod.rs:135, never builds `Complex` for the first two shapes,
    so structural equality here is Rust's derived `PartialEq`). -/
structure CUnit where
  numer : List BU
  denom : List BU
  deriving DecidableEq, Repr, Inhabited

def CUnit.none : CUnit := ⟨[], []⟩
def CUnit.single (u : BU) : CUnit := ⟨[u], []⟩

def CUnit.isNone (u : CUnit) : Bool := u.numer.isEmpty && u.denom.isEmpty

/-- `Unit::is_complex` (unit/mod.rs:158). -/
def CUnit.isComplex (u : CUnit) : Bool :=
  match u with
  | ⟨[], []⟩ => false
  | ⟨[_], []⟩ => false
  | _ => true

def CUnit.kind (u : CUnit) : Kind :=
  match u with
  | ⟨[], []⟩ => .none
  | ⟨[b], []⟩ => b.kind
  | _ => .other

/-- `Unit::invert` (unit/mod.rs:152). -/
def CUnit.invert (u : CUnit) : CUnit := ⟨u.denom, u.numer⟩

/-- `Unit::comparable` (unit/mod.rs:162). -/
def comparable (a b : CUnit) : Bool :=
  if b.isNone then true else
  match a.kind with
  | .fontRel | .viewRel | .other => a == b
  | .none => true
  | k => b.kind == k

/-- `Unit::comparable` on two base units (as used by `are_any_convertible`, unit/mod.rs:110). -/
def BU.comparable (a b : BU) : Bool :=
  match a.kind with
  | .fontRel | .viewRel | .other => a == b
  | k => b.kind == k

/-- `SassNumber::has_compatible_units` (sass_number.rs:46): unitless only with unitless. -/
def compatible (a b : CUnit) : Bool :=
  if (a.isNone || b.isNone) && a != b then false else comparable a b

/-- `known_compatibilities_by_unit` (unit/conversion.rs:186): index of the set, if any. -/
def knownCompat (u : CUnit) : Option Nat :=
  match u with
  | ⟨[b], []⟩ =>
    match b with
    | .px | .inch | .cm | .mm | .pt | .q | .pc | .em | .rem | .vw => some 0
    | .deg | .turn | .grad | .rad => some 1
    | .s | .ms => some 2
    | .hz | .khz => some 3
    | .dpi | .dpcm | .dppx => some 4
    | .pct => Option.none
  | _ => Option.none

/-- `SassNumber::has_possibly_compatible_units` (sass_number.rs:223).
    `strict = true` is the code as it stands: a unitless number is not compatible with a number that
    has a unit (sass_number.rs:229, as dart-sass).  `strict = false` is the rule found before
    `fix:` b057818, kept for the as-found witness. -/
def possiblyCompatible (strict : Bool) (a b : CUnit) : Bool :=
  if a.isComplex || b.isComplex then false else
  if strict && (a.isNone != b.isNone) then false else
  match knownCompat a with
  | Option.none => true
  | some g => knownCompat b == some g || (knownCompat b).isNone

/-- `std::f64::consts::PI` = 0x400921FB54442D18 = 884279719003555 / 2^48, exactly (the constant the
    `rad` rows of the table are built from, unit/conversion.rs:7). -/
def piF : Rat := 884279719003555 / 281474976710656

/-- `UNIT_CONVERSION_TABLE[to].get(from)` (unit/conversion.rs:15): the factor that turns a value
    in `from` into a value in `to`.  Written entry by entry from the Rust table. -/
def table (to frm : BU) : Option Rat :=
  match to, frm with
  | .inch, .inch => some 1
  | .inch, .cm => some (1 / (254/100))
  | .inch, .pc => some (1 / 6)
  | .inch, .mm => some (1 / (254/10))
  | .inch, .q => some (1 / (1016/10))
  | .inch, .pt => some (1 / 72)
  | .inch, .px => some (1 / 96)
  | .cm, .inch => some (254/100)
  | .cm, .cm => some 1
  | .cm, .pc => some ((254/100) / 6)
  | .cm, .mm => some (1 / 10)
  | .cm, .q => some (1 / 40)
  | .cm, .pt => some ((254/100) / 72)
  | .cm, .px => some ((254/100) / 96)
  | .pc, .inch => some 6
  | .pc, .cm => some (6 / (254/100))
  | .pc, .pc => some 1
  | .pc, .mm => some (6 / (254/10))
  | .pc, .q => some (6 / (1016/10))
  | .pc, .pt => some (1 / 12)
  | .pc, .px => some (1 / 16)
  | .mm, .inch => some (254/10)
  | .mm, .cm => some 10
  | .mm, .pc => some ((254/10) / 6)
  | .mm, .mm => some 1
  | .mm, .q => some (1 / 4)
  | .mm, .pt => some ((254/10) / 72)
  | .mm, .px => some ((254/10) / 96)
  | .q, .inch => some (1016/10)
  | .q, .cm => some 40
  | .q, .pc => some ((1016/10) / 6)
  | .q, .mm => some 4
  | .q, .q => some 1
  | .q, .pt => some ((1016/10) / 72)
  | .q, .px => some ((1016/10) / 96)
  | .pt, .inch => some 72
  | .pt, .cm => some (72 / (254/100))
  | .pt, .pc => some 12
  | .pt, .mm => some (72 / (254/10))
  | .pt, .q => some (72 / (1016/10))
  | .pt, .pt => some 1
  | .pt, .px => some (3 / 4)
  | .px, .inch => some 96
  | .px, .cm => some (96 / (254/100))
  | .px, .pc => some 16
  | .px, .mm => some (96 / (254/10))
  | .px, .q => some (96 / (1016/10))
  | .px, .pt => some (4 / 3)
  | .px, .px => some 1
  | .deg, .deg => some 1
  | .deg, .grad => some (9 / 10)
  | .deg, .rad => some (180 / piF)
  | .deg, .turn => some 360
  | .grad, .deg => some (10 / 9)
  | .grad, .grad => some 1
  | .grad, .rad => some (200 / piF)
  | .grad, .turn => some 400
  | .rad, .deg => some (piF / 180)
  | .rad, .grad => some (piF / 200)
  | .rad, .rad => some 1
  | .rad, .turn => some (2 * piF)
  | .turn, .deg => some (1 / 360)
  | .turn, .grad => some (1 / 400)
  | .turn, .rad => some (1 / (2 * piF))
  | .turn, .turn => some 1
  | .s, .s => some 1
  | .s, .ms => some (1 / 1000)
  | .ms, .s => some 1000
  | .ms, .ms => some 1
  | .hz, .hz => some 1
  | .hz, .khz => some 1000
  | .khz, .hz => some (1 / 1000)
  | .khz, .khz => some 1
  | .dpi, .dpi => some 1
  | .dpi, .dpcm => some (254/100)
  | .dpi, .dppx => some 96
  | .dpcm, .dpi => some (1 / (254/100))
  | .dpcm, .dpcm => some 1
  | .dpcm, .dppx => some (96 / (254/100))
  | .dppx, .dpi => some (1 / 96)
  | .dppx, .dpcm => some ((254/100) / 96)
  | .dppx, .dppx => some 1
  | _, _ => Option.none

/-- `conversion_factor(from, to)` (sass_number.rs:24). -/
def convFactor (frm to : BU) : Option Rat :=
  if frm = to then some 1 else table to frm

/-- `Number::convert(self, from, to)` (number.rs:158).  `none` = the real code panics: the
    `debug_assert!(from.comparable(to))` fails, or `UNIT_CONVERSION_TABLE[to][from]` has no entry. -/
def convert (x : Rat) (frm to : CUnit) : Option Rat :=
  if frm.isNone || to.isNone || frm == to then some x else
  if !comparable frm to then Option.none else
  match to, frm with
  | ⟨[t], []⟩, ⟨[f], []⟩ => (table t f).map (x * ·)
  | _, _ => Option.none

/-! ### outcomes -/

inductive Err where
  | incompatible        -- "{a} and {b} are incompatible."
  | complexInCalc       -- "Number {n} isn't compatible with CSS calculations."
  | badLength           -- "3 arguments required, but only {n} {was|were} passed."
  | invalidCssValue     -- "{n} isn't a valid CSS value." (serializer.rs:551)
  | nonFinite           -- division by zero: the real code goes on with ±Infinity/NaN; the model stops
  deriving DecidableEq, Repr

inductive Res (α : Type) where
  | ok (a : α)
  | err (e : Err)
  | panic
  deriving Repr, DecidableEq

def Res.bind {α β : Type} (r : Res α) (f : α → Res β) : Res β :=
  match r with
  | .ok a => f a
  | .err e => .err e
  | .panic => .panic

/-! ### numbers with units (`SassNumber`) -/

structure Num where
  n : Rat
  u : CUnit
  deriving DecidableEq, Repr, Inhabited

/-- `impl Add for SassNumber` (sass_number.rs:262). -/
def numAdd (a b : Num) : Res Num :=
  if a.u == b.u then .ok ⟨a.n + b.n, a.u⟩
  else if a.u.isNone then .ok ⟨a.n + b.n, b.u⟩
  else if b.u.isNone then .ok ⟨a.n + b.n, a.u⟩
  else match convert b.n b.u a.u with
    | some c => .ok ⟨a.n + c, a.u⟩
    | Option.none => .panic

/-- `impl Sub for SassNumber` (sass_number.rs:294). -/
def numSub (a b : Num) : Res Num :=
  if a.u == b.u then .ok ⟨a.n - b.n, a.u⟩
  else if a.u.isNone then .ok ⟨a.n - b.n, b.u⟩
  else if b.u.isNone then .ok ⟨a.n - b.n, a.u⟩
  else match convert b.n b.u a.u with
    | some c => .ok ⟨a.n - c, a.u⟩
    | Option.none => .panic

/-- `are_any_convertible` (unit/mod.rs:110). -/
def anyConvertible (xs ys : List BU) : Bool := xs.any (fun x => ys.any (fun y => x.comparable y))

/-- One `retain` pass of `multiply_units` (sass_number.rs:95): remove the first denominator unit
    that converts to `numer`, returning the factor. -/
def removeFirstConv (numer : BU) : List BU → Option (Rat × List BU)
  | [] => Option.none
  | d :: ds =>
    match convFactor d numer with
    | some f => some (f, ds)
    | Option.none =>
      match removeFirstConv numer ds with
      | some (f, r) => some (f, d :: r)
      | Option.none => Option.none

/-- The `for numer in …` loop of `multiply_units`: (value, kept numerators, remaining denominators). -/
def cancelLoop : List BU → List BU → Rat → Rat × List BU × List BU
  | [], ds, x => (x, [], ds)
  | n :: ns, ds, x =>
    match removeFirstConv n ds with
    | some (f, ds') => cancelLoop ns ds' (x / f)
    | Option.none =>
      match cancelLoop ns ds x with
      | (x', kept, ds'') => (x', n :: kept, ds'')

/-- `SassNumber::multiply_units` (sass_number.rs:55). -/
def multiplyUnits (su : CUnit) (num : Rat) (ou : CUnit) : Num :=
  let nu := su.numer; let du := su.denom; let on := ou.numer; let od := ou.denom
  if nu.isEmpty && od.isEmpty && !anyConvertible du on then ⟨num, ⟨on, du⟩⟩
  else if nu.isEmpty && du.isEmpty then ⟨num, ⟨on, od⟩⟩
  else if !nu.isEmpty && on.isEmpty && (od.isEmpty || (du.isEmpty && !anyConvertible nu od)) then
    ⟨num, ⟨nu, od⟩⟩
  else
    match cancelLoop nu od num with
    | (x1, kept1, od') =>
      match cancelLoop on du x1 with
      | (x2, kept2, du') => ⟨x2, ⟨kept1 ++ kept2, du' ++ od'⟩⟩

/-- `impl Mul for SassNumber` (sass_number.rs:326). -/
def numMul (a b : Num) : Num :=
  if b.u.isNone then ⟨a.n * b.n, a.u⟩ else multiplyUnits a.u (a.n * b.n) b.u

/-- `impl Div for SassNumber` (sass_number.rs:341).  A zero divisor leaves the finite numbers:
    the real code continues with ±Infinity / NaN and prints `Infinitypx` / `NaN`; the model
    reports `nonFinite` and the theorems are guarded by its absence. -/
def numDiv (a b : Num) : Res Num :=
  if b.n = 0 then .err .nonFinite
  else if b.u.isNone then .ok ⟨a.n / b.n, a.u⟩
  else .ok (multiplyUnits a.u (a.n / b.n) b.u.invert)

/-! ### calculation trees (`CalculationArg`, calculation.rs:16) -/

inductive Op where
  | plus | minus | mul | div
  deriving DecidableEq, Repr, Inhabited

inductive CName where
  | calc | min | max | clamp
  deriving DecidableEq, Repr, Inhabited

/-- `CalculationName::in_min_or_max` (calculation.rs:60). -/
def CName.inMinMax : CName → Bool
  | .min | .max => true
  | _ => false

/-- `BinaryOp::precedence` (common.rs:32) for the four operators. -/
def Op.prec : Op → Nat
  | .plus | .minus => 5
  | .mul | .div => 6

mutual
/-- `CalculationArg`.  `str id paren` is `CalculationArg::String`: opaque text such as `var(--x)`
    (identified by `id`; `paren` = the text is the parenthesised form `(var(--x))` built at
    visitor.rs:2599).  `interp id` is `CalculationArg::Interpolation`.  The same type is used for the
    source expression (`AstExpr` restricted to calculations: `Paren` is transparent, a variable
    holding a number/calculation/unquoted string is its value). -/
inductive CalcArg where
  | number (n : Rat) (u : CUnit)
  | calculation (name : CName) (args : CalcArgs)
  | str (id : Nat) (paren : Bool)
  | interp (id : Nat)
  | operation (l : CalcArg) (op : Op) (r : CalcArg)
inductive CalcArgs where
  | nil
  | cons (a : CalcArg) (as : CalcArgs)
end

deriving instance DecidableEq for CalcArg, CalcArgs

def CalcArgs.toList : CalcArgs → List CalcArg
  | .nil => []
  | .cons a as => a :: as.toList

def CalcArgs.ofList : List CalcArg → CalcArgs
  | [] => .nil
  | a :: as => .cons a (CalcArgs.ofList as)

/-- Switches for the places where the code deviates (or deviated) from the property.
    `Cfg.now` is the code as it stands and is what the correspondence runs against. -/
structure Cfg where
  /-- `true`: `clamp` reduces only under `has_compatible_units` (calculation.rs:195, after the
      `fix:` commit for D1).  `false`: the guard found on the pinned tree, `is_comparable_to`. -/
  clampGuarded : Bool
  /-- `true`: `clamp` as it stands (`value <= min || max < min → min; value >= max → max; value`,
      i.e. CSS `max(MIN, min(VAL, MAX))`).  `false`: the cascade found before `fix:` 26a5ec6, without
      the `max < min` test (they differ exactly when `MAX < MIN < VAL`). -/
  clampCss : Bool
  /-- passed to `possiblyCompatible`: `true` is the code as it stands (after `fix:` b057818),
      `false` the rule found before. -/
  strict : Bool
  deriving Repr

def Cfg.now : Cfg := ⟨true, true, true⟩
def Cfg.spec : Cfg := ⟨true, true, true⟩
/-- the tree before the `fix:` commits 26a5ec6 (clamp order, D40) and b057818 (unitless operands, D41) -/
def Cfg.asFound : Cfg := ⟨true, false, false⟩
/-- and before 0ad6ed0 (clamp guard, D1) -/
def Cfg.asFoundD1 : Cfg := ⟨false, false, false⟩

/-- Result of a simplification step; `coerced` records that a unitless number was combined with a
    number that has a unit inside `min()`/`max()` (Sass's legacy coercion: `is_comparable_to`
    instead of `has_compatible_units`), which is outside CSS semantics. -/
structure Out where
  arg : CalcArg
  coerced : Bool
  deriving DecidableEq

/-- `SassCalculation::simplify` (calculation.rs:402): `calc(x)` as an argument is `x`.
    (`calc.args.remove(0)` — a `calc` value always has exactly one argument.) -/
def simplify : CalcArg → CalcArg
  | .calculation .calc (.cons a .nil) => a
  | a => a

def isComplexNumber : CalcArg → Bool
  | .number _ u => u.isComplex
  | _ => false

/-- Is some later number not possibly compatible with unit `u`? -/
def incompatWith (strict : Bool) (u : CUnit) : List CalcArg → Bool
  | [] => false
  | .number _ v :: rest => !possiblyCompatible strict u v || incompatWith strict u rest
  | _ :: rest => incompatWith strict u rest

def anyIncompatPair (strict : Bool) : List CalcArg → Bool
  | [] => false
  | .number _ u :: rest => incompatWith strict u rest || anyIncompatPair strict rest
  | _ :: rest => anyIncompatPair strict rest

/-- `verify_compatible_numbers` (calculation.rs:258). -/
def verifyCompatible (strict : Bool) (args : List CalcArg) : Res Unit :=
  if args.any isComplexNumber then .err .complexInCalc
  else if anyIncompatPair strict args then .err .incompatible
  else .ok ()

def isOpaque : CalcArg → Bool
  | .str _ _ | .interp _ => true
  | _ => false

/-- `verify_length` (calculation.rs:229). -/
def verifyLength (args : List CalcArg) (len : Nat) : Res Unit :=
  if args.length == len then .ok ()
  else if args.any isOpaque then .ok ()
  else .err .badLength

def Op.flip : Op → Op
  | .plus => .minus
  | .minus => .plus
  | o => o

/-- `SassCalculation::operate_internal` (calculation.rs:317) with `simplify = true`. -/
def operate (cfg : Cfg) (inMinMax : Bool) (op : Op) (left right : CalcArg) : Res Out :=
  let left := simplify left
  let right := simplify right
  match op with
  | .plus | .minus =>
    let generic : Res Out :=
      (verifyCompatible cfg.strict [left, right]).bind fun _ =>
        match right with
        | .number n u =>
          if n < 0 then .ok ⟨.operation left op.flip (.number (-n) u), false⟩
          else .ok ⟨.operation left op right, false⟩
        | _ => .ok ⟨.operation left op right, false⟩
    match left, right with
    | .number a ua, .number b ub =>
      if (if inMinMax then comparable ua ub else compatible ua ub) then
        (if op = .plus then numAdd ⟨a, ua⟩ ⟨b, ub⟩ else numSub ⟨a, ua⟩ ⟨b, ub⟩).bind fun r =>
          .ok ⟨.number r.n r.u, !compatible ua ub⟩
      else generic
    | _, _ => generic
  | .mul | .div =>
    match left, right with
    | .number a ua, .number b ub =>
      if op = .mul then
        let r := numMul ⟨a, ua⟩ ⟨b, ub⟩
        .ok ⟨.number r.n r.u, false⟩
      else (numDiv ⟨a, ua⟩ ⟨b, ub⟩).bind fun r => .ok ⟨.number r.n r.u, false⟩
    | _, _ => .ok ⟨.operation left op right, false⟩

/-- `SassCalculation::calc` (calculation.rs:76). -/
def calcFn (arg : CalcArg) : CalcArg :=
  match simplify arg with
  | .number n u => .number n u
  | .calculation nm as => .calculation nm as
  | a => .calculation .calc (.cons a .nil)

/-- The loop of `SassCalculation::min` / `max` (calculation.rs:94, :138).
    Result: the surviving extremum (`none` = `break` with `minimum = None`) and the coercion flag. -/
def extremumLoop (isMax : Bool) : Option Num → List CalcArg → Res (Option Num × Bool)
  | m, [] => .ok (m, false)
  | Option.none, .number n u :: rest => extremumLoop isMax (some ⟨n, u⟩) rest
  | some m, .number n u :: rest =>
    if !comparable m.u u then .ok (Option.none, false)
    else match convert n u m.u with
      | Option.none => .panic
      | some c =>
        (extremumLoop isMax (if (if isMax then m.n < c else m.n > c) then some ⟨n, u⟩ else some m) rest).bind
          fun (r, co) => .ok (r, co || !compatible m.u u)
  | _, _ :: _ => .ok (Option.none, false)

/-- `SassCalculation::min` / `max` (calculation.rs:88, :130). -/
def extremumFn (cfg : Cfg) (isMax : Bool) (args : List CalcArg) : Res Out :=
  let args := args.map simplify
  (extremumLoop isMax Option.none args).bind fun (m, co) =>
    match m with
    | some m => .ok ⟨.number m.n m.u, co⟩
    | Option.none =>
      (verifyCompatible cfg.strict args).bind fun _ =>
        .ok ⟨.calculation (if isMax then .max else .min) (CalcArgs.ofList args), false⟩

/-- The reducing branch of `SassCalculation::clamp` (calculation.rs:189–212).
    `clampCss = true` is the code as it stands (after `fix:` 26a5ec6): MIN also wins when
    `MAX < MIN` (MAX converted to MIN's unit).  `clampCss = false` is the cascade found before. -/
def clampReduce (cfg : Cfg) (mn v mx : Num) : Res Num :=
  match convert mn.n mn.u v.u, convert mx.n mx.u v.u with
  | some mn', some mx' =>
    if v.n ≤ mn' then .ok mn
    else if cfg.clampCss then
      match convert mx.n mx.u mn.u with
      | some mxm =>
        if mxm < mn.n then .ok mn
        else if v.n ≥ mx' then .ok mx
        else .ok v
      | Option.none => .panic
    else if v.n ≥ mx' then .ok mx
    else .ok v
  | _, _ => .panic

/-- `SassCalculation::clamp` (calculation.rs:174). -/
def clampFn (cfg : Cfg) (args : List CalcArg) : Res Out :=
  let args := args.map simplify
  let generic : Res Out :=
    (verifyLength args 3).bind fun _ =>
      (verifyCompatible cfg.strict args).bind fun _ =>
        .ok ⟨.calculation .clamp (CalcArgs.ofList args), false⟩
  match args with
  | [.number a ua, .number b ub, .number c uc] =>
    if (if cfg.clampGuarded then compatible ua ub && compatible ua uc
        else comparable ua ub && comparable ua uc) then
      (clampReduce cfg ⟨a, ua⟩ ⟨b, ub⟩ ⟨c, uc⟩).bind fun r =>
        .ok ⟨.number r.n r.u, !(compatible ua ub && compatible ua uc)⟩
    else generic
  | _ => generic

/-- The `match name` of `visit_calculation_expr` (visitor.rs:2670). -/
def applyName (cfg : Cfg) (name : CName) (args : List CalcArg) : Res Out :=
  match name with
  | .calc =>
    match args with
    | [a] => .ok ⟨calcFn a, false⟩
    | _ => .err .badLength          -- the parser admits exactly one argument
  | .min => extremumFn cfg false args
  | .max => extremumFn cfg true args
  | .clamp => clampFn cfg args

mutual
/-- `visit_calculation_value` (visitor.rs:2584). -/
def visitValue (cfg : Cfg) (imm : Bool) : CalcArg → Res Out
  | .number n u => .ok ⟨.number n u, false⟩
  | .str id p => .ok ⟨.str id p, false⟩
  | .interp id => .ok ⟨.interp id, false⟩
  | .operation l op r =>
    match visitValue cfg imm l with
    | .ok l' =>
      match visitValue cfg imm r with
      | .ok r' =>
        match operate cfg imm op l'.arg r'.arg with
        | .ok o => .ok ⟨o.arg, o.coerced || l'.coerced || r'.coerced⟩
        | .err e => .err e
        | .panic => .panic
      | .err e => .err e
      | .panic => .panic
    | .err e => .err e
    | .panic => .panic
  | .calculation name args =>
    match visitArgs cfg name.inMinMax args with
    | .ok (as, co) =>
      match applyName cfg name as with
      | .ok o => .ok ⟨o.arg, o.coerced || co⟩
      | .err e => .err e
      | .panic => .panic
    | .err e => .err e
    | .panic => .panic
/-- The `map` over the arguments in `visit_calculation_expr` (visitor.rs:2659). -/
def visitArgs (cfg : Cfg) (imm : Bool) : CalcArgs → Res (List CalcArg × Bool)
  | .nil => .ok ([], false)
  | .cons a as =>
    match visitValue cfg imm a with
    | .ok a' =>
      match visitArgs cfg imm as with
      | .ok (as', co) => .ok (a'.arg :: as', a'.coerced || co)
      | .err e => .err e
      | .panic => .panic
    | .err e => .err e
    | .panic => .panic
end

mutual
/-- Every number can be written as CSS (`visit_number`, serializer.rs:551). -/
def printable : CalcArg → Bool
  | .number _ u => !u.isComplex
  | .calculation _ args => printableArgs args
  | .str _ _ | .interp _ => true
  | .operation l _ r => printable l && printable r
def printableArgs : CalcArgs → Bool
  | .nil => true
  | .cons a as => printable a && printableArgs as
end

/-- A whole declaration value `name(args…)`: evaluate, then serialize. -/
def compile (cfg : Cfg) (src : CalcArg) : Res Out :=
  (visitValue cfg false src).bind fun o =>
    if printable o.arg then .ok o else .err .invalidCssValue

/-! ### a zero divisor: what the real code goes on with

    `impl Div for SassNumber` (sass_number.rs:341) divides the two `f64`s whatever the divisor is, so
    `x / 0` is IEEE `+∞` (x > 0), `−∞` (x < 0) or NaN (x = 0), carrying the unit ordinary division
    gives; the serializer writes `Infinity`, `-Infinity`, `NaN` followed by the unit
    (serializer.rs:569, number.rs:266).  The pinned grass has no `infinity`/`NaN`/`pi` keywords inside
    `calc()` (parse/value.rs:1588 `parse_calculation_value`: "Expected "(" or "."" ), so a zero divisor
    (here or in `math.div`) is the only source of non-finite operands.  The model stops at the first
    one (`Err.nonFinite`); these definitions describe that first non-finite number. -/

inductive NF where
  | pinf | ninf | nan
  deriving DecidableEq, Repr

/-- IEEE 754 `x / 0.0` for a finite `x` and a positive zero. -/
def divZeroClass (x : Rat) : NF := if 0 < x then .pinf else if x < 0 then .ninf else .nan

/-- the unit of `a / b` (independent of the magnitudes: `multiply_units` only threads the value). -/
def divUnit (ua ub : CUnit) : CUnit :=
  if ub.isNone then ua else (multiplyUnits ua 0 ub.invert).u

/-- `Number::to_string` / `write_float` on a non-finite double (number.rs:266, serializer.rs:569). -/
def nfText : NF → String
  | .pinf => "Infinity" | .ninf => "-Infinity" | .nan => "NaN"

/-- `calc(L / 0u)` with the zero written literally and `L` evaluating to a number: the class and unit
    of the value grass prints.  (`literal`: the dividend is a literal too, so its sign is exact.) -/
def nonFiniteTop (cfg : Cfg) : CalcArg → Option (NF × CUnit × Bool)
  | .calculation .calc (.cons (.operation l .div (.number z ub)) .nil) =>
    if z = 0 then
      match visitValue cfg false l with
      | .ok ⟨.number a ua, _⟩ =>
        some (divZeroClass a, divUnit ua ub, match l with | .number _ _ => true | _ => false)
      | _ => Option.none
    else Option.none
  | _ => Option.none

/-! ### "all operands have known, mutually convertible units" (the first sentence of the property) -/

/-- what the parser admits for each name (parse/value.rs:1718–1757) -/
def arityOk : CName → CalcArgs → Bool
  | .calc, .cons _ .nil => true
  | .clamp, .cons _ (.cons _ (.cons _ .nil)) => true
  | .min, .cons _ _ => true
  | .max, .cons _ _ => true
  | _, _ => false

mutual
/-- `plain g a`: `a` is built from numbers only; sums, `min`, `max`, `clamp` combine operands whose
    units are all `has_compatible_units` with `g` (equal, or plain units of one convertible family of
    the table); products and quotients are by unitless operands only. -/
def plain : CUnit → CalcArg → Bool
  | g, .number _ u => compatible u g
  | _, .str _ _ => false
  | _, .interp _ => false
  | g, .operation l .plus r => plain g l && plain g r
  | g, .operation l .minus r => plain g l && plain g r
  | g, .operation l .mul r => (plain g l && plain CUnit.none r) || (plain CUnit.none l && plain g r)
  | g, .operation l .div r => plain g l && plain CUnit.none r
  | g, .calculation nm args => arityOk nm args && plainArgs g args
def plainArgs : CUnit → CalcArgs → Bool
  | _, .nil => true
  | g, .cons a as => plain g a && plainArgs g as
end

mutual
def leafUnits : CalcArg → List CUnit
  | .number _ u => [u]
  | .str _ _ => []
  | .interp _ => []
  | .operation l _ r => leafUnits l ++ leafUnits r
  | .calculation _ args => leafUnitsArgs args
def leafUnitsArgs : CalcArgs → List CUnit
  | .nil => []
  | .cons a as => leafUnits a ++ leafUnitsArgs as
end

/-- driver side: `plain g a` for the unit `g` of some leaf. -/
def plainSome (a : CalcArg) : Bool := (leafUnits a).any (fun g => plain g a)

/-! ### semantics: the quantity an expression denotes -/

/-- A unit environment.  `px`, `deg`, `s` scale the canonical unit of each convertible kind (so an
    identity that holds for every environment is also dimensionally homogeneous: `3` and `3px`
    differ as soon as `px ≠ 1`); `em rem pct vw` are the lengths the relative units resolve to;
    `hz`, `dppx` likewise for frequencies and resolutions;
    `atom` gives each opaque operand (`var()`, interpolation) a value. -/
structure Env where
  px : Rat
  deg : Rat
  s : Rat
  em : Rat
  rem : Rat
  pct : Rat
  vw : Rat
  hz : Rat
  dppx : Rat
  atom : Nat → Option Rat

def Env.wf (ρ : Env) : Prop :=
  0 < ρ.px ∧ 0 < ρ.deg ∧ 0 < ρ.s ∧ 0 < ρ.em ∧ 0 < ρ.rem ∧ 0 < ρ.pct ∧ 0 < ρ.vw ∧ 0 < ρ.hz ∧ 0 < ρ.dppx

def BU.size (ρ : Env) : BU → Rat
  | .px => ρ.px
  | .inch => 96 * ρ.px
  | .cm => 4800 / 127 * ρ.px
  | .mm => 480 / 127 * ρ.px
  | .pt => 4 / 3 * ρ.px
  | .em => ρ.em
  | .rem => ρ.rem
  | .pct => ρ.pct
  | .vw => ρ.vw
  | .deg => ρ.deg
  | .turn => 360 * ρ.deg
  | .s => ρ.s
  | .ms => ρ.s / 1000
  | .q => 120 / 127 * ρ.px
  | .pc => 16 * ρ.px
  | .grad => 9 / 10 * ρ.deg
  | .rad => 180 / piF * ρ.deg
  | .hz => ρ.hz
  | .khz => 1000 * ρ.hz
  | .dpi => ρ.dppx / 96
  | .dpcm => 127 / 4800 * ρ.dppx
  | .dppx => ρ.dppx

def prodSize (ρ : Env) : List BU → Rat
  | [] => 1
  | b :: bs => b.size ρ * prodSize ρ bs

def unitVal (ρ : Env) (u : CUnit) : Rat := prodSize ρ u.numer / prodSize ρ u.denom

def Num.val (ρ : Env) (x : Num) : Rat := x.n * unitVal ρ x.u

def applyOp (op : Op) (x y : Rat) : Option Rat :=
  match op with
  | .plus => some (x + y)
  | .minus => some (x - y)
  | .mul => some (x * y)
  | .div => if y = 0 then Option.none else some (x / y)

def rmin (a b : Rat) : Rat := if b < a then b else a
def rmax (a b : Rat) : Rat := if a < b then b else a

def foldMin : Rat → List Rat → Rat
  | m, [] => m
  | m, x :: xs => foldMin (rmin m x) xs

def foldMax : Rat → List Rat → Rat
  | m, [] => m
  | m, x :: xs => foldMax (rmax m x) xs

/-- CSS Values 4 §10: `calc(x)`, `min`, `max`, `clamp(MIN, VAL, MAX) = max(MIN, min(VAL, MAX))`. -/
def evalFn (name : CName) (vs : List Rat) : Option Rat :=
  match name, vs with
  | .calc, [x] => some x
  | .min, x :: xs => some (foldMin x xs)
  | .max, x :: xs => some (foldMax x xs)
  | .clamp, [a, b, c] => some (rmax a (rmin b c))
  | _, _ => Option.none

mutual
def evalCalc (ρ : Env) : CalcArg → Option Rat
  | .number n u => some (n * unitVal ρ u)
  | .str id _ => ρ.atom id
  | .interp id => ρ.atom id
  | .operation l op r =>
    match evalCalc ρ l, evalCalc ρ r with
    | some x, some y => applyOp op x y
    | _, _ => Option.none
  | .calculation name args =>
    match evalArgs ρ args with
    | some vs => evalFn name vs
    | Option.none => Option.none
def evalArgs (ρ : Env) : CalcArgs → Option (List Rat)
  | .nil => some []
  | .cons a as =>
    match evalCalc ρ a, evalArgs ρ as with
    | some x, some xs => some (x :: xs)
    | _, _ => Option.none
end

/-! ### the printed form (`write_calculation_arg`, serializer.rs:335) -/

inductive Tok where
  | num (n : Rat) (u : CUnit)
  | atom (id : Nat)
  | op (o : Op)
  | lp | rp | comma
  | fn (name : CName)          -- `calc(` / `min(` / `max(` / `clamp(`
  deriving DecidableEq, Repr

/-- `paren_left` (serializer.rs:346). -/
def parenLeft (l : CalcArg) (op : Op) : Bool :=
  match l with
  | .interp _ => true
  | .operation _ op2 _ => op2.prec < op.prec
  | _ => false

/-- `CalculationArg::parenthesize_calculation_rhs` (calculation.rs:29). -/
def parenRhsOp (outer right : Op) : Bool :=
  if outer = .div then true
  else if outer = .plus then false
  else right = .plus || right = .minus

/-- `paren_right` (serializer.rs:374). -/
def parenRight (op : Op) (r : CalcArg) : Bool :=
  match r with
  | .interp _ => true
  | .operation _ op2 _ => parenRhsOp op op2
  | _ => false

def wrap (b : Bool) (ts : List Tok) : List Tok := if b then .lp :: (ts ++ [.rp]) else ts

mutual
/-- `write_calculation_arg`, as a token list (operator whitespace is lexical only). -/
def pr : CalcArg → List Tok
  | .number n u => [.num n u]
  | .str id p => if p then [.lp, .atom id, .rp] else [.atom id]
  | .interp id => [.atom id]
  | .calculation name args => .fn name :: (prArgs args ++ [.rp])
  | .operation l op r => wrap (parenLeft l op) (pr l) ++ (.op op :: wrap (parenRight op r) (pr r))
/-- the argument loop of `visit_calculation` (serializer.rs:318). -/
def prArgs : CalcArgs → List Tok
  | .nil => []
  | .cons a as =>
    match as with
    | .nil => pr a
    | .cons _ _ => pr a ++ (.comma :: prArgs as)
end

mutual
/-- every `calculation` node has at least one argument (what the parser and `min`/`max`/`clamp`
    produce; `name()` is not a calculation). -/
def CalcArg.wf : CalcArg → Bool
  | .calculation _ args => args.nonEmpty && args.wf
  | .operation l _ r => l.wf && r.wf
  | _ => true
def CalcArgs.wf : CalcArgs → Bool
  | .nil => true
  | .cons a as => a.wf && as.wf
def CalcArgs.nonEmpty : CalcArgs → Bool
  | .nil => false
  | .cons _ _ => true
end

/-! ### reading the printed form back: the CSS `calc()` grammar
    (the same productions as `parse_calculation_sum/product/value`, parse/value.rs:1518–1675).
    Fuel = recursion depth budget; `parseToks` supplies `4·length + 3`. -/

mutual
def pAtom : Nat → List Tok → Option (CalcArg × List Tok)
  | 0, _ => Option.none
  | f + 1, ts =>
    match ts with
    | .num n u :: ts => some (.number n u, ts)
    | .atom id :: ts => some (.str id false, ts)
    | .lp :: ts =>
      match pSum f ts with
      | some (e, .rp :: ts') => some (e, ts')
      | _ => Option.none
    | .fn name :: ts =>
      match pArgs f ts with
      | some (as, .rp :: ts') => some (.calculation name as, ts')
      | _ => Option.none
    | _ => Option.none
def pProdLoop : Nat → CalcArg → List Tok → Option (CalcArg × List Tok)
  | 0, _, _ => Option.none
  | f + 1, acc, ts =>
    match ts with
    | .op .mul :: ts' =>
      match pAtom f ts' with
      | some (b, ts'') => pProdLoop f (.operation acc .mul b) ts''
      | Option.none => Option.none
    | .op .div :: ts' =>
      match pAtom f ts' with
      | some (b, ts'') => pProdLoop f (.operation acc .div b) ts''
      | Option.none => Option.none
    | _ => some (acc, ts)
def pProd : Nat → List Tok → Option (CalcArg × List Tok)
  | 0, _ => Option.none
  | f + 1, ts =>
    match pAtom f ts with
    | some (a, ts') => pProdLoop f a ts'
    | Option.none => Option.none
def pSumLoop : Nat → CalcArg → List Tok → Option (CalcArg × List Tok)
  | 0, _, _ => Option.none
  | f + 1, acc, ts =>
    match ts with
    | .op .plus :: ts' =>
      match pProd f ts' with
      | some (b, ts'') => pSumLoop f (.operation acc .plus b) ts''
      | Option.none => Option.none
    | .op .minus :: ts' =>
      match pProd f ts' with
      | some (b, ts'') => pSumLoop f (.operation acc .minus b) ts''
      | Option.none => Option.none
    | _ => some (acc, ts)
def pSum : Nat → List Tok → Option (CalcArg × List Tok)
  | 0, _ => Option.none
  | f + 1, ts =>
    match pProd f ts with
    | some (a, ts') => pSumLoop f a ts'
    | Option.none => Option.none
def pArgs : Nat → List Tok → Option (CalcArgs × List Tok)
  | 0, _ => Option.none
  | f + 1, ts =>
    match pSum f ts with
    | some (a, .comma :: ts') =>
      match pArgs f ts' with
      | some (as, ts'') => some (.cons a as, ts'')
      | Option.none => Option.none
    | some (a, ts') => some (.cons a .nil, ts')
    | Option.none => Option.none
end

def parseFuel (ts : List Tok) : Nat := 4 * ts.length + 3

/-- Read one printed calculation argument (the whole token list must be consumed). -/
def parseToks (ts : List Tok) : Option CalcArg :=
  match pSum (parseFuel ts) ts with
  | some (a, []) => some a
  | _ => Option.none

/-! ### driver-side helpers (not theorem-facing): approximate comparison for f64-printed numbers -/

def rabs (x : Rat) : Rat := if x < 0 then -x else x

/-- Bound on |printed − exact| for one number written with `{:.10}` after f64 arithmetic:
    half a unit in the 10th decimal plus relative f64 slack. -/
def numErr (n : Rat) : Rat := 6 / 100000000000 + rabs n / 1000000000000

def Env.unit : Env := ⟨1, 1, 1, 1, 1, 1, 1, 1, 1, fun _ => some 1⟩

mutual
/-- value and first-order error bound of an expression whose numbers carry `numErr`. -/
def evalErr (ρ : Env) : CalcArg → Option (Rat × Rat)
  | .number n u => some (n * unitVal ρ u, numErr n * rabs (unitVal ρ u))
  | .str id _ => (ρ.atom id).map (·, 0)
  | .interp id => (ρ.atom id).map (·, 0)
  | .operation l op r =>
    match evalErr ρ l, evalErr ρ r with
    | some (x, ex), some (y, ey) =>
      match op with
      | .plus => some (x + y, ex + ey)
      | .minus => some (x - y, ex + ey)
      | .mul => some (x * y, rabs x * ey + rabs y * ex + ex * ey)
      | .div => if rabs y ≤ 2 * ey then Option.none
                else some (x / y, (ex + rabs (x / y) * ey) / (rabs y - ey))
    | _, _ => Option.none
  | .calculation name args =>
    match evalErrArgs ρ args with
    | some (vs, e) => (evalFn name vs).map (·, e)
    | Option.none => Option.none
def evalErrArgs (ρ : Env) : CalcArgs → Option (List Rat × Rat)
  | .nil => some ([], 0)
  | .cons a as =>
    match evalErr ρ a, evalErrArgs ρ as with
    | some (x, e), some (xs, es) => some (x :: xs, e + es)
    | _, _ => Option.none
end

mutual
def approxEq : CalcArg → CalcArg → Bool
  | .number n u, .number m v =>
    (u == v && rabs (n - m) ≤ numErr n) ||
    (compatible u v && !u.isComplex && !v.isComplex &&
      rabs (n * unitVal Env.unit u - m * unitVal Env.unit v) ≤ numErr n * unitVal Env.unit u + numErr m * unitVal Env.unit v)
  | .str i _, .str j _ => i == j
  | .str i _, .interp j => i == j
  | .interp i, .str j _ => i == j
  | .interp i, .interp j => i == j
  | .operation l op r, .operation l' op' r' => op == op' && approxEq l l' && approxEq r r'
  | .calculation nm as, .calculation nm' as' => nm == nm' && approxEqArgs as as'
  | _, _ => false
def approxEqArgs : CalcArgs → CalcArgs → Bool
  | .nil, .nil => true
  | .cons a as, .cons b bs => approxEq a b && approxEqArgs as bs
  | _, _ => false
end

/-! ### driver entry points -/
open Grass.Proto

def buOfStr : String → Option BU
  | "px" => some .px | "in" => some .inch | "cm" => some .cm | "mm" => some .mm | "pt" => some .pt
  | "em" => some .em | "rem" => some .rem | "%" => some .pct | "vw" => some .vw
  | "deg" => some .deg | "turn" => some .turn | "s" => some .s | "ms" => some .ms
  | "q" => some .q | "pc" => some .pc | "grad" => some .grad | "rad" => some .rad
  | "hz" => some .hz | "khz" => some .khz | "dpi" => some .dpi | "dpcm" => some .dpcm | "dppx" => some .dppx
  | _ => Option.none

def buStr : BU → String
  | .px => "px" | .inch => "in" | .cm => "cm" | .mm => "mm" | .pt => "pt"
  | .em => "em" | .rem => "rem" | .pct => "%" | .vw => "vw"
  | .deg => "deg" | .turn => "turn" | .s => "s" | .ms => "ms"
  | .q => "q" | .pc => "pc" | .grad => "grad" | .rad => "rad"
  | .hz => "hz" | .khz => "khz" | .dpi => "dpi" | .dpcm => "dpcm" | .dppx => "dppx"

def busOfStr (s : String) : Option (List BU) :=
  if s == "1" || s == "" then some [] else (s.splitOn "*").mapM buOfStr

/-- `-` | `px` | `px*em/s*s` | `1/s` -/
def unitOfStr (s : String) : Option CUnit :=
  if s == "-" then some CUnit.none else
  match s.splitOn "/" with
  | [n] => (busOfStr n).map (⟨·, []⟩)
  | [n, d] => do let n ← busOfStr n; let d ← busOfStr d; some ⟨n, d⟩
  | _ => Option.none

def busStr (l : List BU) : String := if l.isEmpty then "1" else "*".intercalate (l.map buStr)

def unitStr (u : CUnit) : String :=
  if u.isNone then "-" else if u.denom.isEmpty then busStr u.numer else busStr u.numer ++ "/" ++ busStr u.denom

/-- `p/q` or `p` -/
def ratOfStr (s : String) : Option Rat :=
  match s.splitOn "/" with
  | [p] => p.toInt?.map (fun i => (i : Rat))
  | [p, q] => do
    let p ← p.toInt?; let q ← q.toNat?
    if q = 0 then Option.none else some (mkRat p q)
  | _ => Option.none

def ratStr (r : Rat) : String := if r.den = 1 then toString r.num else s!"{r.num}/{r.den}"

def opOfStr : String → Option Op
  | "+" => some .plus | "-" => some .minus | "*" => some .mul | "/" => some .div | _ => Option.none
def opStr : Op → String
  | .plus => "+" | .minus => "-" | .mul => "*" | .div => "/"
def nameOfStr : String → Option CName
  | "calc" => some .calc | "min" => some .min | "max" => some .max | "clamp" => some .clamp | _ => Option.none
def nameStr : CName → String
  | .calc => "calc" | .min => "min" | .max => "max" | .clamp => "clamp"

mutual
/-- prefix tree syntax: `n <rat> <unit>` | `s <id> <0|1>` | `i <id>` | `o <op> L R` | `c <name> <k> A1…Ak` -/
def readTree : Nat → List String → Option (CalcArg × List String)
  | 0, _ => Option.none
  | f + 1, ts =>
    match ts with
    | "n" :: r :: u :: rest =>
      match ratOfStr r, unitOfStr u with
      | some r, some u => some (.number r u, rest)
      | _, _ => Option.none
    | "s" :: id :: p :: rest =>
      match id.toNat?, parseBool? p with
      | some id, some p => some (.str id p, rest)
      | _, _ => Option.none
    | "i" :: id :: rest => id.toNat?.map (fun id => (.interp id, rest))
    | "o" :: op :: rest =>
      match opOfStr op with
      | some op =>
        match readTree f rest with
        | some (l, rest) =>
          match readTree f rest with
          | some (r, rest) => some (.operation l op r, rest)
          | Option.none => Option.none
        | Option.none => Option.none
      | Option.none => Option.none
    | "c" :: nm :: k :: rest =>
      match nameOfStr nm, k.toNat? with
      | some nm, some k =>
        match readTrees f k rest with
        | some (as, rest) => some (.calculation nm as, rest)
        | Option.none => Option.none
      | _, _ => Option.none
    | _ => Option.none
def readTrees : Nat → Nat → List String → Option (CalcArgs × List String)
  | 0, _, _ => Option.none
  | _ + 1, 0, ts => some (.nil, ts)
  | f + 1, k + 1, ts =>
    match readTree f ts with
    | some (a, rest) =>
      match readTrees f k rest with
      | some (as, rest) => some (.cons a as, rest)
      | Option.none => Option.none
    | Option.none => Option.none
end

mutual
def treeStr : CalcArg → String
  | .number n u => s!"n {ratStr n} {unitStr u}"
  | .str id p => s!"s {id} {boolStr p}"
  | .interp id => s!"i {id}"
  | .operation l op r => s!"o {opStr op} {treeStr l} {treeStr r}"
  | .calculation nm as => s!"c {nameStr nm} {(CalcArgs.toList as).length}{treesStr as}"
def treesStr : CalcArgs → String
  | .nil => ""
  | .cons a as => " " ++ treeStr a ++ treesStr as
end

/-- `N:<rat>:<unit>` | `A:<id>` | `+ - * / ( ) ,` | `F:<name>` -/
def tokOfStr (s : String) : Option Tok :=
  match s with
  | "+" => some (.op .plus) | "-" => some (.op .minus) | "*" => some (.op .mul) | "/" => some (.op .div)
  | "(" => some .lp | ")" => some .rp | "," => some .comma
  | _ =>
    match s.splitOn ":" with
    | ["N", r, u] => do let r ← ratOfStr r; let u ← unitOfStr u; some (.num r u)
    | ["A", id] => id.toNat?.map .atom
    | ["F", nm] => (nameOfStr nm).map .fn
    | _ => Option.none

def tokStr : Tok → String
  | .num n u => s!"N:{ratStr n}:{unitStr u}"
  | .atom id => s!"A:{id}"
  | .op o => opStr o
  | .lp => "(" | .rp => ")" | .comma => ","
  | .fn nm => s!"F:{nameStr nm}"

def errStr : Err → String
  | .incompatible => "incompatible" | .complexInCalc => "complex-in-calc" | .badLength => "bad-length"
  | .invalidCssValue => "invalid-css-value" | .nonFinite => "non-finite"

def outStr : Res Out → String
  | .ok o => s!"ok {boolStr o.coerced} {treeStr o.arg}"
  | .err e => s!"err {errStr e}"
  | .panic => "panic"

def cfgOfStr : String → Option Cfg
  | "now" => some Cfg.now | "spec" => some Cfg.spec | "old" => some Cfg.asFound | "d1" => some Cfg.asFoundD1
  | _ => Option.none

/-- `px deg s em rem pct vw hz dppx a0 a1 …` -/
def envOfStrs (ss : List String) : Option Env :=
  match ss.mapM ratOfStr with
  | some (px :: deg :: s :: em :: rem :: pct :: vw :: hz :: dppx :: atoms) =>
    some ⟨px, deg, s, em, rem, pct, vw, hz, dppx, fun i => atoms[i]?⟩
  | _ => Option.none

def splitOnTok (sep : String) (ts : List String) : List (List String) :=
  let rec go : List String → List String → List (List String) → List (List String)
    | [], cur, acc => (cur.reverse :: acc).reverse
    | t :: ts, cur, acc => if t == sep then go ts [] (cur.reverse :: acc) else go ts (t :: cur) acc
  go ts [] []

def readWhole (ts : List String) : Option CalcArg :=
  match readTree (ts.length + 1) ts with
  | some (a, []) => some a
  | _ => Option.none

/-- P̂ on one environment, for an output whose numbers were printed with 10 decimals:
    `none` = holds; otherwise the reason. -/
def valueVerdict (ρ : Env) (src out : CalcArg) : Option String :=
  match evalCalc ρ src with
  | Option.none => Option.none                      -- the source denotes nothing here (division by zero)
  | some v =>
    match evalCalc ρ out with
    | Option.none => some "out-undefined"
    | some _ =>
      match evalErr ρ out with
      | Option.none => Option.none                  -- ill-conditioned divisor: no verdict
      | some (w, e) => if rabs (v - w) ≤ e then Option.none else some "differs"

def firstFail (envs : List Env) (src out : CalcArg) : Option (Nat × String) :=
  let rec go : List Env → Nat → Option (Nat × String)
    | [], _ => Option.none
    | ρ :: ρs, i => match valueVerdict ρ src out with
      | some why => some (i, why)
      | Option.none => go ρs (i + 1)
  go envs 0

def definedCount (envs : List Env) (src : CalcArg) : Nat :=
  (envs.filter (fun ρ => (evalCalc ρ src).isSome)).length

def resEqApprox (a b : Res Out) : Bool :=
  match a, b with
  | .ok x, .ok y => x.coerced == y.coerced && approxEq x.arg y.arg
  | .err e, .err e' => e == e'
  | .panic, .panic => true
  | _, _ => false

def handle : List String → String
  | "simp" :: cfg :: tree =>
    match cfgOfStr cfg, readWhole tree with
    | some cfg, some t => outStr (compile cfg t)
    | _, _ => "bad-op"
  | "visit" :: cfg :: tree =>
    -- evaluation only (a variable declaration: the value is not serialized)
    match cfgOfStr cfg, readWhole tree with
    | some cfg, some t => outStr (visitValue cfg false t)
    | _, _ => "bad-op"
  | "nf" :: cfg :: tree =>
    match cfgOfStr cfg, readWhole tree with
    | some cfg, some t =>
      match nonFiniteTop cfg t with
      | some (k, u, lit) => s!"ok {nfText k} {unitStr u} {boolStr lit}"
      | Option.none => "none"
    | _, _ => "bad-op"
  | "print" :: tree =>
    match readWhole tree with
    | some t => "ok " ++ " ".intercalate ((pr t).map tokStr)
    | Option.none => "bad-op"
  | "parse" :: toks =>
    match toks.mapM tokOfStr with
    | some ts => match parseToks ts with
      | some a => "ok " ++ treeStr a
      | Option.none => "reject"
    | Option.none => "bad-op"
  | "table" :: to :: frm :: [] =>
    match buOfStr to, buOfStr frm with
    | some t, some f => match table t f with
      | some r => "ok " ++ ratStr r
      | Option.none => "ok none"
    | _, _ => "bad-op"
  | "check" :: rest =>
    -- check <env> | <env> … ; <source tree> ; <tokens of the implementation's output>
    match splitOnTok ";" rest with
    | [envs, tree, toks] =>
      match (splitOnTok "|" envs).mapM envOfStrs, readWhole tree, toks.mapM tokOfStr with
      | some envs, some src, some toks =>
        let model := compile Cfg.now src
        let spec := compile Cfg.spec src
        let specSame := resEqApprox model spec
        let cssSame := resEqApprox model (compile ⟨true, true, false⟩ src)
        let strictR := compile ⟨true, false, true⟩ src
        let strictS := (if resEqApprox model strictR then "same" else match strictR with
          | .ok _ => "ok"
          | .err e => errStr e
          | .panic => "panic")
        let modelS := outStr model
        match parseToks toks with
        | Option.none => s!"ok impl-unparsed specsame={boolStr specSame} model= {modelS}"
        | some it =>
          let tie := match model with
            | .ok mo => match parseToks (pr mo.arg) with
              | some mt => approxEq mt it
              | Option.none => false
            | _ => false
          let reprint := match parseToks (pr src) with
            | some s' => (envs.all fun ρ => evalCalc ρ s' == evalCalc ρ src)
            | Option.none => false
          let val := match firstFail envs src it with
            | Option.none => "holds"
            | some (i, why) => s!"fails:{i}:{why}"
          let specS := match spec with
            | .ok _ => "ok"
            | .err e => errStr e
            | .panic => "panic"
          s!"ok plain={boolStr (plainSome src)} tie={boolStr tie} val={val} defined={definedCount envs src} reprint={boolStr reprint} specsame={boolStr specSame} spec={specS} css={boolStr cssSame} strict={strictS} model= {modelS} impl= {treeStr it}"
      | _, _, _ => "bad-op"
    | _ => "bad-op"
  | _ => "bad-op"

end Grass.Calc
