import Grass.Proto
/-
  C16 core — calc()/min()/max()/clamp() simplification.

  Mirrors, function by function,
    crates/compiler/src/value/calculation.rs   (`CalculationArg`, `SassCalculation::{calc,min,max,clamp,
                                                 verify_length,verify_compatible_numbers,operate_internal,simplify}`)
    crates/compiler/src/value/sass_number.rs   (`has_compatible_units`, `is_comparable_to`,
                                                 `has_possibly_compatible_units`, `multiply_units`, Add/Sub/Mul/Div)
    crates/compiler/src/value/number.rs:158    (`Number::convert`)
    crates/compiler/src/unit/mod.rs:170        (`Unit::comparable`, `kind`), unit/conversion.rs (table, known compatibilities)
    crates/compiler/src/evaluate/visitor.rs:2584,2653 (`visit_calculation_value`, `visit_calculation_expr`)
    crates/compiler/src/serializer.rs:318,335  (`visit_calculation`, `write_calculation_arg`)
    crates/compiler/src/parse/value.rs:1588,1623,1677 (the grammar the printed form is read back with)

  Numbers are exact rationals (DESIGN §6); the units are the closed set
  px in cm mm pt | em rem | vw | % | deg turn | s ms | unitless, plus products/quotients of them.
  A panic of the real code (`HashMap` index in `Number::convert`, the `debug_assert!` before it) is the
  explicit outcome `Res.panic`; the model never totalises it away.
-/
namespace Grass.Calc

/-! ### units -/

inductive BU where
  | px | inch | cm | mm | pt | em | rem | pct | vw | deg | turn | s | ms
  deriving DecidableEq, Repr, Inhabited

/-- `UnitKind` (unit/mod.rs:122). -/
inductive Kind where
  | absolute | fontRel | viewRel | angle | time | other | none
  deriving DecidableEq, Repr

/-- `Unit::kind` (unit/mod.rs:196) on base units. -/
def BU.kind : BU → Kind
  | .px | .inch | .cm | .mm | .pt => .absolute
  | .em | .rem => .fontRel
  | .vw => .viewRel
  | .deg | .turn => .angle
  | .s | .ms => .time
  | .pct => .other

/-- A `Unit` value: `Unit::None` = `⟨[],[]⟩`, a plain unit = `⟨[u],[]⟩`, everything else is
    `Unit::Complex` (`Unit::new`, unit/mod.rs:135, never builds `Complex` for the first two shapes,
    so structural equality here is Rust's derived `PartialEq`). -/
structure CUnit where
  numer : List BU
  denom : List BU
  deriving DecidableEq, Repr, Inhabited

def CUnit.none : CUnit := ⟨[], []⟩
def CUnit.single (u : BU) : CUnit := ⟨[u], []⟩

def CUnit.isNone (u : CUnit) : Bool := u.numer.isEmpty && u.denom.isEmpty

/-- `Unit::is_complex` (unit/mod.rs:158). -/
def CUnit.isComplex (u : CUnit) : Bool :=
  match u with
  | ⟨[], []⟩ => false
  | ⟨[_], []⟩ => false
  | _ => true

def CUnit.kind (u : CUnit) : Kind :=
  match u with
  | ⟨[], []⟩ => .none
  | ⟨[b], []⟩ => b.kind
  | _ => .other

/-- `Unit::invert` (unit/mod.rs:152). -/
def CUnit.invert (u : CUnit) : CUnit := ⟨u.denom, u.numer⟩

/-- `Unit::comparable` (unit/mod.rs:162). -/
def comparable (a b : CUnit) : Bool :=
  if b.isNone then true else
  match a.kind with
  | .fontRel | .viewRel | .other => a == b
  | .none => true
  | k => b.kind == k

/-- `Unit::comparable` on two base units (as used by `are_any_convertible`, unit/mod.rs:110). -/
def BU.comparable (a b : BU) : Bool :=
  match a.kind with
  | .fontRel | .viewRel | .other => a == b
  | k => b.kind == k

/-- `SassNumber::has_compatible_units` (sass_number.rs:46): unitless only with unitless. -/
def compatible (a b : CUnit) : Bool :=
  if (a.isNone || b.isNone) && a != b then false else comparable a b

/-- `known_compatibilities_by_unit` (unit/conversion.rs:186): index of the set, if any. -/
def knownCompat (u : CUnit) : Option Nat :=
  match u with
  | ⟨[b], []⟩ =>
    match b with
    | .px | .inch | .cm | .mm | .pt | .em | .rem | .vw => some 0
    | .deg | .turn => some 1
    | .s | .ms => some 2
    | .pct => Option.none
  | _ => Option.none

/-- `SassNumber::has_possibly_compatible_units` (sass_number.rs:223).
    `strict = false` is the code as it stands.  `strict = true` adds the rule of the reference
    implementation that a unitless number is not compatible with a number that has a unit
    (dart-sass compares the numerator-unit counts first); used for the specified variant. -/
def possiblyCompatible (strict : Bool) (a b : CUnit) : Bool :=
  if a.isComplex || b.isComplex then false else
  if strict && (a.isNone != b.isNone) then false else
  match knownCompat a with
  | Option.none => true
  | some g => knownCompat b == some g || (knownCompat b).isNone

/-- `UNIT_CONVERSION_TABLE[to].get(from)` (unit/conversion.rs:15): the factor that turns a value
    in `from` into a value in `to`.  Written entry by entry from the Rust table. -/
def table (to frm : BU) : Option Rat :=
  match to, frm with
  | .inch, .inch => some 1
  | .inch, .cm => some (1 / (254/100))
  | .inch, .mm => some (1 / (254/10))
  | .inch, .pt => some (1 / 72)
  | .inch, .px => some (1 / 96)
  | .cm, .inch => some (254/100)
  | .cm, .cm => some 1
  | .cm, .mm => some (1 / 10)
  | .cm, .pt => some ((254/100) / 72)
  | .cm, .px => some ((254/100) / 96)
  | .mm, .inch => some (254/10)
  | .mm, .cm => some 10
  | .mm, .mm => some 1
  | .mm, .pt => some ((254/10) / 72)
  | .mm, .px => some ((254/10) / 96)
  | .pt, .inch => some 72
  | .pt, .cm => some (72 / (254/100))
  | .pt, .mm => some (72 / (254/10))
  | .pt, .pt => some 1
  | .pt, .px => some (3 / 4)
  | .px, .inch => some 96
  | .px, .cm => some (96 / (254/100))
  | .px, .mm => some (96 / (254/10))
  | .px, .pt => some (4 / 3)
  | .px, .px => some 1
  | .deg, .deg => some 1
  | .deg, .turn => some 360
  | .turn, .deg => some (1 / 360)
  | .turn, .turn => some 1
  | .s, .s => some 1
  | .s, .ms => some (1 / 1000)
  | .ms, .s => some 1000
  | .ms, .ms => some 1
  | _, _ => Option.none

/-- `conversion_factor(from, to)` (sass_number.rs:24). -/
def convFactor (frm to : BU) : Option Rat :=
  if frm = to then some 1 else table to frm

/-- `Number::convert(self, from, to)` (number.rs:158).  `none` = the real code panics: the
    `debug_assert!(from.comparable(to))` fails, or `UNIT_CONVERSION_TABLE[to][from]` has no entry. -/
def convert (x : Rat) (frm to : CUnit) : Option Rat :=
  if frm.isNone || to.isNone || frm == to then some x else
  if !comparable frm to then Option.none else
  match to, frm with
  | ⟨[t], []⟩, ⟨[f], []⟩ => (table t f).map (x * ·)
  | _, _ => Option.none

/-! ### outcomes -/

inductive Err where
  | incompatible        -- "{a} and {b} are incompatible."
  | complexInCalc       -- "Number {n} isn't compatible with CSS calculations."
  | badLength           -- "3 arguments required, but only {n} {was|were} passed."
  | invalidCssValue     -- "{n} isn't a valid CSS value." (serializer.rs:551)
  | nonFinite           -- division by zero: the real code goes on with ±Infinity/NaN; the model stops
  deriving DecidableEq, Repr

inductive Res (α : Type) where
  | ok (a : α)
  | err (e : Err)
  | panic
  deriving Repr

def Res.bind {α β : Type} (r : Res α) (f : α → Res β) : Res β :=
  match r with
  | .ok a => f a
  | .err e => .err e
  | .panic => .panic

/-! ### numbers with units (`SassNumber`) -/

structure Num where
  n : Rat
  u : CUnit
  deriving DecidableEq, Repr, Inhabited

/-- `impl Add for SassNumber` (sass_number.rs:262). -/
def numAdd (a b : Num) : Res Num :=
  if a.u == b.u then .ok ⟨a.n + b.n, a.u⟩
  else if a.u.isNone then .ok ⟨a.n + b.n, b.u⟩
  else if b.u.isNone then .ok ⟨a.n + b.n, a.u⟩
  else match convert b.n b.u a.u with
    | some c => .ok ⟨a.n + c, a.u⟩
    | Option.none => .panic

/-- `impl Sub for SassNumber` (sass_number.rs:294). -/
def numSub (a b : Num) : Res Num :=
  if a.u == b.u then .ok ⟨a.n - b.n, a.u⟩
  else if a.u.isNone then .ok ⟨a.n - b.n, b.u⟩
  else if b.u.isNone then .ok ⟨a.n - b.n, a.u⟩
  else match convert b.n b.u a.u with
    | some c => .ok ⟨a.n - c, a.u⟩
    | Option.none => .panic

/-- `are_any_convertible` (unit/mod.rs:110). -/
def anyConvertible (xs ys : List BU) : Bool := xs.any (fun x => ys.any (fun y => x.comparable y))

/-- One `retain` pass of `multiply_units` (sass_number.rs:95): remove the first denominator unit
    that converts to `numer`, returning the factor. -/
def removeFirstConv (numer : BU) : List BU → Option (Rat × List BU)
  | [] => Option.none
  | d :: ds =>
    match convFactor d numer with
    | some f => some (f, ds)
    | Option.none =>
      match removeFirstConv numer ds with
      | some (f, r) => some (f, d :: r)
      | Option.none => Option.none

/-- The `for numer in …` loop of `multiply_units`: (value, kept numerators, remaining denominators). -/
def cancelLoop : List BU → List BU → Rat → Rat × List BU × List BU
  | [], ds, x => (x, [], ds)
  | n :: ns, ds, x =>
    match removeFirstConv n ds with
    | some (f, ds') => cancelLoop ns ds' (x / f)
    | Option.none =>
      match cancelLoop ns ds x with
      | (x', kept, ds'') => (x', n :: kept, ds'')

/-- `SassNumber::multiply_units` (sass_number.rs:55). -/
def multiplyUnits (su : CUnit) (num : Rat) (ou : CUnit) : Num :=
  let nu := su.numer; let du := su.denom; let on := ou.numer; let od := ou.denom
  if nu.isEmpty && od.isEmpty && !anyConvertible du on then ⟨num, ⟨on, du⟩⟩
  else if nu.isEmpty && du.isEmpty then ⟨num, ⟨on, od⟩⟩
  else if !nu.isEmpty && on.isEmpty && (od.isEmpty || (du.isEmpty && !anyConvertible nu od)) then
    ⟨num, ⟨nu, od⟩⟩
  else
    match cancelLoop nu od num with
    | (x1, kept1, od') =>
      match cancelLoop on du x1 with
      | (x2, kept2, du') => ⟨x2, ⟨kept1 ++ kept2, du' ++ od'⟩⟩

/-- `impl Mul for SassNumber` (sass_number.rs:326). -/
def numMul (a b : Num) : Num :=
  if b.u.isNone then ⟨a.n * b.n, a.u⟩ else multiplyUnits a.u (a.n * b.n) b.u

/-- `impl Div for SassNumber` (sass_number.rs:341).  A zero divisor leaves the finite numbers:
    the real code continues with ±Infinity / NaN and prints `Infinitypx` / `NaN`; the model
    reports `nonFinite` and the theorems are guarded by its absence. -/
def numDiv (a b : Num) : Res Num :=
  if b.n = 0 then .err .nonFinite
  else if b.u.isNone then .ok ⟨a.n / b.n, a.u⟩
  else .ok (multiplyUnits a.u (a.n / b.n) b.u.invert)

/-! ### calculation trees (`CalculationArg`, calculation.rs:16) -/

inductive Op where
  | plus | minus | mul | div
  deriving DecidableEq, Repr, Inhabited

inductive CName where
  | calc | min | max | clamp
  deriving DecidableEq, Repr, Inhabited

/-- `CalculationName::in_min_or_max` (calculation.rs:60). -/
def CName.inMinMax : CName → Bool
  | .min | .max => true
  | _ => false

/-- `BinaryOp::precedence` (common.rs:32) for the four operators. -/
def Op.prec : Op → Nat
  | .plus | .minus => 5
  | .mul | .div => 6

mutual
/-- `CalculationArg`.  `str id paren` is `CalculationArg::String`: opaque text such as `var(--x)`
    (identified by `id`; `paren` = the text is the parenthesised form `(var(--x))` built at
    visitor.rs:2599).  `interp id` is `CalculationArg::Interpolation`.  The same type is used for the
    source expression (`AstExpr` restricted to calculations: `Paren` is transparent, a variable
    holding a number/calculation/unquoted string is its value). -/
inductive CalcArg where
  | number (n : Rat) (u : CUnit)
  | calculation (name : CName) (args : CalcArgs)
  | str (id : Nat) (paren : Bool)
  | interp (id : Nat)
  | operation (l : CalcArg) (op : Op) (r : CalcArg)
inductive CalcArgs where
  | nil
  | cons (a : CalcArg) (as : CalcArgs)
end

def CalcArgs.toList : CalcArgs → List CalcArg
  | .nil => []
  | .cons a as => a :: as.toList

def CalcArgs.ofList : List CalcArg → CalcArgs
  | [] => .nil
  | a :: as => .cons a (CalcArgs.ofList as)

/-- Switches for the places where the code deviates (or deviated) from the property.
    `Cfg.now` is the code as it stands and is what the correspondence runs against. -/
structure Cfg where
  /-- `true`: `clamp` reduces only under `has_compatible_units` (calculation.rs:195, after the
      `fix:` commit for D1).  `false`: the guard found on the pinned tree, `is_comparable_to`. -/
  clampGuarded : Bool
  /-- `false`: `clamp` as coded (`value <= min → min; value >= max → max; value`).
      `true`: CSS `max(MIN, min(VAL, MAX))` (they differ exactly when `MAX < MIN < VAL`). -/
  clampCss : Bool
  /-- passed to `possiblyCompatible`. -/
  strict : Bool
  deriving Repr

def Cfg.now : Cfg := ⟨true, false, false⟩
def Cfg.spec : Cfg := ⟨true, true, true⟩
def Cfg.asFoundD1 : Cfg := ⟨false, false, false⟩

/-- Result of a simplification step; `coerced` records that a unitless number was combined with a
    number that has a unit inside `min()`/`max()` (Sass's legacy coercion: `is_comparable_to`
    instead of `has_compatible_units`), which is outside CSS semantics. -/
structure Out where
  arg : CalcArg
  coerced : Bool

/-- `SassCalculation::simplify` (calculation.rs:402): `calc(x)` as an argument is `x`.
    (`calc.args.remove(0)` — a `calc` value always has exactly one argument.) -/
def simplify : CalcArg → CalcArg
  | .calculation .calc (.cons a .nil) => a
  | a => a

def isComplexNumber : CalcArg → Bool
  | .number _ u => u.isComplex
  | _ => false

/-- Is some later number not possibly compatible with unit `u`? -/
def incompatWith (strict : Bool) (u : CUnit) : List CalcArg → Bool
  | [] => false
  | .number _ v :: rest => !possiblyCompatible strict u v || incompatWith strict u rest
  | _ :: rest => incompatWith strict u rest

def anyIncompatPair (strict : Bool) : List CalcArg → Bool
  | [] => false
  | .number _ u :: rest => incompatWith strict u rest || anyIncompatPair strict rest
  | _ :: rest => anyIncompatPair strict rest

/-- `verify_compatible_numbers` (calculation.rs:258). -/
def verifyCompatible (strict : Bool) (args : List CalcArg) : Res Unit :=
  if args.any isComplexNumber then .err .complexInCalc
  else if anyIncompatPair strict args then .err .incompatible
  else .ok ()

def isOpaque : CalcArg → Bool
  | .str _ _ | .interp _ => true
  | _ => false

/-- `verify_length` (calculation.rs:229). -/
def verifyLength (args : List CalcArg) (len : Nat) : Res Unit :=
  if args.length == len then .ok ()
  else if args.any isOpaque then .ok ()
  else .err .badLength

def Op.flip : Op → Op
  | .plus => .minus
  | .minus => .plus
  | o => o

/-- `SassCalculation::operate_internal` (calculation.rs:317) with `simplify = true`. -/
def operate (cfg : Cfg) (inMinMax : Bool) (op : Op) (left right : CalcArg) : Res Out :=
  let left := simplify left
  let right := simplify right
  match op with
  | .plus | .minus =>
    let generic : Res Out :=
      (verifyCompatible cfg.strict [left, right]).bind fun _ =>
        match right with
        | .number n u =>
          if n < 0 then .ok ⟨.operation left op.flip (.number (-n) u), false⟩
          else .ok ⟨.operation left op right, false⟩
        | _ => .ok ⟨.operation left op right, false⟩
    match left, right with
    | .number a ua, .number b ub =>
      if (if inMinMax then comparable ua ub else compatible ua ub) then
        (if op = .plus then numAdd ⟨a, ua⟩ ⟨b, ub⟩ else numSub ⟨a, ua⟩ ⟨b, ub⟩).bind fun r =>
          .ok ⟨.number r.n r.u, !compatible ua ub⟩
      else generic
    | _, _ => generic
  | .mul | .div =>
    match left, right with
    | .number a ua, .number b ub =>
      if op = .mul then
        let r := numMul ⟨a, ua⟩ ⟨b, ub⟩
        .ok ⟨.number r.n r.u, false⟩
      else (numDiv ⟨a, ua⟩ ⟨b, ub⟩).bind fun r => .ok ⟨.number r.n r.u, false⟩
    | _, _ => .ok ⟨.operation left op right, false⟩

/-- `SassCalculation::calc` (calculation.rs:76). -/
def calcFn (arg : CalcArg) : CalcArg :=
  match simplify arg with
  | .number n u => .number n u
  | .calculation nm as => .calculation nm as
  | a => .calculation .calc (.cons a .nil)

/-- The loop of `SassCalculation::min` / `max` (calculation.rs:94, :138).
    Result: the surviving extremum (`none` = `break` with `minimum = None`) and the coercion flag. -/
def extremumLoop (isMax : Bool) : Option Num → List CalcArg → Res (Option Num × Bool)
  | m, [] => .ok (m, false)
  | Option.none, .number n u :: rest => extremumLoop isMax (some ⟨n, u⟩) rest
  | some m, .number n u :: rest =>
    if !comparable m.u u then .ok (Option.none, false)
    else match convert n u m.u with
      | Option.none => .panic
      | some c =>
        (extremumLoop isMax (if (if isMax then m.n < c else m.n > c) then some ⟨n, u⟩ else some m) rest).bind
          fun (r, co) => .ok (r, co || !compatible m.u u)
  | _, _ :: _ => .ok (Option.none, false)

/-- `SassCalculation::min` / `max` (calculation.rs:88, :130). -/
def extremumFn (cfg : Cfg) (isMax : Bool) (args : List CalcArg) : Res Out :=
  let args := args.map simplify
  (extremumLoop isMax Option.none args).bind fun (m, co) =>
    match m with
    | some m => .ok ⟨.number m.n m.u, co⟩
    | Option.none =>
      (verifyCompatible cfg.strict args).bind fun _ =>
        .ok ⟨.calculation (if isMax then .max else .min) (CalcArgs.ofList args), false⟩

/-- The reducing branch of `SassCalculation::clamp` (calculation.rs:189–206). -/
def clampReduce (cfg : Cfg) (mn v mx : Num) : Res Num :=
  match convert mn.n mn.u v.u, convert mx.n mx.u v.u with
  | some mn', some mx' =>
    if v.n ≤ mn' then .ok mn
    else if cfg.clampCss && mx' ≤ mn' then .ok mn
    else if v.n ≥ mx' then .ok mx
    else .ok v
  | _, _ => .panic

/-- `SassCalculation::clamp` (calculation.rs:174). -/
def clampFn (cfg : Cfg) (args : List CalcArg) : Res Out :=
  let args := args.map simplify
  let generic : Res Out :=
    (verifyLength args 3).bind fun _ =>
      (verifyCompatible cfg.strict args).bind fun _ =>
        .ok ⟨.calculation .clamp (CalcArgs.ofList args), false⟩
  match args with
  | [.number a ua, .number b ub, .number c uc] =>
    if (if cfg.clampGuarded then compatible ua ub && compatible ua uc
        else comparable ua ub && comparable ua uc) then
      (clampReduce cfg ⟨a, ua⟩ ⟨b, ub⟩ ⟨c, uc⟩).bind fun r =>
        .ok ⟨.number r.n r.u, !(compatible ua ub && compatible ua uc)⟩
    else generic
  | _ => generic

/-- The `match name` of `visit_calculation_expr` (visitor.rs:2670). -/
def applyName (cfg : Cfg) (name : CName) (args : List CalcArg) : Res Out :=
  match name with
  | .calc =>
    match args with
    | [a] => .ok ⟨calcFn a, false⟩
    | _ => .err .badLength          -- the parser admits exactly one argument
  | .min => extremumFn cfg false args
  | .max => extremumFn cfg true args
  | .clamp => clampFn cfg args

mutual
/-- `visit_calculation_value` (visitor.rs:2584). -/
def visitValue (cfg : Cfg) (imm : Bool) : CalcArg → Res Out
  | .number n u => .ok ⟨.number n u, false⟩
  | .str id p => .ok ⟨.str id p, false⟩
  | .interp id => .ok ⟨.interp id, false⟩
  | .operation l op r =>
    match visitValue cfg imm l with
    | .ok l' =>
      match visitValue cfg imm r with
      | .ok r' =>
        match operate cfg imm op l'.arg r'.arg with
        | .ok o => .ok ⟨o.arg, o.coerced || l'.coerced || r'.coerced⟩
        | .err e => .err e
        | .panic => .panic
      | .err e => .err e
      | .panic => .panic
    | .err e => .err e
    | .panic => .panic
  | .calculation name args =>
    match visitArgs cfg name.inMinMax args with
    | .ok (as, co) =>
      match applyName cfg name as with
      | .ok o => .ok ⟨o.arg, o.coerced || co⟩
      | .err e => .err e
      | .panic => .panic
    | .err e => .err e
    | .panic => .panic
/-- The `map` over the arguments in `visit_calculation_expr` (visitor.rs:2659). -/
def visitArgs (cfg : Cfg) (imm : Bool) : CalcArgs → Res (List CalcArg × Bool)
  | .nil => .ok ([], false)
  | .cons a as =>
    match visitValue cfg imm a with
    | .ok a' =>
      match visitArgs cfg imm as with
      | .ok (as', co) => .ok (a'.arg :: as', a'.coerced || co)
      | .err e => .err e
      | .panic => .panic
    | .err e => .err e
    | .panic => .panic
end

mutual
/-- Every number can be written as CSS (`visit_number`, serializer.rs:551). -/
def printable : CalcArg → Bool
  | .number _ u => !u.isComplex
  | .calculation _ args => printableArgs args
  | .str _ _ | .interp _ => true
  | .operation l _ r => printable l && printable r
def printableArgs : CalcArgs → Bool
  | .nil => true
  | .cons a as => printable a && printableArgs as
end

/-- A whole declaration value `name(args…)`: evaluate, then serialize. -/
def compile (cfg : Cfg) (src : CalcArg) : Res Out :=
  (visitValue cfg false src).bind fun o =>
    if printable o.arg then .ok o else .err .invalidCssValue

/-! ### semantics: the quantity an expression denotes -/

/-- A unit environment.  `px`, `deg`, `s` scale the canonical unit of each convertible kind (so an
    identity that holds for every environment is also dimensionally homogeneous: `3` and `3px`
    differ as soon as `px ≠ 1`); `em rem pct vw` are the lengths the relative units resolve to;
    `atom` gives each opaque operand (`var()`, interpolation) a value. -/
structure Env where
  px : Rat
  deg : Rat
  s : Rat
  em : Rat
  rem : Rat
  pct : Rat
  vw : Rat
  atom : Nat → Option Rat

def Env.wf (ρ : Env) : Prop :=
  0 < ρ.px ∧ 0 < ρ.deg ∧ 0 < ρ.s ∧ 0 < ρ.em ∧ 0 < ρ.rem ∧ 0 < ρ.pct ∧ 0 < ρ.vw

def BU.size (ρ : Env) : BU → Rat
  | .px => ρ.px
  | .inch => 96 * ρ.px
  | .cm => 4800 / 127 * ρ.px
  | .mm => 480 / 127 * ρ.px
  | .pt => 4 / 3 * ρ.px
  | .em => ρ.em
  | .rem => ρ.rem
  | .pct => ρ.pct
  | .vw => ρ.vw
  | .deg => ρ.deg
  | .turn => 360 * ρ.deg
  | .s => ρ.s
  | .ms => ρ.s / 1000

def prodSize (ρ : Env) : List BU → Rat
  | [] => 1
  | b :: bs => b.size ρ * prodSize ρ bs

def unitVal (ρ : Env) (u : CUnit) : Rat := prodSize ρ u.numer / prodSize ρ u.denom

def Num.val (ρ : Env) (x : Num) : Rat := x.n * unitVal ρ x.u

def applyOp (op : Op) (x y : Rat) : Option Rat :=
  match op with
  | .plus => some (x + y)
  | .minus => some (x - y)
  | .mul => some (x * y)
  | .div => if y = 0 then Option.none else some (x / y)

def rmin (a b : Rat) : Rat := if b < a then b else a
def rmax (a b : Rat) : Rat := if a < b then b else a

def foldMin : Rat → List Rat → Rat
  | m, [] => m
  | m, x :: xs => foldMin (rmin m x) xs

def foldMax : Rat → List Rat → Rat
  | m, [] => m
  | m, x :: xs => foldMax (rmax m x) xs

/-- CSS Values 4 §10: `calc(x)`, `min`, `max`, `clamp(MIN, VAL, MAX) = max(MIN, min(VAL, MAX))`. -/
def evalFn (name : CName) (vs : List Rat) : Option Rat :=
  match name, vs with
  | .calc, [x] => some x
  | .min, x :: xs => some (foldMin x xs)
  | .max, x :: xs => some (foldMax x xs)
  | .clamp, [a, b, c] => some (rmax a (rmin b c))
  | _, _ => Option.none

mutual
def evalCalc (ρ : Env) : CalcArg → Option Rat
  | .number n u => some (n * unitVal ρ u)
  | .str id _ => ρ.atom id
  | .interp id => ρ.atom id
  | .operation l op r =>
    match evalCalc ρ l, evalCalc ρ r with
    | some x, some y => applyOp op x y
    | _, _ => Option.none
  | .calculation name args =>
    match evalArgs ρ args with
    | some vs => evalFn name vs
    | Option.none => Option.none
def evalArgs (ρ : Env) : CalcArgs → Option (List Rat)
  | .nil => some []
  | .cons a as =>
    match evalCalc ρ a, evalArgs ρ as with
    | some x, some xs => some (x :: xs)
    | _, _ => Option.none
end

end Grass.Calc
