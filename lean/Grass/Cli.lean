import Grass.Proto
/-
  C20 core — the command-line tool (crates/lib/src/main.rs).

  Modelled Rust:
  * main.rs:49-214 `cli()`: the clap (4.x) command.  Non-hidden arguments: `--stdin`,
    `-I / --load-path <p>` (Append), `-s / --style <expanded|compressed>` (short alias `-t`, values
    case-insensitive, default `expanded`), `--no-charset`, `--no-unicode`, `-q / --quiet`
    (all SetTrue), `-v / --version`, `-h / --help`, positionals `[INPUT] [OUTPUT]`
    (`INPUT` required unless `--stdin`).  Hidden arguments (`--indented`, `--update`,
    `--no-error-css`, `--no-source-map`, `--source-map-urls`, `--embed-sources`,
    `--embed-source-map`, `--watch`, `--poll`, `--no-stop-on-error`, `-i / --interactive`,
    `-c / --no-color`, `--verbose`, `--precision`) are parsed and ignored by `main`; the model
    answers `unsupported` for them.
  * main.rs:219-233 flags → `Options`.
  * main.rs:235-246 the output file is opened (create + truncate) BEFORE anything is compiled.
  * main.rs:248-268 `INPUT` present → `from_path`, else `--stdin` → `from_string(stdin)`;
    on `Err(e)`: `eprintln!("{}", e); exit(1)`; on `Ok(css)`: `write_all` to the sink.
  * compiler/src/logger.rs:20-40 `StdLogger` writes `@warn`/`@debug` to stderr while compiling.

  Strings are `String`; only `=`, `++` and emptiness are used on them.
-/
namespace Grass.Cli

inductive Style where
  | expanded | compressed
  deriving DecidableEq, Repr, Inhabited

/-- The values of the supported flags after clap has parsed the command line. -/
structure Flags where
  stdin     : Bool := false
  style     : Style := .expanded
  loadPaths : List String := []
  noCharset : Bool := false
  quiet     : Bool := false
  noUnicode : Bool := false
  deriving DecidableEq, Repr, Inhabited

/-- The fields of `grass::Options` the tool sets (crates/compiler/src/options.rs). -/
structure Options where
  style     : Style
  loadPaths : List String
  quiet     : Bool
  unicodeErrorMessages : Bool
  allowsCharset : Bool
  deriving DecidableEq, Repr, Inhabited

/-- main.rs:219-233.  `negationsApplied = true` is the code as it stands; `false` is the variant
    in which the two negated flags are passed through un-negated (used only for the witness that
    the theorem below is not vacuous). -/
def optionsOf (negationsApplied : Bool) (f : Flags) : Options :=
  { style := f.style
    loadPaths := f.loadPaths
    quiet := f.quiet
    unicodeErrorMessages := if negationsApplied then !f.noUnicode else f.noUnicode
    allowsCharset := if negationsApplied then !f.noCharset else f.noCharset }

/-! ### the command line (clap) -/

structure Parsed where
  flags  : Flags
  input  : Option String       -- positional 1
  output : Option String       -- positional 2
  deriving DecidableEq, Repr, Inhabited

inductive ParseResult where
  | ok (p : Parsed)
  | usage (why : String)         -- clap prints an error and exits with status 2
  | unsupported                  -- outside the model (hidden flags, `--`, combined short flags, --help / --version)
  deriving DecidableEq, Repr, Inhabited

def lower (s : String) : String := String.ofList (s.toList.map Char.toLower)

def styleOfValue (v : String) : Option Style :=
  if lower v == "expanded" then some .expanded
  else if lower v == "compressed" then some .compressed
  else none

/-- One command-line argument as clap classifies it. -/
inductive Tok where
  | stdin | noCharset | noUnicode | quiet
  | style                      -- `--style` / `-s` / `-t`, value in the next argument
  | styleEq (v : String)       -- `--style=v`
  | loadPath                   -- `--load-path` / `-I`, value in the next argument
  | loadPathEq (v : String)    -- `--load-path=v` / `-Iv`
  | word (s : String)          -- anything not starting with `-` (and the lone `-`)
  | unknownLong                -- `--something` clap does not know: usage error
  | outside                    -- hidden flags, `--`, `--help`, `--version`, other short flags: not modelled
  deriving DecidableEq, Repr, Inhabited

def hiddenLongs : List String :=
  ["--indented", "--update", "--no-error-css", "--no-source-map", "--source-map-urls", "--embed-sources",
   "--embed-source-map", "--watch", "--poll", "--no-stop-on-error", "--interactive", "--no-color", "--verbose",
   "--precision", "--help", "--version"]

/-- main.rs:54-213 read as a classifier of single arguments. -/
def tokenize (a : String) : Tok :=
  if a == "--stdin" then .stdin
  else if a == "--no-charset" then .noCharset
  else if a == "--no-unicode" then .noUnicode
  else if a == "--quiet" || a == "-q" then .quiet
  else if a == "--style" || a == "-s" || a == "-t" then .style
  else if a.startsWith "--style=" then .styleEq (a.drop 8).toString
  else if a == "--load-path" || a == "-I" then .loadPath
  else if a.startsWith "--load-path=" then .loadPathEq (a.drop 12).toString
  else if a.startsWith "-I" then .loadPathEq (a.drop 2).toString
  else if a.startsWith "--" then
    if a == "--" || hiddenLongs.any (fun h => a == h || a.startsWith (h ++ "=")) then .outside else .unknownLong
  else if a.startsWith "-" && a.length > 1 then .outside
  else .word a

structure PState where
  flags : Flags := {}
  styleSeen : Bool := false
  positionals : List String := []
  deriving DecidableEq, Repr, Inhabited

def setStyle (st : PState) (v : String) : Except ParseResult PState :=
  if st.styleSeen then .error (.usage "style given twice") else
  match styleOfValue v with
  | some s => .ok { st with flags := { st.flags with style := s }, styleSeen := true }
  | none => .error (.usage "invalid style value")

def addLoadPath (st : PState) (v : String) : PState :=
  { st with flags := { st.flags with loadPaths := st.flags.loadPaths ++ [v] } }

/-- One pass over the arguments (after the program name).  An option that takes a value consumes
    the next argument, which must be a `word` (clap rejects values that look like flags). -/
def parseLoop : List Tok → PState → Except ParseResult PState
  | [], st => .ok st
  | .stdin :: rest, st =>
    if st.flags.stdin then .error (.usage "flag given twice")
    else parseLoop rest { st with flags := { st.flags with stdin := true } }
  | .noCharset :: rest, st =>
    if st.flags.noCharset then .error (.usage "flag given twice")
    else parseLoop rest { st with flags := { st.flags with noCharset := true } }
  | .noUnicode :: rest, st =>
    if st.flags.noUnicode then .error (.usage "flag given twice")
    else parseLoop rest { st with flags := { st.flags with noUnicode := true } }
  | .quiet :: rest, st =>
    if st.flags.quiet then .error (.usage "flag given twice")
    else parseLoop rest { st with flags := { st.flags with quiet := true } }
  | .style :: .word v :: rest, st =>
    match setStyle st v with
    | .ok st' => parseLoop rest st'
    | .error e => .error e
  | .style :: [], _ => .error (.usage "missing value")
  | .style :: _ :: _, _ => .error .unsupported
  | .styleEq v :: rest, st =>
    match setStyle st v with
    | .ok st' => parseLoop rest st'
    | .error e => .error e
  | .loadPath :: .word v :: rest, st => parseLoop rest (addLoadPath st v)
  | .loadPath :: [], _ => .error (.usage "missing value")
  | .loadPath :: _ :: _, _ => .error .unsupported
  | .loadPathEq v :: rest, st => parseLoop rest (addLoadPath st v)
  | .word s :: rest, st => parseLoop rest { st with positionals := st.positionals ++ [s] }
  | .unknownLong :: _, _ => .error (.usage "unexpected argument")
  | .outside :: _, _ => .error .unsupported

/-- Which positional is what (main.rs: `INPUT`/`OUTPUT` arguments, `OUTPUT.conflicts_with("STDIN")`,
    and `let (input, output) = if STDIN { (None, INPUT) } else { (INPUT, OUTPUT) }`).
    `asFound = false`: the code as it stands (fix c1728ad): with `--stdin` the only positional
    allowed is the OUTPUT file, a second one is a usage error.
    `asFound = true`: the variant found on the pinned tree: the first positional is always
    `INPUT`, also with `--stdin` (then stdin is not read at all). -/
def assignAsFound (f : Flags) : List String → ParseResult
  | [] => if f.stdin then .ok ⟨f, none, none⟩ else .usage "INPUT required"
  | [i] => .ok ⟨f, some i, none⟩
  | [i, o] => .ok ⟨f, some i, some o⟩
  | _ :: _ :: _ :: _ => .usage "unexpected argument"

def assignSpecStdin (f : Flags) : List String → ParseResult
  | [] => .ok ⟨f, none, none⟩
  | [o] => .ok ⟨f, none, some o⟩
  | _ :: _ :: _ => .usage "unexpected argument"

def assign (asFound : Bool) (f : Flags) (ps : List String) : ParseResult :=
  if asFound || !f.stdin then assignAsFound f ps else assignSpecStdin f ps

def parseToks (asFound : Bool) (toks : List Tok) : ParseResult :=
  match parseLoop toks {} with
  | .error e => e
  | .ok st => assign asFound st.flags st.positionals

def parseArgv (asFound : Bool) (argv : List String) : ParseResult := parseToks asFound (argv.map tokenize)

/-- The canonical command line the check uses for a set of flags. -/
def renderToks (f : Flags) (positionals : List String) : List Tok :=
  (if f.stdin then [.stdin] else []) ++
  (match f.style with | .expanded => [] | .compressed => [.style, .word "compressed"]) ++
  f.loadPaths.flatMap (fun p => [.loadPath, .word p]) ++
  (if f.noCharset then [.noCharset] else []) ++
  (if f.quiet then [.quiet] else []) ++
  (if f.noUnicode then [.noUnicode] else []) ++
  positionals.map .word

def tokStrs : Tok → List String
  | .stdin => ["--stdin"] | .noCharset => ["--no-charset"] | .noUnicode => ["--no-unicode"] | .quiet => ["--quiet"]
  | .style => ["--style"] | .styleEq v => ["--style=" ++ v] | .loadPath => ["-I"] | .loadPathEq v => ["--load-path=" ++ v]
  | .word s => [s] | .unknownLong => ["--unknown-flag"] | .outside => ["--"]

def renderArgv (f : Flags) (positionals : List String) : List String := (renderToks f positionals).flatMap tokStrs

/-! ### what a run does -/

/-- Where the source comes from: the input file if the command line names one, else stdin. -/
inductive InputKind where
  | file | stdin
  deriving DecidableEq, Repr, Inhabited

def inputKind (p : Parsed) : InputKind := if p.input.isSome then .file else .stdin

inductive OutputKind where
  | stdout
  | file            -- `OUTPUT` given and it can be opened for writing
  | fileUnopenable  -- `OUTPUT` given, `OpenOptions::open` fails (missing directory, is a directory, …)
  deriving DecidableEq, Repr, Inhabited

/-- What the library call returns, with the bytes `StdLogger` wrote to stderr meanwhile. -/
inductive LibResult where
  | ok (css : String) (warnings : String)
  | err (rendered : String) (warnings : String)    -- `rendered` = `format!("{}", e)`
  deriving DecidableEq, Repr, Inhabited

def LibResult.warnings : LibResult → String
  | .ok _ w => w | .err _ w => w

/-- A piece of stderr: exact text, or an operating-system error message (opaque). -/
inductive Seg where
  | text (s : String)
  | osError
  deriving DecidableEq, Repr, Inhabited

structure Outcome where
  exitZero : Bool
  stdout   : String
  stderr   : List Seg
  /-- content of the output file after the run; `none` = the tool did not touch/create it -/
  file     : Option String
  deriving DecidableEq, Repr, Inhabited

/-- main.rs:235-269.  The flags decide nothing here beyond `Options` (they are already inside
    `lib`), which is itself part of the claim. -/
def outcome (_f : Flags) (_i : InputKind) (o : OutputKind) (lib : LibResult) : Outcome :=
  match o with
  | .fileUnopenable =>
    -- `open(path)?` returns before anything is compiled: no warnings, no CSS
    { exitZero := false, stdout := "", stderr := [.osError], file := none }
  | .stdout =>
    match lib with
    | .ok css w => { exitZero := true, stdout := css, stderr := [.text w], file := none }
    | .err r w => { exitZero := false, stdout := "", stderr := [.text w, .text (r ++ "\n")], file := none }
  | .file =>
    match lib with
    | .ok css w => { exitZero := true, stdout := "", stderr := [.text w], file := some css }
    -- the file was created/truncated before compiling and nothing is written to it
    | .err r w => { exitZero := false, stdout := "", stderr := [.text w, .text (r ++ "\n")], file := some "" }

/-- `--stdin` whose bytes are not UTF-8 (main.rs: `stdin().read_to_string(&mut buffer)?` inside the
    argument of `write_all`): `main` returns the I/O error before the library is called — but AFTER
    the output file was opened, so a named output file is left created/empty. -/
def outcomeStdinUnreadable (o : OutputKind) : Outcome :=
  match o with
  | .file => { exitZero := false, stdout := "", stderr := [.osError], file := some "" }
  | _ => { exitZero := false, stdout := "", stderr := [.osError], file := none }

/-- Text segments of stderr joined (an `osError` segment contributes nothing here). -/
def stderrText (o : Outcome) : String :=
  o.stderr.foldl (fun acc s => match s with | .text t => acc ++ t | .osError => acc) ""

/-- P̂: the observed run equals the model's outcome for the library result under `optionsOf flags`. -/
structure Observed where
  exitCode : Nat
  stdout   : String
  stderr   : String
  file     : Option String
  deriving DecidableEq, Repr, Inhabited

def agrees (exp : Outcome) (obs : Observed) : Bool :=
  (exp.exitZero == (obs.exitCode == 0)) &&
  exp.stdout == obs.stdout &&
  exp.file == obs.file &&
  -- an operating-system error is the last thing on stderr, rendered by Rust as `Error: …`
  (if exp.stderr.contains .osError then obs.stderr.startsWith (stderrText exp ++ "Error: ") else stderrText exp == obs.stderr)

/-! ### a sink that cannot take the CSS (full device, closed pipe)

  main.rs:248-271: the CSS is handed to the sink with ONE `write_all(..)?`, then `buf_out.flush()?`
  (since the fix `cea0756`), then `Ok(())`.  A `File` is unbuffered, so a failing write is seen by
  the first `?`.  `Stdout` is a `LineWriter` (buffer 1024 bytes): everything up to the last `\n` is
  written at once, a longer-than-buffer remainder too, but a short remainder with no newline stays
  in the buffer; the explicit flush writes it and reports the error.  On the pinned tree the flush
  was missing: the remainder was written when the process exited, where the error had nowhere to
  go (`flushChecked = false`, kept for the `C20_asFound_…` witnesses). -/

/-- Non-empty CSS without any newline and shorter than stdout's buffer: stays buffered. -/
def unterminatedSmall (css : String) : Bool :=
  css != "" && !css.toList.contains '\n' && css.utf8ByteSize < 1024

/-- `flushChecked = true`: the code as it stands now — `main` flushes the sink and propagates the
    error (`buf_out.flush()?`, main.rs:270).  `false`: the variant found on the pinned tree (no
    flush).  `sinkFails`: every write to the sink fails. -/
def outcomeIO (flushChecked : Bool) (f : Flags) (i : InputKind) (o : OutputKind) (lib : LibResult)
    (sinkFails : Bool) : Outcome :=
  if !sinkFails then outcome f i o lib else
  match o, lib with
  | .fileUnopenable, _ => outcome f i o lib
  -- nothing is written on a library error: as without a failing sink, but the device keeps nothing
  | _, .err r w => { exitZero := false, stdout := "", stderr := [.text w, .text (r ++ "\n")], file := none }
  | .file, .ok css w =>
    if css == "" then { exitZero := true, stdout := "", stderr := [.text w], file := none }
    else { exitZero := false, stdout := "", stderr := [.text w, .osError], file := none }
  | .stdout, .ok css w =>
    if css == "" || (!flushChecked && unterminatedSmall css) then
      -- nothing to write, or (old variant) the write error surfaces only after `main` returned `Ok(())`
      { exitZero := true, stdout := "", stderr := [.text w], file := none }
    else { exitZero := false, stdout := "", stderr := [.text w, .osError], file := none }

/-! ### driver entry points -/
open Grass.Proto

def styleStr : Style → String
  | .expanded => "expanded" | .compressed => "compressed"

def optStr (o : Option String) : String :=
  match o with | none => "none" | some s => "some:" ++ hexEncode s

def optOfStr (s : String) : Option (Option String) :=
  if s == "none" then some none
  else if s.startsWith "some:" then (hexDecode (s.drop 5).toString).map some
  else none

def argvOfTok (s : String) : Option (List String) :=
  if s == "-" then some [] else (s.splitOn ",").mapM hexDecode

def tokOfList (l : List String) : String :=
  if l.isEmpty then "-" else ",".intercalate (l.map hexEncode)

def outputKindOfStr (s : String) : Option OutputKind :=
  if s == "stdout" then some .stdout else if s == "file" then some .file
  else if s == "unopenable" then some .fileUnopenable else none

def segStr : Seg → String
  | .text t => "t:" ++ hexEncode t
  | .osError => "os"

def handleOutcome (ok kind body warn fc sf : String) : String :=
  match outputKindOfStr ok, hexDecode body, hexDecode warn, parseBool? fc, parseBool? sf with
  | some ok, some body, some warn, some fc, some sf =>
    if kind != "ok" && kind != "err" && kind != "ioerr" then "bad-op" else
    let lib := if kind == "ok" then LibResult.ok body warn else LibResult.err body warn
    let r := if kind == "ioerr" then outcomeStdinUnreadable ok else outcomeIO fc {} .file ok lib sf
    s!"ok exit0={boolStr r.exitZero} stdout={hexEncode r.stdout} stderr={",".intercalate (r.stderr.map segStr)} file={optStr r.file}"
  | _, _, _, _, _ => "bad-op"

def handleAgrees (ok kind body warn code so se fl fc sf : String) : String :=
  match outputKindOfStr ok, hexDecode body, hexDecode warn, code.toNat?, hexDecode so, hexDecode se, optOfStr fl, parseBool? fc, parseBool? sf with
  | some ok, some body, some warn, some code, some so, some se, some fl, some fc, some sf =>
    if kind != "ok" && kind != "err" && kind != "ioerr" then "bad-op" else
    let lib := if kind == "ok" then LibResult.ok body warn else LibResult.err body warn
    let exp := if kind == "ioerr" then outcomeStdinUnreadable ok else outcomeIO fc {} .file ok lib sf
    "ok " ++ boolStr (agrees exp ⟨code, so, se, fl⟩)
  | _, _, _, _, _, _, _, _, _ => "bad-op"

def handle : List String → String
  -- parse <argv>: flags, the Options derived from them, input and output positionals
  | ["parse", argv] =>
    match argvOfTok argv with
    | none => "bad-op"
    | some argv =>
      match parseArgv false argv with
      | .unsupported => "unsupported"
      | .usage why => "usage " ++ hexEncode why
      | .ok p =>
        let o := optionsOf true p.flags
        s!"ok stdin={boolStr p.flags.stdin} input={optStr p.input} output={optStr p.output} " ++
        s!"kind={if inputKind p == .file then "file" else "stdin"} " ++
        s!"style={styleStr o.style} quiet={boolStr o.quiet} unicode={boolStr o.unicodeErrorMessages} " ++
        s!"charset={boolStr o.allowsCharset} load_paths={tokOfList o.loadPaths}"
  -- render <stdin> <style> <noCharset> <quiet> <noUnicode> <loadPaths> <positionals>: canonical argv
  | ["render", si, st, nc, q, nu, lps, pos] =>
    match parseBool? si, styleOfValue st, parseBool? nc, parseBool? q, parseBool? nu, argvOfTok lps, argvOfTok pos with
    | some si, some st, some nc, some q, some nu, some lps, some pos =>
      "ok " ++ tokOfList (renderArgv { stdin := si, style := st, loadPaths := lps, noCharset := nc, quiet := q, noUnicode := nu } pos)
    | _, _, _, _, _, _, _ => "bad-op"
  -- outcome <stdout|file|unopenable> <ok|err> <css-or-rendered> <warnings>: expected exit class, stdout, stderr segments, file
  | ["outcome", ok, kind, body, warn] => handleOutcome ok kind body warn "1" "0"
  -- outcome … <flushChecked> <sinkFails>: the same with a sink whose writes fail
  | ["outcome", ok, kind, body, warn, fc, sf] => handleOutcome ok kind body warn fc sf
  -- agrees <stdout|file|unopenable> <ok|err> <body> <warnings> <exit code> <stdout> <stderr> <file>: P̂ on an observed run
  | ["agrees", ok, kind, body, warn, code, so, se, fl] => handleAgrees ok kind body warn code so se fl "1" "0"
  -- agrees … <flushChecked> <sinkFails>
  | ["agrees", ok, kind, body, warn, code, so, se, fl, fc, sf] => handleAgrees ok kind body warn code so se fl fc sf
  | _ => "bad-op"

end Grass.Cli
