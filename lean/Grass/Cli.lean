import Grass.Proto
import Grass.Generated.CliTable
/-
  C20 core — the command-line tool (crates/lib/src/main.rs).

  Modelled Rust:
  * main.rs:49-214 `cli()`: the clap (4.x) command.  Non-hidden arguments: `--stdin`,
    `-I / --load-path <p>` (Append), `-s / --style <expanded|compressed>` (short alias `-t`, values
    case-insensitive, default `expanded`), `--no-charset`, `--no-unicode`, `-q / --quiet`
    (all SetTrue), `-v / --version`, `-h / --help`, positionals `[INPUT] [OUTPUT]`
    (`INPUT` required unless `--stdin`).  Hidden arguments (`--indented`, `--update`,
    `--no-error-css`, `--no-source-map`, `--source-map-urls`, `--embed-sources`,
    `--embed-source-map`, `--watch`, `--poll`, `--no-stop-on-error`, `-i / --interactive`,
    `-c / --no-color`, `--verbose`, `--precision`) are parsed and ignored by `main`; the model
    answers `unsupported` for them.
  * main.rs:219-233 flags → `Options`.
  * main.rs:235-246 the output file is opened (create + truncate) BEFORE anything is compiled.
  * main.rs:248-268 `INPUT` present → `from_path`, else `--stdin` → `from_string(stdin)`;
    on `Err(e)`: `eprintln!("{}", e); exit(1)`; on `Ok(css)`: `write_all` to the sink.
  * compiler/src/logger.rs:20-40 `StdLogger` writes `@warn`/`@debug` to stderr while compiling.

  Round 3: the reading of the command line is TABLE-DRIVEN (`CliSpec`): names, short names, which
  arguments take a value / may be repeated / are hidden, the possible values, case-insensitivity and
  default of `--style`, `required_unless_present` / `conflicts_with` of the positionals, which
  positional is INPUT/OUTPUT, and the flag → `Options` calls are all looked up in a table of the type
  `tools/translate_cli.py` regenerates from main.rs (`Grass/Generated/CliTable.lean`).  The model runs on
  the hand-written table `spec` (the documented command line); `C20_parse_table_driven` proves
  `spec = generated`.  Also new: short-flag clusters (`-qscompressed`), `-I=x`, `--`, non-UTF-8
  arguments, an effect trace of `main` (`runMain`), and the text `StdLogger` prints (`renderLog`).

  Strings are `String`; only `=`, `++` and emptiness are used on them.
-/
namespace Grass.Cli
open Grass.CliTable (ArgSpec Action OptionCall)

/-- Everything `tools/translate_cli.py` reads out of main.rs. -/
structure CliSpec where
  args : List ArgSpec
  optionCalls : List OptionCall
  positionalSwitch : String
  readsWith : Option String × Option String
  readsWithout : Option String × Option String
  outputOpen : List String
  mainSteps : List String
  deriving DecidableEq, Repr

/-- The table as regenerated from /repo's current main.rs. -/
def generated : CliSpec :=
  { args := Grass.CliTable.args, optionCalls := Grass.CliTable.optionCalls,
    positionalSwitch := Grass.CliTable.positionalSwitch, readsWith := Grass.CliTable.positionalReadsWith,
    readsWithout := Grass.CliTable.positionalReadsWithout, outputOpen := Grass.CliTable.outputOpen,
    mainSteps := Grass.CliTable.mainSteps }

/-- The command line this model was written against (main.rs:49-215 and 217-281 at c1728ad), by hand. -/
def spec : CliSpec :=
  { args := [
      { id := "version", long := some "version", shorts := ['v'], action := .version },
      { id := "STDIN", long := some "stdin", action := .setTrue },
      { id := "INDENTED", long := some "indented", hidden := true },
      { id := "LOAD_PATH", long := some "load-path", shorts := ['I'], action := .append },
      { id := "STYLE", long := some "style", shorts := ['s', 't'], default := some "expanded", ignoreCase := true,
        possible := ["expanded", "compressed"] },
      { id := "NO_CHARSET", long := some "no-charset", action := .setTrue },
      { id := "UPDATE", long := some "update", hidden := true },
      { id := "NO_ERROR_CSS", long := some "no-error-css", hidden := true },
      { id := "NO_SOURCE_MAP", long := some "no-source-map", hidden := true },
      { id := "SOURCE_MAP_URLS", long := some "source-map-urls", hidden := true, default := some "relative", ignoreCase := true,
        possible := ["relative", "absolute"] },
      { id := "EMBED_SOURCES", long := some "embed-sources", hidden := true },
      { id := "EMBED_SOURCE_MAP", long := some "embed-source-map", hidden := true },
      { id := "WATCH", long := some "watch", hidden := true },
      { id := "POLL", long := some "poll", hidden := true, requires := ["WATCH"] },
      { id := "NO_STOP_ON_ERROR", long := some "no-stop-on-error", hidden := true },
      { id := "INTERACTIVE", long := some "interactive", shorts := ['i'], hidden := true },
      { id := "NO_COLOR", long := some "no-color", shorts := ['c'], action := .setTrue, hidden := true },
      { id := "VERBOSE", long := some "verbose", action := .setTrue, hidden := true },
      { id := "NO_UNICODE", long := some "no-unicode", action := .setTrue },
      { id := "QUIET", long := some "quiet", shorts := ['q'], action := .setTrue },
      { id := "INPUT", requiredUnless := ["STDIN"] },
      { id := "OUTPUT", conflicts := ["STDIN"] },
      { id := "PRECISION", long := some "precision", hidden := true }],
    optionCalls := [
      { method := "load_paths", reads := "LOAD_PATH", negated := false },
      { method := "style", reads := "STYLE", negated := false },
      { method := "quiet", reads := "QUIET", negated := false },
      { method := "unicode_error_messages", reads := "NO_UNICODE", negated := true },
      { method := "allows_charset", reads := "NO_CHARSET", negated := true }],
    positionalSwitch := "STDIN",
    readsWith := (none, some "INPUT"),
    readsWithout := (some "INPUT", some "OUTPUT"),
    outputOpen := ["create(true)", "write(true)", "truncate(true)", "open(path)"],
    -- textual order of the effectful expressions of `main`; the evaluation order is `runMain` below
    mainSteps := ["open-output", "write", "compile-path", "compile-string", "read-stdin", "report-error", "flush", "return-ok"] }

inductive Style where
  | expanded | compressed
  deriving DecidableEq, Repr, Inhabited

/-- The values of the supported flags after clap has parsed the command line. -/
structure Flags where
  stdin     : Bool := false
  style     : Style := .expanded
  loadPaths : List String := []
  noCharset : Bool := false
  quiet     : Bool := false
  noUnicode : Bool := false
  deriving DecidableEq, Repr, Inhabited

/-- The fields of `grass::Options` the tool sets (crates/compiler/src/options.rs). -/
structure Options where
  style     : Style
  loadPaths : List String
  quiet     : Bool
  unicodeErrorMessages : Bool
  allowsCharset : Bool
  deriving DecidableEq, Repr, Inhabited

/-- main.rs:219-233.  `negationsApplied = true` is the code as it stands; `false` is the variant
    in which the two negated flags are passed through un-negated (used only for the witness that
    the theorem below is not vacuous). -/
def optionsOf (negationsApplied : Bool) (f : Flags) : Options :=
  { style := f.style
    loadPaths := f.loadPaths
    quiet := f.quiet
    unicodeErrorMessages := if negationsApplied then !f.noUnicode else f.noUnicode
    allowsCharset := if negationsApplied then !f.noCharset else f.noCharset }

/-- The value of a boolean flag by the id `main` reads it under (`matches.get_flag(id)`). -/
def flagVal (f : Flags) (id : String) : Option Bool :=
  if id == "STDIN" then some f.stdin else if id == "QUIET" then some f.quiet
  else if id == "NO_UNICODE" then some f.noUnicode else if id == "NO_CHARSET" then some f.noCharset else none

def readsOf (calls : List OptionCall) (method : String) : Option String :=
  (calls.find? (fun c => c.method == method)).map (·.reads)

def boolCall (calls : List OptionCall) (f : Flags) (method : String) : Option Bool :=
  match calls.find? (fun c => c.method == method) with
  | none => none
  | some c => (flagVal f c.reads).map (fun b => if c.negated then !b else b)

/-- main.rs:229-234 read off the table of builder calls; `none` when a call is missing or reads an
    argument of the wrong kind. -/
def optionsOfWith (calls : List OptionCall) (f : Flags) : Option Options :=
  match readsOf calls "style", readsOf calls "load_paths", boolCall calls f "quiet",
        boolCall calls f "unicode_error_messages", boolCall calls f "allows_charset" with
  | some sid, some lid, some q, some u, some c =>
    if sid == "STYLE" && lid == "LOAD_PATH" then
      some { style := f.style, loadPaths := f.loadPaths, quiet := q, unicodeErrorMessages := u, allowsCharset := c }
    else none
  | _, _, _, _, _ => none

/-! ### the command line (clap) -/

structure Parsed where
  flags  : Flags
  input  : Option String       -- positional 1
  output : Option String       -- positional 2
  deriving DecidableEq, Repr, Inhabited

inductive ParseResult where
  | ok (p : Parsed)
  | usage (why : String)         -- clap prints an error and exits with status 2
  | unsupported                  -- outside the model (hidden flags, `--`, combined short flags, --help / --version)
  deriving DecidableEq, Repr, Inhabited

def lower (s : String) : String := String.ofList (s.toList.map Char.toLower)

/-- One command-line argument as clap classifies it. -/
inductive Tok where
  | stdin | noCharset | noUnicode | quiet
  | style                      -- `--style` / `-s` / `-t`, value in the next argument
  | styleEq (v : String)       -- `--style=v`
  | loadPath                   -- `--load-path` / `-I`, value in the next argument
  | loadPathEq (v : String)    -- `--load-path=v` / `-Iv`
  | word (s : String)          -- anything not starting with `-` (and the lone `-`)
  | unknownLong                -- `--something` clap does not know: usage error
  | outside                    -- hidden flags, `--`, `--help`, `--version`, other short flags: not modelled
  deriving DecidableEq, Repr, Inhabited

/-! #### table look-ups -/

def _root_.Grass.CliTable.ArgSpec.takesValue (s : ArgSpec) : Bool := s.action == .set || s.action == .append
def _root_.Grass.CliTable.ArgSpec.positional (s : ArgSpec) : Bool := s.long.isNone && s.shorts.isEmpty

def findId (S : CliSpec) (id : String) : Option ArgSpec := S.args.find? (fun s => s.id == id)
def findLong (S : CliSpec) (name : String) : Option ArgSpec := S.args.find? (fun s => s.long == some name)
def findShort (S : CliSpec) (c : Char) : Option ArgSpec := S.args.find? (fun s => s.shorts.contains c)

/-- clap: only `ArgAction::Append` arguments may be given more than once. -/
def repeatable (S : CliSpec) (id : String) : Bool :=
  match findId S id with
  | some s => s.action == .append
  | none => false

/-- The token for one occurrence of argument `s`, with the value attached to it (`--x=v`, `-xv`) if any.
    Which ids mean what is main.rs:220-234 (`get_flag("QUIET")`, …); hidden arguments, `--version` and
    any other argument `main` does not read are outside the model. -/
def tokOfSpec (s : ArgSpec) (v : Option String) : Tok :=
  if s.hidden || s.action == .version || s.action == .help then .outside
  else if s.takesValue then
    (if s.id == "STYLE" then (match v with | none => .style | some v => .styleEq v)
     else if s.id == "LOAD_PATH" then (match v with | none => .loadPath | some v => .loadPathEq v)
     else .outside)
  else match v with
    | some _ => .unknownLong            -- clap: "unexpected value for '--flag'": usage error
    | none =>
      if s.id == "STDIN" then .stdin else if s.id == "NO_CHARSET" then .noCharset
      else if s.id == "NO_UNICODE" then .noUnicode else if s.id == "QUIET" then .quiet else .outside

/-- clap strips one `=` between a short option and its attached value (`-I=x` is the value `x`). -/
def stripEq : List Char → List Char
  | '=' :: rest => rest
  | cs => cs

/-- `-abc`: a cluster of short flags; the first one that takes a value swallows the rest as its value. -/
def shortToks (S : CliSpec) : List Char → List Tok
  | [] => []
  | c :: rest =>
    if c == 'h' then [.outside] else        -- clap's built-in `-h`
    match findShort S c with
    | none => [.unknownLong]
    | some s =>
      if s.takesValue then
        (if rest.isEmpty then [tokOfSpec s none] else [tokOfSpec s (some (String.ofList (stripEq rest)))])
      else tokOfSpec s none :: shortToks S rest

/-- `--name` / `--name=value`. -/
def longTok (S : CliSpec) (body : List Char) : Tok :=
  let name := String.ofList (body.takeWhile (· != '='))
  let rest := body.dropWhile (· != '=')
  let v : Option String := match rest with | [] => none | _ :: val => some (String.ofList val)
  if name == "help" then .outside else      -- clap's built-in `--help`
  match findLong S name with
  | none => .unknownLong
  | some s => tokOfSpec s v

/-- main.rs:54-213 read as a classifier of single arguments (other than `--`). -/
def tokenizeWith (S : CliSpec) (a : String) : List Tok :=
  match a.toList with
  | '-' :: '-' :: body => [longTok S body]
  | '-' :: c :: rest => shortToks S (c :: rest)
  | _ => [.word a]                          -- includes the lone `-` and the empty string

def tokenize (a : String) : List Tok := tokenizeWith spec a

def looksLikeFlag (a : String) : Bool :=
  match a.toList with
  | '-' :: _ :: _ => true
  | _ => false

def expectsValue : Option Tok → Bool
  | some .style => true
  | some .loadPath => true
  | _ => false

/-- The whole command line.  `pending`: the previous argument was an option still waiting for its
    value — the next argument is that value unless it looks like a flag (clap: "a value is required").
    After `--` everything is a positional. -/
def tokenizeAllWith (S : CliSpec) : List String → Bool → List Tok
  | [], _ => []
  | a :: rest, true =>
    if looksLikeFlag a then [.unknownLong] else .word a :: tokenizeAllWith S rest false
  | a :: rest, false =>
    if a == "--" then rest.map .word
    else
      let ts := tokenizeWith S a
      ts ++ tokenizeAllWith S rest (expectsValue ts.getLast?)

structure PState where
  flags : Flags := {}
  styleSeen : Bool := false
  positionals : List String := []
  deriving DecidableEq, Repr, Inhabited

/-- `value_parser!(Style)` + `ignore_case(true)` (main.rs:17-27, 83-93) and main.rs:224-227. -/
def styleOfValueWith (S : CliSpec) (v : String) : Option Style :=
  match findId S "STYLE" with
  | none => none
  | some s =>
    match s.possible.find? (fun pv => if s.ignoreCase then lower pv == lower v else pv == v) with
    | none => none
    | some pv => if pv == "expanded" then some .expanded else if pv == "compressed" then some .compressed else none

def styleOfValue (v : String) : Option Style := styleOfValueWith spec v

/-- The state before any argument is read: `--style` has its `default_value`. -/
def initStateWith (S : CliSpec) : Option PState :=
  match findId S "STYLE" with
  | none => none
  | some s =>
    match s.default with
    | none => none            -- main.rs:224 `.unwrap()` would panic
    | some d => (styleOfValueWith S d).map (fun st => { flags := { style := st } })

def setStyle (S : CliSpec) (st : PState) (v : String) : Except ParseResult PState :=
  if st.styleSeen && !repeatable S "STYLE" then .error (.usage "style given twice") else
  match styleOfValueWith S v with
  | some s => .ok { st with flags := { st.flags with style := s }, styleSeen := true }
  | none => .error (.usage "invalid style value")

def addLoadPath (st : PState) (v : String) : PState :=
  { st with flags := { st.flags with loadPaths := st.flags.loadPaths ++ [v] } }

/-- One pass over the arguments (after the program name).  An option that takes a value consumes
    the next argument, which must be a `word` (clap rejects values that look like flags). -/
def parseLoop (S : CliSpec) : List Tok → PState → Except ParseResult PState
  | [], st => .ok st
  | .stdin :: rest, st =>
    if st.flags.stdin && !repeatable S "STDIN" then .error (.usage "flag given twice")
    else parseLoop S rest { st with flags := { st.flags with stdin := true } }
  | .noCharset :: rest, st =>
    if st.flags.noCharset && !repeatable S "NO_CHARSET" then .error (.usage "flag given twice")
    else parseLoop S rest { st with flags := { st.flags with noCharset := true } }
  | .noUnicode :: rest, st =>
    if st.flags.noUnicode && !repeatable S "NO_UNICODE" then .error (.usage "flag given twice")
    else parseLoop S rest { st with flags := { st.flags with noUnicode := true } }
  | .quiet :: rest, st =>
    if st.flags.quiet && !repeatable S "QUIET" then .error (.usage "flag given twice")
    else parseLoop S rest { st with flags := { st.flags with quiet := true } }
  | .style :: .word v :: rest, st =>
    match setStyle S st v with
    | .ok st' => parseLoop S rest st'
    | .error e => .error e
  | .style :: [], _ => .error (.usage "missing value")
  | .style :: .outside :: _, _ => .error .unsupported
  | .style :: _ :: _, _ => .error (.usage "missing value")
  | .styleEq v :: rest, st =>
    match setStyle S st v with
    | .ok st' => parseLoop S rest st'
    | .error e => .error e
  | .loadPath :: .word v :: rest, st =>
    if !st.flags.loadPaths.isEmpty && !repeatable S "LOAD_PATH" then .error (.usage "flag given twice")
    else parseLoop S rest (addLoadPath st v)
  | .loadPath :: [], _ => .error (.usage "missing value")
  | .loadPath :: .outside :: _, _ => .error .unsupported
  | .loadPath :: _ :: _, _ => .error (.usage "missing value")
  | .loadPathEq v :: rest, st =>
    if !st.flags.loadPaths.isEmpty && !repeatable S "LOAD_PATH" then .error (.usage "flag given twice")
    else parseLoop S rest (addLoadPath st v)
  | .word s :: rest, st => parseLoop S rest { st with positionals := st.positionals ++ [s] }
  | .unknownLong :: _, _ => .error (.usage "unexpected argument")
  | .outside :: _, _ => .error .unsupported

/-- Which positional is what (main.rs: `INPUT`/`OUTPUT` arguments, `OUTPUT.conflicts_with("STDIN")`,
    and `let (input, output) = if STDIN { (None, INPUT) } else { (INPUT, OUTPUT) }`).
    `asFound = false`: the code as it stands (fix c1728ad): with `--stdin` the only positional
    allowed is the OUTPUT file, a second one is a usage error.
    `asFound = true`: the variant found on the pinned tree: the first positional is always
    `INPUT`, also with `--stdin` (then stdin is not read at all). -/
def assignAsFound (f : Flags) : List String → ParseResult
  | [] => if f.stdin then .ok ⟨f, none, none⟩ else .usage "INPUT required"
  | [i] => .ok ⟨f, some i, none⟩
  | [i, o] => .ok ⟨f, some i, some o⟩
  | _ :: _ :: _ :: _ => .usage "unexpected argument"

def assignSpecStdin (f : Flags) : List String → ParseResult
  | [] => .ok ⟨f, none, none⟩
  | [o] => .ok ⟨f, none, some o⟩
  | _ :: _ :: _ => .usage "unexpected argument"

def assign (asFound : Bool) (f : Flags) (ps : List String) : ParseResult :=
  if asFound || !f.stdin then assignAsFound f ps else assignSpecStdin f ps

/-- Is the argument `id` present on the command line (for `required_unless_present` / `conflicts_with`). -/
def presentOf (f : Flags) (id : String) : Bool :=
  if id == "STDIN" then f.stdin else if id == "QUIET" then f.quiet else if id == "NO_UNICODE" then f.noUnicode
  else if id == "NO_CHARSET" then f.noCharset else if id == "LOAD_PATH" then !f.loadPaths.isEmpty else false

def lookupBound (bound : List (String × String)) (id : String) : Option String :=
  (bound.find? (fun b => b.1 == id)).map (·.2)

/-- The same, read off the table: positionals are bound to the positional arguments in table order;
    `required_unless_present`, `conflicts_with`; then main.rs:237-244 picks (input, output). -/
def assignWith (S : CliSpec) (f : Flags) (ps : List String) : ParseResult :=
  let specs := S.args.filter ArgSpec.positional
  if ps.length > specs.length then .usage "unexpected argument" else
  let bound : List (String × String) := (specs.zip ps).map (fun b => (b.1.id, b.2))
  if specs.any (fun s => !s.requiredUnless.isEmpty && (lookupBound bound s.id).isNone && !s.requiredUnless.any (presentOf f)) then
    .usage "INPUT required"
  else if specs.any (fun s => (lookupBound bound s.id).isSome && s.conflicts.any (presentOf f)) then
    .usage "unexpected argument"
  else
    let reads := if presentOf f S.positionalSwitch then S.readsWith else S.readsWithout
    .ok ⟨f, reads.1.bind (lookupBound bound), reads.2.bind (lookupBound bound)⟩

def parseToksWith (S : CliSpec) (asFound : Bool) (toks : List Tok) : ParseResult :=
  match initStateWith S with
  | none => .unsupported
  | some st0 =>
    match parseLoop S toks st0 with
    | .error e => e
    | .ok st => if asFound then assign true st.flags st.positionals else assignWith S st.flags st.positionals

def parseToks (asFound : Bool) (toks : List Tok) : ParseResult := parseToksWith spec asFound toks

def parseArgvWith (S : CliSpec) (asFound : Bool) (argv : List String) : ParseResult :=
  parseToksWith S asFound (tokenizeAllWith S argv false)

def parseArgv (asFound : Bool) (argv : List String) : ParseResult := parseArgvWith spec asFound argv

/-- `none` = an argument that is not valid UTF-8: every argument of `cli()` has a `String` value parser,
    clap answers "invalid UTF-8 was detected in one or more arguments" (usage error). -/
def parseArgvRaw (asFound : Bool) (argv : List (Option String)) : ParseResult :=
  match argv.mapM id with
  | none => .usage "invalid UTF-8"
  | some argv => parseArgv asFound argv

/-- The canonical command line the check uses for a set of flags. -/
def renderToks (f : Flags) (positionals : List String) : List Tok :=
  (if f.stdin then [.stdin] else []) ++
  (match f.style with | .expanded => [] | .compressed => [.style, .word "compressed"]) ++
  f.loadPaths.flatMap (fun p => [.loadPath, .word p]) ++
  (if f.noCharset then [.noCharset] else []) ++
  (if f.quiet then [.quiet] else []) ++
  (if f.noUnicode then [.noUnicode] else []) ++
  positionals.map .word

def tokStrs : Tok → List String
  | .stdin => ["--stdin"] | .noCharset => ["--no-charset"] | .noUnicode => ["--no-unicode"] | .quiet => ["--quiet"]
  | .style => ["--style"] | .styleEq v => ["--style=" ++ v] | .loadPath => ["-I"] | .loadPathEq v => ["--load-path=" ++ v]
  | .word s => [s] | .unknownLong => ["--unknown-flag"] | .outside => ["--"]

def renderArgv (f : Flags) (positionals : List String) : List String := (renderToks f positionals).flatMap tokStrs

/-! ### what a run does -/

/-- Where the source comes from: the input file if the command line names one, else stdin. -/
inductive InputKind where
  | file | stdin
  deriving DecidableEq, Repr, Inhabited

def inputKind (p : Parsed) : InputKind := if p.input.isSome then .file else .stdin

inductive OutputKind where
  | stdout
  | file            -- `OUTPUT` given and it can be opened for writing
  | fileUnopenable  -- `OUTPUT` given, `OpenOptions::open` fails (missing directory, is a directory, …)
  deriving DecidableEq, Repr, Inhabited

/-- What the library call returns, with the bytes `StdLogger` wrote to stderr meanwhile. -/
inductive LibResult where
  | ok (css : String) (warnings : String)
  | err (rendered : String) (warnings : String)    -- `rendered` = `format!("{}", e)`
  deriving DecidableEq, Repr, Inhabited

def LibResult.warnings : LibResult → String
  | .ok _ w => w | .err _ w => w

/-- A piece of stderr: exact text, or an operating-system error message (opaque). -/
inductive Seg where
  | text (s : String)
  | osError
  | clapError        -- clap's usage error message (`error: …`), text not modelled
  deriving DecidableEq, Repr, Inhabited

structure Outcome where
  exitZero : Bool
  stdout   : String
  stderr   : List Seg
  /-- content of the output file after the run; `none` = the tool did not touch/create it -/
  file     : Option String
  deriving DecidableEq, Repr, Inhabited

/-- main.rs:235-269.  The flags decide nothing here beyond `Options` (they are already inside
    `lib`), which is itself part of the claim. -/
def outcome (_f : Flags) (_i : InputKind) (o : OutputKind) (lib : LibResult) : Outcome :=
  match o with
  | .fileUnopenable =>
    -- `open(path)?` returns before anything is compiled: no warnings, no CSS
    { exitZero := false, stdout := "", stderr := [.osError], file := none }
  | .stdout =>
    match lib with
    | .ok css w => { exitZero := true, stdout := css, stderr := [.text w], file := none }
    | .err r w => { exitZero := false, stdout := "", stderr := [.text w, .text (r ++ "\n")], file := none }
  | .file =>
    match lib with
    | .ok css w => { exitZero := true, stdout := "", stderr := [.text w], file := some css }
    -- the file was created/truncated before compiling and nothing is written to it
    | .err r w => { exitZero := false, stdout := "", stderr := [.text w, .text (r ++ "\n")], file := some "" }

/-- `--stdin` whose bytes are not UTF-8 (main.rs: `stdin().read_to_string(&mut buffer)?` inside the
    argument of `write_all`): `main` returns the I/O error before the library is called — but AFTER
    the output file was opened, so a named output file is left created/empty. -/
def outcomeStdinUnreadable (o : OutputKind) : Outcome :=
  match o with
  | .file => { exitZero := false, stdout := "", stderr := [.osError], file := some "" }
  | _ => { exitZero := false, stdout := "", stderr := [.osError], file := none }

/-- Text segments of stderr joined (an `osError` segment contributes nothing here). -/
def stderrText (o : Outcome) : String :=
  o.stderr.foldl (fun acc s => match s with | .text t => acc ++ t | _ => acc) ""

/-- P̂: the observed run equals the model's outcome for the library result under `optionsOf flags`. -/
structure Observed where
  exitCode : Nat
  stdout   : String
  stderr   : String
  file     : Option String
  deriving DecidableEq, Repr, Inhabited

def agrees (exp : Outcome) (obs : Observed) : Bool :=
  (exp.exitZero == (obs.exitCode == 0)) &&
  exp.stdout == obs.stdout &&
  exp.file == obs.file &&
  -- an operating-system error is the last thing on stderr, rendered by Rust as `Error: …`
  (if exp.stderr.contains .osError then obs.stderr.startsWith (stderrText exp ++ "Error: ") else stderrText exp == obs.stderr)

/-! ### a sink that cannot take the CSS (full device, closed pipe)

  main.rs:248-271: the CSS is handed to the sink with ONE `write_all(..)?`, then `buf_out.flush()?`
  (since the fix `cea0756`), then `Ok(())`.  A `File` is unbuffered, so a failing write is seen by
  the first `?`.  `Stdout` is a `LineWriter` (buffer 1024 bytes): everything up to the last `\n` is
  written at once, a longer-than-buffer remainder too, but a short remainder with no newline stays
  in the buffer; the explicit flush writes it and reports the error.  On the pinned tree the flush
  was missing: the remainder was written when the process exited, where the error had nowhere to
  go (`flushChecked = false`, kept for the `C20_asFound_…` witnesses). -/

/-- Non-empty CSS without any newline and shorter than stdout's buffer: stays buffered. -/
def unterminatedSmall (css : String) : Bool :=
  css != "" && !css.toList.contains '\n' && css.utf8ByteSize < 1024

/-- `flushChecked = true`: the code as it stands now — `main` flushes the sink and propagates the
    error (`buf_out.flush()?`, main.rs:270).  `false`: the variant found on the pinned tree (no
    flush).  `sinkFails`: every write to the sink fails. -/
def outcomeIO (flushChecked : Bool) (f : Flags) (i : InputKind) (o : OutputKind) (lib : LibResult)
    (sinkFails : Bool) : Outcome :=
  if !sinkFails then outcome f i o lib else
  match o, lib with
  | .fileUnopenable, _ => outcome f i o lib
  -- nothing is written on a library error: as without a failing sink, but the device keeps nothing
  | _, .err r w => { exitZero := false, stdout := "", stderr := [.text w, .text (r ++ "\n")], file := none }
  | .file, .ok css w =>
    if css == "" then { exitZero := true, stdout := "", stderr := [.text w], file := none }
    else { exitZero := false, stdout := "", stderr := [.text w, .osError], file := none }
  | .stdout, .ok css w =>
    if css == "" || (!flushChecked && unterminatedSmall css) then
      -- nothing to write, or (old variant) the write error surfaces only after `main` returned `Ok(())`
      { exitZero := true, stdout := "", stderr := [.text w], file := none }
    else { exitZero := false, stdout := "", stderr := [.text w, .osError], file := none }

/-! ### what `StdLogger` prints (crates/compiler/src/logger.rs:19-40) -/

inductive LogKind where
  | debug | warn
  deriving DecidableEq, Repr, Inhabited

/-- One call of the `Logger` trait: the `SpanLoc` (file name, 0-based line and column of its
    beginning) and the message. -/
structure LogEvent where
  kind : LogKind
  file : String
  line : Nat
  column : Nat
  msg : String
  deriving DecidableEq, Repr, Inhabited

/-- logger.rs:21-27 `eprintln!("{}:{} DEBUG: {}", file, line + 1, message)`;
    logger.rs:31-38 `eprintln!("Warning: {}\n    ./{}:{}:{}", message, file, line + 1, column + 1)`. -/
def renderEvent (e : LogEvent) : String :=
  match e.kind with
  | .debug => e.file ++ ":" ++ toString (e.line + 1) ++ " DEBUG: " ++ e.msg ++ "\n"
  | .warn => "Warning: " ++ e.msg ++ "\n    ./" ++ e.file ++ ":" ++ toString (e.line + 1) ++ ":" ++ toString (e.column + 1) ++ "\n"

def renderLog : List LogEvent → String
  | [] => ""
  | e :: rest => renderEvent e ++ renderLog rest

/-- The library result when the Logger calls are known: what reaches stderr is their rendering. -/
def libOk (css : String) (evs : List LogEvent) : LibResult := .ok css (renderLog evs)
def libErr (rendered : String) (evs : List LogEvent) : LibResult := .err rendered (renderLog evs)

/-! ### `main` as a sequence of effects (main.rs:217-281)

  Evaluation order of main.rs:246-281: the output file is opened first (`OpenOptions … .open(path)?`,
  creating/truncating it); then the ARGUMENT of `write_all` is evaluated — stdin is read
  (`read_to_string(..)?`) and the library is called (which logs through `StdLogger` as it goes); on `Err`
  the closure prints the error and exits 1; only then `write_all`, `flush`, `Ok(())`.

  `openFirst = true` is the code as it stands.  `openFirst = false` is the SPECIFIED order (compile, then
  open the output): it differs exactly when the run fails after the open (the output file is left
  empty) and when OUTPUT names the INPUT file (the input is truncated before it is read: known finding
  C20-output-is-input). -/

inductive Step where
  | clapUsage            -- clap prints the usage error and exits 2
  | openOutput (ok : Bool)
  | readStdin (ok : Bool)
  | compile (inputTruncated : Bool)
  | logged (text : String)
  | reportError          -- `eprintln!("{}", e)`
  | write (ok : Bool)
  | flush (ok : Bool)
  | returnErr            -- `main` returns `Err(io)`: Rust prints `Error: {:?}` and exits 1
  | exit (code : Nat)
  deriving DecidableEq, Repr, Inhabited

/-- The world `main` runs in. -/
structure Env where
  output : OutputKind := .stdout          -- no OUTPUT / OUTPUT opens / OUTPUT cannot be opened
  outputIsInput : Bool := false           -- OUTPUT and INPUT name the same file
  stdinUtf8 : Bool := true
  /-- the library's result; the argument says whether the input file was truncated before it was read -/
  libOf : Bool → LibResult
  sinkFails : Bool := false               -- every write to the sink fails (full device)

structure Run where
  steps    : List Step
  exitCode : Nat
  stdout   : String
  stderr   : List Seg
  /-- content of the output file after the run; `none` = not touched/created by the tool -/
  file     : Option String
  /-- the INPUT file was emptied by the tool -/
  inputDestroyed : Bool
  deriving DecidableEq, Repr, Inhabited

/-- Does a `write_all`+`flush` of `css` to a failing sink report the failure?  (`Stdout` is a
    `LineWriter`; with the explicit flush of main.rs:280 every non-empty write is reported.) -/
def writeSteps (sinkFails : Bool) (css : String) : List Step × Bool :=
  if !sinkFails || css == "" then ([.write true, .flush true], true)
  else ([.write false], false)        -- either `write_all(..)?` or `flush()?` returns the error; one step

def runMain (openFirst : Bool) (i : InputKind) (e : Env) : Run :=
  let hasFile := e.output != .stdout
  let truncated := openFirst && e.output == .file && e.outputIsInput && i == .file
  -- 1. (as it stands) open the output
  if openFirst && e.output == .fileUnopenable then
    { steps := [.openOutput false, .returnErr, .exit 1], exitCode := 1, stdout := "", stderr := [.osError], file := none, inputDestroyed := false }
  else
  let pre : List Step := if openFirst && hasFile then [.openOutput true] else []
  let fileOnFail : Option String := if openFirst && hasFile then some "" else none
  -- 2. read stdin
  if i == .stdin && !e.stdinUtf8 then
    { steps := pre ++ [.readStdin false, .returnErr, .exit 1], exitCode := 1, stdout := "", stderr := [.osError], file := fileOnFail,
      inputDestroyed := false }
  else
  let pre := pre ++ (if i == .stdin then [.readStdin true] else [])
  -- 3. compile
  match e.libOf truncated with
  | .err r w =>
    { steps := pre ++ [.compile truncated, .logged w, .reportError, .exit 1], exitCode := 1, stdout := "",
      stderr := [.text w, .text (r ++ "\n")], file := fileOnFail, inputDestroyed := truncated }
  | .ok css w =>
    let pre := pre ++ [.compile truncated, .logged w]
    -- (specified order) open the output now
    if !openFirst && e.output == .fileUnopenable then
      { steps := pre ++ [.openOutput false, .returnErr, .exit 1], exitCode := 1, stdout := "", stderr := [.text w, .osError], file := none,
        inputDestroyed := false }
    else
    let pre := pre ++ (if !openFirst && hasFile then [.openOutput true] else [])
    let (ws, ok) := writeSteps e.sinkFails css
    if ok then
      { steps := pre ++ ws ++ [.exit 0], exitCode := 0, stdout := if hasFile then "" else (if e.sinkFails then "" else css), stderr := [.text w],
        file := if hasFile then (if e.sinkFails then none else some css) else none, inputDestroyed := truncated }
    else
      { steps := pre ++ ws ++ [.returnErr, .exit 1], exitCode := 1, stdout := "", stderr := [.text w, .osError], file := none,
        inputDestroyed := truncated }

/-- The whole tool: clap, then `main`. -/
def runCli (openFirst : Bool) (argv : List (Option String)) (e : Env) : Option Run :=
  match parseArgvRaw false argv with
  | .unsupported => none
  | .usage _ => some { steps := [.clapUsage, .exit 2], exitCode := 2, stdout := "", stderr := [.clapError], file := none, inputDestroyed := false }
  | .ok p => some (runMain openFirst (inputKind p) e)

def runStderrText (r : Run) : String :=
  r.stderr.foldl (fun acc s => match s with | .text t => acc ++ t | _ => acc) ""

/-- P̂ (extended): exact exit code, stdout, output file; stderr exactly, except that an operating-system
    error is `Error: …` at the end and a clap usage error is `error: …` (text not modelled). -/
def agreesRun (r : Run) (obs : Observed) : Bool :=
  r.exitCode == obs.exitCode && r.stdout == obs.stdout && r.file == obs.file &&
  (if r.stderr.contains .clapError then obs.stderr.startsWith "error: "
   else if r.stderr.contains .osError then obs.stderr.startsWith (runStderrText r ++ "Error: ")
   else runStderrText r == obs.stderr)

/-! ### driver entry points -/
open Grass.Proto

def styleStr : Style → String
  | .expanded => "expanded" | .compressed => "compressed"

def optStr (o : Option String) : String :=
  match o with | none => "none" | some s => "some:" ++ hexEncode s

def optOfStr (s : String) : Option (Option String) :=
  if s == "none" then some none
  else if s.startsWith "some:" then (hexDecode (s.drop 5).toString).map some
  else none

def argvOfTok (s : String) : Option (List String) :=
  if s == "-" then some [] else (s.splitOn ",").mapM hexDecode

def tokOfList (l : List String) : String :=
  if l.isEmpty then "-" else ",".intercalate (l.map hexEncode)

def outputKindOfStr (s : String) : Option OutputKind :=
  if s == "stdout" then some .stdout else if s == "file" then some .file
  else if s == "unopenable" then some .fileUnopenable else none

def segStr : Seg → String
  | .text t => "t:" ++ hexEncode t
  | .osError => "os"
  | .clapError => "clap"

def handleOutcome (ok kind body warn fc sf : String) : String :=
  match outputKindOfStr ok, hexDecode body, hexDecode warn, parseBool? fc, parseBool? sf with
  | some ok, some body, some warn, some fc, some sf =>
    if kind != "ok" && kind != "err" && kind != "ioerr" then "bad-op" else
    let lib := if kind == "ok" then LibResult.ok body warn else LibResult.err body warn
    let r := if kind == "ioerr" then outcomeStdinUnreadable ok else outcomeIO fc {} .file ok lib sf
    s!"ok exit0={boolStr r.exitZero} stdout={hexEncode r.stdout} stderr={",".intercalate (r.stderr.map segStr)} file={optStr r.file}"
  | _, _, _, _, _ => "bad-op"

def handleAgrees (ok kind body warn code so se fl fc sf : String) : String :=
  match outputKindOfStr ok, hexDecode body, hexDecode warn, code.toNat?, hexDecode so, hexDecode se, optOfStr fl, parseBool? fc, parseBool? sf with
  | some ok, some body, some warn, some code, some so, some se, some fl, some fc, some sf =>
    if kind != "ok" && kind != "err" && kind != "ioerr" then "bad-op" else
    let lib := if kind == "ok" then LibResult.ok body warn else LibResult.err body warn
    let exp := if kind == "ioerr" then outcomeStdinUnreadable ok else outcomeIO fc {} .file ok lib sf
    "ok " ++ boolStr (agrees exp ⟨code, so, se, fl⟩)
  | _, _, _, _, _, _, _, _, _ => "bad-op"

/-- `!` stands for an argument that is not valid UTF-8. -/
def argvRawOfTok (s : String) : Option (List (Option String)) :=
  if s == "-" then some [] else
  (s.splitOn ",").mapM (fun t => if t == "!" then some none else (hexDecode t).map some)

def eventOfStr (s : String) : Option LogEvent :=
  match s.splitOn ":" with
  | [k, f, l, c, m] =>
    match (if k == "d" then some LogKind.debug else if k == "w" then some LogKind.warn else none),
          hexDecode f, l.toNat?, c.toNat?, hexDecode m with
    | some k, some f, some l, some c, some m => some ⟨k, f, l, c, m⟩
    | _, _, _, _, _ => none
  | _ => none

def eventsOfTok (s : String) : Option (List LogEvent) :=
  if s == "-" then some [] else (s.splitOn ",").mapM eventOfStr

def stepStr : Step → String
  | .clapUsage => "clap-usage" | .openOutput ok => "open-output:" ++ boolStr ok | .readStdin ok => "read-stdin:" ++ boolStr ok
  | .compile t => "compile:" ++ boolStr t | .logged _ => "logged" | .reportError => "report-error"
  | .write ok => "write:" ++ boolStr ok | .flush ok => "flush:" ++ boolStr ok | .returnErr => "return-err" | .exit c => "exit:" ++ toString c

def envOf (out isIn su sf kind body evs : String) : Option Env :=
  match outputKindOfStr out, parseBool? isIn, parseBool? su, parseBool? sf, hexDecode body, eventsOfTok evs with
  | some out, some isIn, some su, some sf, some body, some evs =>
    if kind == "ok" then some { output := out, outputIsInput := isIn, stdinUtf8 := su, sinkFails := sf, libOf := fun _ => libOk body evs }
    else if kind == "err" then some { output := out, outputIsInput := isIn, stdinUtf8 := su, sinkFails := sf, libOf := fun _ => libErr body evs }
    else none
  | _, _, _, _, _, _ => none

def runStr (r : Run) : String :=
  s!"ok exit={r.exitCode} stdout={hexEncode r.stdout} stderr={",".intercalate (r.stderr.map segStr)} file={optStr r.file} " ++
  s!"input_destroyed={boolStr r.inputDestroyed} steps={",".intercalate (r.steps.map stepStr)}"

def handle : List String → String
  -- runcli <argv(raw)> <openFirst> <stdout|file|unopenable> <outputIsInput> <stdinUtf8> <sinkFails> <ok|err> <css-or-rendered> <events>:
  -- the whole tool (clap + main) as a run: exit code, stdout, stderr segments, output file, steps
  | ["runcli", argv, ofi, out, isIn, su, sf, kind, body, evs] =>
    match argvRawOfTok argv, parseBool? ofi, envOf out isIn su sf kind body evs with
    | some argv, some ofi, some e =>
      match runCli ofi argv e with
      | none => "unsupported"
      | some r => runStr r
    | _, _, _ => "bad-op"
  -- agreescli <…the same…> <exit code> <stdout> <stderr> <file>: P̂ (extended) on an observed run of the binary
  | ["agreescli", argv, ofi, out, isIn, su, sf, kind, body, evs, code, so, se, fl] =>
    match argvRawOfTok argv, parseBool? ofi, envOf out isIn su sf kind body evs, code.toNat?, hexDecode so, hexDecode se, optOfStr fl with
    | some argv, some ofi, some e, some code, some so, some se, some fl =>
      match runCli ofi argv e with
      | none => "unsupported"
      | some r => "ok " ++ boolStr (agreesRun r ⟨code, so, se, fl⟩)
    | _, _, _, _, _, _, _ => "bad-op"
  -- renderlog <events>: what StdLogger prints for these Logger calls
  | ["renderlog", evs] =>
    match eventsOfTok evs with
    | some evs => "ok " ++ hexEncode (renderLog evs)
    | none => "bad-op"
  -- table: the table the model runs on, and whether it equals the one regenerated from main.rs
  | ["table"] =>
    "ok same=" ++ boolStr (decide (spec = generated)) ++ " args=" ++
      ",".intercalate (spec.args.map (fun a => a.id ++ ":" ++ (a.long.getD "") ++ ":" ++ String.ofList a.shorts ++ ":" ++
        boolStr a.takesValue ++ ":" ++ boolStr a.hidden ++ ":" ++ boolStr (repeatable spec a.id)))
  -- parse <argv>: flags, the Options derived from them, input and output positionals
  | ["parse", argv] =>
    match argvRawOfTok argv with
    | none => "bad-op"
    | some argv =>
      match parseArgvRaw false argv with
      | .unsupported => "unsupported"
      | .usage why => "usage " ++ hexEncode why
      | .ok p =>
        let o := optionsOf true p.flags
        s!"ok stdin={boolStr p.flags.stdin} input={optStr p.input} output={optStr p.output} " ++
        s!"kind={if inputKind p == .file then "file" else "stdin"} " ++
        s!"style={styleStr o.style} quiet={boolStr o.quiet} unicode={boolStr o.unicodeErrorMessages} " ++
        s!"charset={boolStr o.allowsCharset} load_paths={tokOfList o.loadPaths}"
  -- render <stdin> <style> <noCharset> <quiet> <noUnicode> <loadPaths> <positionals>: canonical argv
  | ["render", si, st, nc, q, nu, lps, pos] =>
    match parseBool? si, styleOfValue st, parseBool? nc, parseBool? q, parseBool? nu, argvOfTok lps, argvOfTok pos with
    | some si, some st, some nc, some q, some nu, some lps, some pos =>
      "ok " ++ tokOfList (renderArgv { stdin := si, style := st, loadPaths := lps, noCharset := nc, quiet := q, noUnicode := nu } pos)
    | _, _, _, _, _, _, _ => "bad-op"
  -- outcome <stdout|file|unopenable> <ok|err> <css-or-rendered> <warnings>: expected exit class, stdout, stderr segments, file
  | ["outcome", ok, kind, body, warn] => handleOutcome ok kind body warn "1" "0"
  -- outcome … <flushChecked> <sinkFails>: the same with a sink whose writes fail
  | ["outcome", ok, kind, body, warn, fc, sf] => handleOutcome ok kind body warn fc sf
  -- agrees <stdout|file|unopenable> <ok|err> <body> <warnings> <exit code> <stdout> <stderr> <file>: P̂ on an observed run
  | ["agrees", ok, kind, body, warn, code, so, se, fl] => handleAgrees ok kind body warn code so se fl "1" "0"
  -- agrees … <flushChecked> <sinkFails>
  | ["agrees", ok, kind, body, warn, code, so, se, fl, fc, sf] => handleAgrees ok kind body warn code so se fl fc sf
  | _ => "bad-op"

end Grass.Cli
