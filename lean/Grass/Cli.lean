import Grass.Proto
/- Core `Cli` — stub; replaced by the model (see DESIGN.md §8). -/
namespace Grass.Cli

def handle : List String → String
  | _ => "bad-op"

end Grass.Cli
