import Grass.Proto
/-
  C11 / C10 core — selectors.
  Mirrors crates/compiler/src/selector/{simple,compound,complex,list,parse}.rs and the selector
  built-ins of builtin/functions/selector.rs.

  Representation.  A top-level complex selector is grass's `Vec<ComplexSelectorComponent>`
  (`Complex = List Component`, descendant combinators implicit, stray combinators representable).
  The argument of a selector pseudo (`:not(S)`, `:is(S)`, …) is stored in *right-to-left normal
  form* (`RComplex`: the target compound, then the (relation, compound) steps going leftwards) so
  that the matching semantics is one structural recursion.  `norm`/`RComplex.toComps` convert.

  Round 3: attribute selectors with every operator (`= ~= |= ^= $= *=`), modifier and quoted value
  (encoding and CSS matching semantics at `attrValMatch`), and pseudos with a non-selector argument
  (`:nth-child(2n+1)`, `:lang(en)`, `::part(x)`, unknown `:foo(bar)`) as opaque names `name(arg)`.

  Not modelled (the parser answers `unsupported`): namespaces, `:has/:host/:host-context/:slotted/
  :current`, `:nth-child(An+B of S)`, vendor-prefixed selector pseudos, non-canonical argument text
  (`2n + 1`), escapes in identifiers.  `Pseudo::eq` ignores `is_syntactic_class` (simple.rs:426);
  the model drops that field (a pseudo-element is `pelem name`, printed `::name`).
-/
namespace Grass.Selector

abbrev Name := List Char

/-- grass `Combinator` (complex.rs:274). -/
inductive Comb where
  | child | next | later
  deriving DecidableEq, Repr, Inhabited

/-- Relation between two adjacent compounds, descendant made explicit. -/
inductive Rel where
  | desc | child | next | later
  deriving DecidableEq, Repr, Inhabited

def Comb.rel : Comb → Rel
  | .child => .child | .next => .next | .later => .later

/-- Selector pseudos whose argument is a selector list (simple.rs:499 `matches|is|any|where`, `not`). -/
inductive PName where
  | not | is | where_ | matches | any
  deriving DecidableEq, Repr, Inhabited

inductive Simple where
  | univ
  | type (n : Name)
  | cls (n : Name)
  | id (n : Name)
  | attr (n : Name) (v : Option Name)
  | pclass (n : Name)                 -- opaque pseudo-class (`:hover`)
  | pelem (n : Name)                  -- pseudo-element (`::before`, `:after`)
  | placeholder (n : Name)
  | parent (suffix : Option Name)     -- `&`, `&-suffix`
  | sel (k : PName) (arg : List (List Simple × List (Rel × List Simple)))
  deriving Repr, Inhabited

abbrev Compound := List Simple
abbrev RSteps := List (Rel × Compound)
/-- right-to-left normal form: target compound, then steps leftwards -/
abbrev RComplex := Compound × RSteps

/-! ### equality (hand-written: `deriving DecidableEq` does not handle nested inductives) -/
mutual
def Simple.beq : Simple → Simple → Bool
  | .univ, .univ => true
  | .type a, .type b => a == b
  | .cls a, .cls b => a == b
  | .id a, .id b => a == b
  | .attr a v, .attr b w => a == b && v == w
  | .pclass a, .pclass b => a == b
  | .pelem a, .pelem b => a == b
  | .placeholder a, .placeholder b => a == b
  | .parent a, .parent b => a == b
  | .sel k a, .sel k' b => k == k' && beqRL a b
  | _, _ => false
def beqSL : List Simple → List Simple → Bool
  | [], [] => true
  | a :: as, b :: bs => Simple.beq a b && beqSL as bs
  | _, _ => false
def beqSteps : List (Rel × List Simple) → List (Rel × List Simple) → Bool
  | [], [] => true
  | (c, a) :: as, (d, b) :: bs => c == d && beqSL a b && beqSteps as bs
  | _, _ => false
def beqRL : List (List Simple × List (Rel × List Simple)) → List (List Simple × List (Rel × List Simple)) → Bool
  | [], [] => true
  | (t, r) :: as, (t', r') :: bs => beqSL t t' && beqSteps r r' && beqRL as bs
  | _, _ => false
end

mutual
theorem Simple.beq_iff : ∀ (a b : Simple), Simple.beq a b = true ↔ a = b
  | .univ, b => by cases b <;> simp [Simple.beq]
  | .type a, b => by cases b <;> simp [Simple.beq]
  | .cls a, b => by cases b <;> simp [Simple.beq]
  | .id a, b => by cases b <;> simp [Simple.beq]
  | .attr a v, b => by cases b <;> simp [Simple.beq]
  | .pclass a, b => by cases b <;> simp [Simple.beq]
  | .pelem a, b => by cases b <;> simp [Simple.beq]
  | .placeholder a, b => by cases b <;> simp [Simple.beq]
  | .parent a, b => by cases b <;> simp [Simple.beq]
  | .sel k a, b => by
    cases b <;> simp [Simple.beq]
    rename_i k' b
    intro _; exact beqRL_iff a b
theorem beqSL_iff : ∀ (a b : List Simple), beqSL a b = true ↔ a = b
  | [], b => by cases b <;> simp [beqSL]
  | a :: as, b => by
    cases b with
    | nil => simp [beqSL]
    | cons b bs => simp [beqSL, Simple.beq_iff a b, beqSL_iff as bs]
theorem beqSteps_iff : ∀ (a b : List (Rel × List Simple)), beqSteps a b = true ↔ a = b
  | [], b => by cases b <;> simp [beqSteps]
  | (c, a) :: as, b => by
    cases b with
    | nil => simp [beqSteps]
    | cons b bs =>
      obtain ⟨d, b⟩ := b
      simp [beqSteps, beqSL_iff a b, beqSteps_iff as bs, and_assoc]
theorem beqRL_iff : ∀ (a b : List (List Simple × List (Rel × List Simple))), beqRL a b = true ↔ a = b
  | [], b => by cases b <;> simp [beqRL]
  | (t, r) :: as, b => by
    cases b with
    | nil => simp [beqRL]
    | cons b bs =>
      obtain ⟨t', r'⟩ := b
      simp [beqRL, beqSL_iff t t', beqSteps_iff r r', beqRL_iff as bs, and_assoc]
end

instance : DecidableEq Simple := fun a b =>
  if h : Simple.beq a b = true then isTrue ((Simple.beq_iff a b).1 h)
  else isFalse (fun e => h ((Simple.beq_iff a b).2 e))

/-! ### element contexts (DESIGN Appendix C) -/

structure Elem where
  type    : Name
  id      : Option Name
  classes : List Name
  attrs   : List (Name × Name)
  flags   : List Name          -- opaque pseudo-classes that hold of the element
  pe      : Option Name        -- which pseudo-element of its originating element this is
  deriving DecidableEq, Repr, Inhabited

/-- an element together with its preceding siblings (nearest first) -/
structure Level where
  el   : Elem
  sibs : List Elem
  deriving DecidableEq, Repr, Inhabited

/-- all that matching can see: the element's level and the levels of its ancestors (nearest first) -/
structure Ctx where
  cur : Level
  anc : List Level
  deriving DecidableEq, Repr, Inhabited

/-- `[(l[k], l.drop (k+1))]` for every `k` -/
def splits {α : Type} : List α → List (α × List α)
  | [] => []
  | x :: xs => (x, xs) :: splits xs

/-- the contexts reachable from `p` going leftwards over one combinator -/
def steps : Rel → Ctx → List Ctx
  | .child, p => match p.anc with
    | [] => []
    | l :: anc => [⟨l, anc⟩]
  | .desc, p => (splits p.anc).map fun (l, anc) => ⟨l, anc⟩
  | .next, p => match p.cur.sibs with
    | [] => []
    | s :: ss => [⟨⟨s, ss⟩, p.anc⟩]
  | .later, p => (splits p.cur.sibs).map fun (s, ss) => ⟨⟨s, ss⟩, p.anc⟩

def lookupAttr (n : Name) : List (Name × Name) → Option Name
  | [] => none
  | (k, v) :: rest => if k = n then some v else lookupAttr n rest

def notMark (c : Char) : Bool := c != '\x01'

def lowerName (n : Name) : Name := n.map Char.toLower

/-! #### attribute operators (attribute.rs:223 `AttributeOp`, round 3)

  The model keeps the three fields `value`, `modifier`, `op` of grass's `Attribute` (attribute.rs:15)
  in the one name `v` of `.attr n (some v)`:  `value`, then — only when there is a modifier or an
  operator other than `=` — U+0001, the modifier letter (or nothing), and — only for an operator other
  than `=` — U+0002 and the operator's first character (`~ | ^ $ *`).  `[t=v]` is `"v"`, `[t=v i]` is
  `"v\x01i"` (as before), `[t^=v]` is `"v\x01\x02^"`, `[t~="a b" s]` is `"a b\x01s\x02~"`.
  Values never contain U+0001/U+0002 (the parser rejects them), so the encoding is injective and
  `Attribute::eq` (attr, value, modifier, op — attribute.rs:23) is equality of `(n, v)`. -/

def notMark2 (c : Char) : Bool := c != '\x02'

/-- `AttributeOp` without `Any` (`[t]` is `.attr n none`) -/
inductive AttrOp where
  | eq | incl | dash | pre | suf | sub
  deriving DecidableEq, Repr, Inhabited

/-- attribute.rs:95 `attribute_operator`: the character before `=` -/
def attrOpOfChar (c : Char) : Option AttrOp :=
  if c == '~' then some .incl else if c == '|' then some .dash else if c == '^' then some .pre
  else if c == '$' then some .suf else if c == '*' then some .sub else none

/-- attribute.rs:262 `From<AttributeOp> for &str` -/
def AttrOp.text : AttrOp → List Char
  | .eq => ['='] | .incl => ['~', '='] | .dash => ['|', '='] | .pre => ['^', '=']
  | .suf => ['$', '='] | .sub => ['*', '=']

def attrVal (v : Name) : Name := v.takeWhile notMark
def attrTail (v : Name) : Name := (v.dropWhile notMark).drop 1
def attrMod (v : Name) : Name := (attrTail v).takeWhile notMark2
/-- `none`: not an encoding the parser produces -/
def attrOp (v : Name) : Option AttrOp :=
  match ((attrTail v).dropWhile notMark2).drop 1 with
  | [] => some .eq
  | [c] => attrOpOfChar c
  | _ => none

/-- the encoding described above -/
def attrEnc (val : Name) (md op : Option Char) : Name :=
  val ++ match md, op with
    | none, none => []
    | some m, none => ['\x01', m]
    | none, some o => ['\x01', '\x02', o]
    | some m, some o => ['\x01', m, '\x02', o]

def isWsC (c : Char) : Bool := c == ' ' || c == '\n' || c == '\t' || c == '\r' || c == '\x0c'

/-- whitespace-separated words of an attribute value (Selectors 4 §6.1 `~=`) -/
def wordsOf : Name → List Name
  | [] => [[]]
  | c :: cs =>
    match wordsOf cs with
    | [] => [[]]
    | h :: t => if isWsC c then [] :: h :: t else (c :: h) :: t

def isInfixOfC (a : Name) : Name → Bool
  | [] => a.isEmpty
  | c :: cs => a.isPrefixOf (c :: cs) || isInfixOfC a cs

/-- Selectors 4 §6.1/§6.2: does the element's attribute value `b` satisfy operator `op` with the
    selector's value `a`?  (`~=` with an empty value or one containing whitespace, and `^= $= *=`
    with an empty value, represent nothing.) -/
def attrOpMatch (op : AttrOp) (a b : Name) : Bool :=
  match op with
  | .eq => a == b
  | .incl => !a.isEmpty && !a.any isWsC && (wordsOf b).contains a
  | .dash => a == b || (a ++ ['-']).isPrefixOf b
  | .pre => !a.isEmpty && a.isPrefixOf b
  | .suf => !a.isEmpty && a.isSuffixOf b
  | .sub => !a.isEmpty && isInfixOfC a b

/-- Does the element's attribute value `w` satisfy `[n op v]`?  `v` carries the selector's value,
    modifier and operator (encoding above; attribute.rs:139): modifier `i` compares ASCII
    case-insensitively (Selectors 4 §6.3), `s` or no modifier exactly.  For a `v` without U+0002 this
    is the round-2 definition (`=` only). -/
def attrValMatch (v w : Name) : Bool :=
  let val := attrVal v
  let md := attrMod v
  let fold := md = ['i'] || md = ['I']
  match attrOp v with
  | some op => attrOpMatch op (if fold then lowerName val else val) (if fold then lowerName w else w)
  | none => false

/-! ### matching semantics (CSS Selectors 4 restricted to the alphabet) -/
mutual
def mSimple : Simple → Ctx → Bool
  | .univ, _ => true
  | .type n, p => decide (p.cur.el.type = n)
  | .cls n, p => p.cur.el.classes.contains n
  | .id n, p => decide (p.cur.el.id = some n)
  | .attr n none, p => (lookupAttr n p.cur.el.attrs).isSome
  | .attr n (some v), p =>
    match lookupAttr n p.cur.el.attrs with
    | some w => attrValMatch v w
    | none => false
  | .pclass n, p => p.cur.el.flags.contains n
  | .pelem n, p => decide (p.cur.el.pe = some n)
  | .placeholder _, _ => false
  | .parent _, _ => false
  | .sel k arg, p =>
    match k with
    | .not => !(mArgs arg p)
    | _ => mArgs arg p
def mArgs : List (List Simple × List (Rel × List Simple)) → Ctx → Bool
  | [], _ => false
  | (t, rest) :: cs, p => (mComp t p && mSteps rest p) || mArgs cs p
def mSteps : List (Rel × List Simple) → Ctx → Bool
  | [], _ => true
  | (r, c) :: rest, p => (steps r p).any fun q => mComp c q && mSteps rest q
def mComp : List Simple → Ctx → Bool
  | [], _ => true
  | s :: ss, p => mSimple s p && mComp ss p
end

def mRC (r : RComplex) (p : Ctx) : Bool := mComp r.1 p && mSteps r.2 p

/-! ### top-level selectors in grass's shape -/

inductive Component where
  | comb (c : Comb)
  | compound (c : Compound)
  deriving DecidableEq, Repr, Inhabited

abbrev Complex := List Component
abbrev SelList := List Complex

/-- forward normal form: first compound, then (relation, compound) steps rightwards;
    `none` for leading/trailing/doubled combinators -/
def fwd : Complex → Option (Compound × List (Rel × Compound))
  | [] => none
  | [.compound c] => some (c, [])
  | .compound c :: .comb cb :: rest =>
    match fwd rest with
    | some (d, ds) => some (c, (cb.rel, d) :: ds)
    | none => none
  | .compound c :: .compound d :: rest =>
    match fwd (.compound d :: rest) with
    | some (d', ds) => some (c, (.desc, d') :: ds)
    | none => none
  | .comb _ :: _ => none

def revGo : Compound → RSteps → List (Rel × Compound) → RComplex
  | h, acc, [] => (h, acc)
  | h, acc, (r, c) :: rest => revGo c ((r, h) :: acc) rest

def norm (X : Complex) : Option RComplex :=
  match fwd X with
  | some (c, st) => some (revGo c [] st)
  | none => none

/-- `matches : Complex → Ctx → Bool` — the formal matching semantics the theorems are about -/
def matchesComplex (X : Complex) (p : Ctx) : Bool :=
  match norm X with
  | some r => mRC r p
  | none => false

def matchesList (L : SelList) (p : Ctx) : Bool := L.any (matchesComplex · p)

def relComps : Rel → List Component
  | .desc => [] | .child => [.comb .child] | .next => [.comb .next] | .later => [.comb .later]

/-- back from the normal form to grass's component vector -/
def stepsToComps : RSteps → Complex → Complex
  | [], acc => acc
  | (r, c) :: rest, acc => stepsToComps rest (.compound c :: relComps r ++ acc)

def RComplex.toComps (r : RComplex) : Complex := stepsToComps r.2 [.compound r.1]


/-! ### specificity (simple.rs:99–119, 615; compound.rs:55; complex.rs:111–129)

  Base 1000.  Note: `ComplexSelector::max_specificity` returns `specificity().min` and
  `min_specificity` returns `.max` (complex.rs:111/115, names swapped); `Pseudo::specificity`
  folds over those swapped accessors.  The model keeps that (pairs are `(min, max)`). -/
def BASE : Nat := 1000

mutual
def specS : Simple → Nat × Nat
  | .univ => (0, 0)
  | .type _ => (1, 1)
  | .id _ => (BASE * BASE, BASE * BASE)
  | .pelem _ => (1, 1)
  | .sel k arg =>
    match k with
    | .not => specArgsNot arg
    | _ => specArgsIs arg
  | _ => (BASE, BASE)
/-- `:not`: min = max over complexes of `complex.min_specificity()` (= its `.max`), max likewise of `.min` -/
def specArgsNot : List (List Simple × List (Rel × List Simple)) → Nat × Nat
  | [] => (0, 0)
  | (t, rest) :: cs =>
    let a := specC t; let b := specSt rest; let r := specArgsNot cs
    (Nat.max r.1 (a.2 + b.2), Nat.max r.2 (a.1 + b.1))
def specArgsIs : List (List Simple × List (Rel × List Simple)) → Nat × Nat
  | [] => (BASE * BASE * BASE, 0)
  | (t, rest) :: cs =>
    let a := specC t; let b := specSt rest; let r := specArgsIs cs
    (Nat.min r.1 (a.2 + b.2), Nat.max r.2 (a.1 + b.1))
def specSt : List (Rel × List Simple) → Nat × Nat
  | [] => (0, 0)
  | (_, c) :: rest => let a := specC c; let r := specSt rest; (a.1 + r.1, a.2 + r.2)
def specC : List Simple → Nat × Nat
  | [] => (0, 0)
  | s :: ss => let a := specS s; let r := specC ss; (a.1 + r.1, a.2 + r.2)
end

def specComplex : Complex → Nat × Nat
  | [] => (0, 0)
  | .comb _ :: rest => specComplex rest
  | .compound c :: rest => let a := specC c; let r := specComplex rest; (a.1 + r.1, a.2 + r.2)

/-- `ComplexSelector::max_specificity` as written (returns the minimum) -/
def Complex.maxSpecificity (c : Complex) : Nat := (specComplex c).1
/-- `ComplexSelector::min_specificity` as written (returns the maximum) -/
def Complex.minSpecificity (c : Complex) : Nat := (specComplex c).2

/-! ### invisibility (simple.rs:121, compound.rs:65, complex.rs:131, list.rs:69) -/
mutual
def invisS : Simple → Bool
  | .placeholder _ => true
  | .sel k arg =>
    match k with
    | .not => false
    | _ => invisArgs arg
  | _ => false
/-- `SelectorList::is_invisible`: every complex is invisible -/
def invisArgs : List (List Simple × List (Rel × List Simple)) → Bool
  | [] => true
  | (t, rest) :: cs => (invisC t || invisSt rest) && invisArgs cs
def invisSt : List (Rel × List Simple) → Bool
  | [] => false
  | (_, c) :: rest => invisC c || invisSt rest
def invisC : List Simple → Bool
  | [] => false
  | s :: ss => invisS s || invisC ss
end

def Component.isInvisible : Component → Bool
  | .comb _ => false
  | .compound c => invisC c
def Complex.isInvisible (c : Complex) : Bool := c.any Component.isInvisible
def SelList.isInvisible (l : SelList) : Bool := l.all Complex.isInvisible

def Simple.isSel : Simple → Bool | .sel _ _ => true | _ => false
def Simple.isPseudo : Simple → Bool | .sel _ _ => true | .pclass _ => true | .pelem _ => true | _ => false
def Simple.isPelem : Simple → Bool | .pelem _ => true | _ => false
def Simple.isUniv : Simple → Bool | .univ => true | _ => false
def Simple.isType : Simple → Bool | .type _ => true | _ => false
def Simple.isId : Simple → Bool | .id _ => true | _ => false
def Simple.isParent : Simple → Bool | .parent _ => true | _ => false
def Simple.isPlaceholder : Simple → Bool | .placeholder _ => true | _ => false

/-- no selector pseudo (`:not(..)`, `:is(..)` …) among the simples -/
def noSelC (c : Compound) : Bool := c.all (fun s => !s.isSel)
def noSelX (x : Complex) : Bool := x.all fun | .comb _ => true | .compound c => noSelC c
def noSelL (l : SelList) : Bool := l.all noSelX

/-! ### superselector (complex.rs:141, compound.rs:69, simple.rs:359, 493) -/

/-- `SimpleSelector::is_super_selector_of_compound` (simple.rs:359) -/
def simpleSuperOfCompound (s : Simple) (B : Compound) : Bool :=
  B.any fun t =>
    decide (s = t) ||
    match t with
    | .sel k arg =>
      (k != .not) && arg.all (fun r => r.2.isEmpty && r.1.contains s)
    | _ => false

def lastIsComb (x : Complex) : Bool :=
  match x.getLast? with
  | some (.comb _) => true
  | _ => false

/-- `(compound, sibling combinator)*` — the skipped components are all siblings (proof-side reading
    of `sibWindows` on well-formed selectors) -/
def sibChain : Complex → Bool
  | [] => true
  | .compound _ :: .comb c :: rest => c != .child && sibChain rest
  | _ => false

def okSkip : Option Rel → Complex → Bool
  | none, _ => true
  | some .desc, _ => true
  | some .child, sk => sk.isEmpty
  | some .next, sk => sk.isEmpty
  | some .later, sk => sibChain sk

/-- `matched.windows(2).all(..)` of `compatible_with_previous_combinator` (complex.rs:307): a
    combinator in second position must be `+`/`~`, a compound after a combinator is fine, two
    adjacent compounds (descendant) are not -/
def sibWindows : Complex → Bool
  | _ :: .comb c :: rest => c != .child && sibWindows (.comb c :: rest)
  | .comb _ :: .compound d :: rest => sibWindows (.compound d :: rest)
  | .compound _ :: .compound _ :: _ => false
  | _ => true

/-- `compatible_with_previous_combinator` (complex.rs:289, added by the fix for C11-S1; dart-sass's
    `_compatibleWithPreviousCombinator`).  `matched` = the skipped components followed by the
    compound finally matched.  After a descendant step the code passes `None`; the model keeps
    `some .desc`, for which the answer is the same. -/
def compatPrev : Option Rel → Complex → Bool
  | none, _ => true
  | some .desc, _ => true
  | some .child, m => decide (m.length ≤ 1)
  | some .next, m => decide (m.length ≤ 1)
  | some .later, m => decide (m.length ≤ 1) || sibWindows m

/-- complex.rs:221–227: `~` in the superselector accepts `~` or `+` in the subselector, otherwise
    the combinators must be equal -/
def combClash (cb1 cb2 : Comb) : Bool :=
  if cb1 = .later then decide (cb2 = .child) else decide (cb1 ≠ cb2)

/-- inner `while` of complex.rs:184–206: first compound of `b` (not its last component) that
    `c1` is a superselector of; returns (skipped components, that compound, what follows it) -/
def scan (sup : Compound → Compound → Complex → Bool) (c1 : Compound) :
    Complex → Complex → Option (Complex × Compound × Complex)
  | _, [] => none
  | sk, y :: tl =>
    match tl with
    | [] => none
    | _ :: _ =>
      match y with
      | .compound d =>
        if sup c1 d (sk.drop 1) then some (sk, d, tl) else scan sup c1 (sk ++ [.compound d]) tl
      | .comb c => scan sup c1 (sk ++ [.comb c]) tl

/-- The index walk of `ComplexSelector::is_super_selector` (complex.rs:149–247) on the suffixes
    `a = self[i1..]`, `b = other[i2..]`.  `prev` is the combinator of `self` before `a`.
    `asFound = false` is the code as it stands (with `compatPrev`, fix 75edc67);
    `asFound = true` is the walk found on the pinned tree, without that check (finding C11-S1). -/
def walk (asFound : Bool) (sup : Compound → Compound → Complex → Bool)
    (prev : Option Rel) (a b : Complex) : Bool :=
  match a with
  | [] => false
  | .comb _ :: _ => false
  | [.compound c1] =>
    match b with
    | .compound _ :: _ =>
      match b.getLast? with
      | some (.compound d) => sup c1 d b.dropLast
      | _ => false
    | _ => false
  | .compound c1 :: .comb cb1 :: a' =>
    if a'.length + 2 > b.length then false else
    match b with
    | .compound _ :: _ =>
      match scan sup c1 [] b with
      | none => false
      | some (sk, d, brest) =>
        if !(asFound || compatPrev prev (sk ++ [.compound d])) then false else
        match brest with
        | .comb cb2 :: brest' =>
          if combClash cb1 cb2 then false
          else if a'.length + 2 == 3 && b.length > 3 then false
          else walk asFound sup (some cb1.rel) a' brest'
        | _ => false
    | _ => false
  | .compound c1 :: .compound c2 :: a'' =>
    if a''.length + 2 > b.length then false else
    match b with
    | .compound _ :: _ =>
      match scan sup c1 [] b with
      | none => false
      | some (sk, d, brest) =>
        if !(asFound || compatPrev prev (sk ++ [.compound d])) then false else
        match brest with
        | .comb cb2 :: brest' =>
          if cb2 ≠ .child then false else walk asFound sup (some .desc) (.compound c2 :: a'') brest'
        | _ => walk asFound sup (some .desc) (.compound c2 :: a'') brest
    | _ => false
termination_by structural a

/-- compound superselector without selector pseudos on the left (compound.rs:69 with the
    `Pseudo{selector: Some}` arm never taken) -/
def superCompound0 (A B : Compound) : Bool :=
  A.all (fun s => simpleSuperOfCompound s B) &&
  B.all (fun t => match t with | .pelem _ => simpleSuperOfCompound t A | _ => true)

mutual
/-- `CompoundSelector::is_super_selector` (compound.rs:69) -/
def superCompound : Nat → Bool → Compound → Compound → Complex → Bool
  | 0, _, _, _, _ => false
  | f + 1, af, A, B, ps =>
    A.all (fun s =>
      match s with
      | .sel k arg => superPseudo f af k arg B ps
      | _ => simpleSuperOfCompound s B) &&
    B.all (fun t => match t with | .pelem _ => simpleSuperOfCompound t A | _ => true)
/-- `Pseudo::is_super_selector` (simple.rs:493) for `not` and the `is` family -/
def superPseudo : Nat → Bool → PName → List RComplex → Compound → Complex → Bool
  | 0, _, _, _, _, _ => false
  | f + 1, af, k, arg, B, ps =>
    match k with
    | .not =>
      arg.all fun complex =>
        B.any fun t =>
          match t with
          | .type _ => complex.1.any (fun s1 => s1.isType && decide (s1 ≠ t))
          | .id _ => complex.1.any (fun s1 => s1.isId && decide (s1 ≠ t))
          | .sel k2 arg2 =>
            (k2 == .not) && superList f af (arg2.map RComplex.toComps) [complex.toComps]
          | _ => false
    | _ =>
      (B.any fun t =>
        match t with
        | .sel k2 arg2 =>
          (k2 == k) && superList f af (arg.map RComplex.toComps) (arg2.map RComplex.toComps)
        | _ => false) ||
      arg.any fun c1 => superComplex f af c1.toComps (ps ++ [.compound B])
/-- `SelectorList::is_superselector` (list.rs:254) -/
def superList : Nat → Bool → SelList → SelList → Bool
  | 0, _, _, _ => false
  | f + 1, af, L1, L2 => L2.all fun c1 => L1.any fun c2 => superComplex f af c2 c1
/-- `ComplexSelector::is_super_selector` (complex.rs:141) -/
def superComplex : Nat → Bool → Complex → Complex → Bool
  | 0, _, _, _ => false
  | f + 1, af, A, B =>
    if lastIsComb A || lastIsComb B then false
    else walk af (fun c d ps => superCompound f af c d ps) none A B
end

def sizeC (c : Compound) : Nat := c.length + 1
def sizeX (x : Complex) : Nat := x.foldl (fun n cp => n + match cp with | .comb _ => 1 | .compound c => sizeC c) 1

/-- the walk on selectors without selector pseudos on the left needs no fuel -/
def isSuperComplex0 (asFound : Bool) (A B : Complex) : Bool :=
  if lastIsComb A || lastIsComb B then false
  else walk asFound (fun c d _ => superCompound0 c d) none A B

def isSuperList0 (asFound : Bool) (L1 L2 : SelList) : Bool :=
  L2.all fun c1 => L1.any fun c2 => isSuperComplex0 asFound c2 c1

/-! ### unification (simple.rs:174–357, compound.rs:214) -/

/-- `unify_universal_and_element` without namespaces (simple.rs:252) -/
def unifyUnivAndElement (s other : Simple) : Option Simple :=
  match s, other with
  | .univ, .univ => some .univ
  | .univ, .type b => some (.type b)
  | .type a, .univ => some (.type a)
  | .type a, .type b => if a = b then some (.type a) else none
  | _, _ => none

def insertBeforePseudo (s : Simple) : Compound → Bool → Compound
  | [], added => if added then [] else [s]
  | t :: rest, added =>
    if !added && t.isPseudo then s :: t :: insertBeforePseudo s rest true
    else t :: insertBeforePseudo s rest added

/-- loop of `unify_pseudo` (simple.rs:330): `s` is pushed before *every* pseudo-element of the
    compound (there is no `!added_self` test), `none` when `s` itself is a pseudo-element -/
def pseudoLoop (s : Simple) : Compound → Bool → Option Compound
  | [], added => some (if added then [] else [s])
  | t :: rest, added =>
    if t.isPelem then
      if s.isPelem then none
      else (pseudoLoop s rest true).map (fun r => s :: t :: r)
    else (pseudoLoop s rest added).map (fun r => t :: r)

def unifyUniversal (s : Simple) (comp : Compound) : Option Compound :=
  match comp with
  | [] => none      -- `compound[0]` would panic; never reached (compounds are non-empty)
  | h :: tl =>
    if h.isUniv || h.isType then (unifyUnivAndElement s h).map (· :: tl)
    else some comp

def unifyType (s : Simple) (comp : Compound) : Option Compound :=
  match comp with
  | [] => none
  | h :: tl =>
    if h.isUniv || h.isType then (unifyUnivAndElement s h).map (· :: tl)
    else some (s :: comp)

def unifyDefault (s : Simple) (comp : Compound) : Option Compound :=
  match comp with
  | [.univ] => some [s]          -- `compound.swap_remove(0).unify(vec![self])` → unify_universal → `[self]`
  | _ => if comp.contains s then some comp else some (insertBeforePseudo s comp false)

def unifyPseudo (s : Simple) (comp : Compound) : Option Compound :=
  match comp with
  | [.univ] => some [s]
  | _ => if comp.contains s then some comp else pseudoLoop s comp false

/-- `SimpleSelector::unify` (simple.rs:174) -/
def unifySimple (s : Simple) (comp : Compound) : Option Compound :=
  match s with
  | .type _ => unifyType s comp
  | .univ => unifyUniversal s comp
  | .pclass _ => unifyPseudo s comp
  | .pelem _ => unifyPseudo s comp
  | .sel _ _ => unifyPseudo s comp
  | .id _ => if comp.any (fun t => t.isId && decide (t ≠ s)) then none else unifyDefault s comp
  | _ => unifyDefault s comp

/-- `CompoundSelector::unify(self = A, other = B)` (compound.rs:214) -/
def unifyCompound : Compound → Compound → Option Compound
  | [], B => some B
  | s :: A, B =>
    match unifySimple s B with
    | some B' => unifyCompound A B'
    | none => none


/-! ### parent selector resolution (list.rs:157, compound.rs:109) — shared with nested rules -/

inductive RErr where
  | topLevelParent        -- "Top-level selectors may not contain the parent selector"
  | parentIncompatible    -- parent ends in a combinator
  | invalidSuffix         -- `add_suffix` on a selector that cannot take one
  | cantAppend            -- selector-append on `*` / a leading combinator
  | unsupported           -- outside the model (`&` inside a selector pseudo)
  deriving DecidableEq, Repr, Inhabited

mutual
def parentInS : Simple → Bool
  | .parent _ => true
  | .sel _ arg => parentInArgs arg
  | _ => false
def parentInArgs : List (List Simple × List (Rel × List Simple)) → Bool
  | [] => false
  | (t, rest) :: cs => parentInC t || parentInSt rest || parentInArgs cs
def parentInSt : List (Rel × List Simple) → Bool
  | [] => false
  | (_, c) :: rest => parentInC c || parentInSt rest
def parentInC : List Simple → Bool
  | [] => false
  | s :: ss => parentInS s || parentInC ss
end

def Complex.containsParent (x : Complex) : Bool :=
  x.any fun | .comb _ => false | .compound c => parentInC c
def SelList.containsParent (l : SelList) : Bool := l.any Complex.containsParent

/-- `&` inside a selector-pseudo argument: not modelled -/
def parentInPseudoArg (c : Compound) : Bool :=
  c.any fun | .sel _ arg => parentInArgs arg | _ => false

/-- `SimpleSelector::add_suffix` (simple.rs:136) -/
def addSuffix (s : Simple) (suffix : Name) : Except RErr Simple :=
  match s with
  | .type n => .ok (.type (n ++ suffix))
  | .placeholder n => .ok (.placeholder (n ++ suffix))
  | .id n => .ok (.id (n ++ suffix))
  | .cls n => .ok (.cls (n ++ suffix))
  -- a pseudo with an argument (`Pseudo{argument: Some(..)}`, kept as the opaque name `name(arg)`) takes no suffix
  | .pclass n => if n.contains '(' then .error .invalidSuffix else .ok (.pclass (n ++ suffix))
  | .pelem n => if n.contains '(' then .error .invalidSuffix else .ok (.pelem (n ++ suffix))
  | _ => .error .invalidSuffix

/-- one parent complex with the compound `& suffix? rest` attached to its last compound -/
def attachToParent (suffix : Option Name) (rest : Compound) (pc : Complex) : Except RErr Complex :=
  match pc.getLast? with
  | some (.compound last) =>
    match suffix with
    | none => .ok (pc.dropLast ++ [.compound (last ++ rest)])
    | some sfx =>
      match last.getLast? with
      | some e =>
        match addSuffix e sfx with
        | .ok e' => .ok (pc.dropLast ++ [.compound (last.dropLast ++ [e'] ++ rest)])
        | .error er => .error er
      | none => .error .invalidSuffix
  | _ => .error .parentIncompatible

def mapExcept {α β ε : Type} (f : α → Except ε β) : List α → Except ε (List β)
  | [] => .ok []
  | x :: xs =>
    match f x with
    | .error e => .error e
    | .ok y =>
      match mapExcept f xs with
      | .error e => .error e
      | .ok ys => .ok (y :: ys)

/-- `CompoundSelector::resolve_parent_selectors` (compound.rs:109): `ok none` = no `&` here -/
def resolveCompound (c : Compound) (parent : SelList) : Except RErr (Option (List Complex)) :=
  if parentInPseudoArg c then .error .unsupported else
  match c with
  | .parent suffix :: rest =>
    if rest.isEmpty && suffix.isNone then .ok (some parent)
    else
      match mapExcept (attachToParent suffix rest) parent with
      | .ok l => .ok (some l)
      | .error e => .error e
  | _ => .ok none

/-- body of the `for component in complex.components` loop (list.rs:204–237) -/
def resolveComponents (parent : SelList) : Complex → List Complex → Except RErr (List Complex)
  | [], acc => .ok acc
  | .comb cb :: rest, acc => resolveComponents parent rest (acc.map (· ++ [.comb cb]))
  | .compound c :: rest, acc =>
    match resolveCompound c parent with
    | .error e => .error e
    | .ok none => resolveComponents parent rest (acc.map (· ++ [.compound c]))
    | .ok (some resolved) =>
      resolveComponents parent rest (acc.flatMap fun nc => resolved.map fun rc => nc ++ rc)

def resolveComplex (parent : SelList) (implicit : Bool) (x : Complex) : Except RErr (List Complex) :=
  if !x.containsParent then
    if !implicit then .ok [x] else .ok (parent.map (· ++ x))
  else resolveComponents parent x [[]]

/-- `flatten_vertically` (list.rs:263): round-robin over the queues -/
def flattenVertically {α : Type} : Nat → List (List α) → List α
  | 0, _ => []
  | f + 1, qs =>
    let qs := qs.filter (fun q => !q.isEmpty)
    if qs.isEmpty then [] else
    qs.filterMap List.head? ++ flattenVertically f (qs.map List.tail)

/-- `SelectorList::resolve_parent_selectors` (list.rs:157) -/
def resolveParent (sel : SelList) (parent : Option SelList) (implicit : Bool) : Except RErr SelList :=
  match parent with
  | none => if !sel.containsParent then .ok sel else .error .topLevelParent
  | some parent =>
    match mapExcept (resolveComplex parent implicit) sel with
    | .error e => .error e
    | .ok ls => .ok (flattenVertically ((ls.map List.length).foldl (· + ·) 1) ls)

/-- what the evaluator does for a style rule `child` nested in a rule whose selector is `parent`
    (visitor.rs: `resolve_parent_selectors(parent, implicit_parent = true)`; an empty parent
    selector — the top level — is `None`, selector/mod.rs:34) -/
def nestedRuleSelector (parent : SelList) (child : SelList) : Except RErr SelList :=
  resolveParent child (if parent.isEmpty then none else some parent) true

def nestFold : SelList → List SelList → Except RErr SelList
  | acc, [] => .ok acc
  | acc, c :: cs =>
    match nestedRuleSelector acc c with
    | .error e => .error e
    | .ok r => nestFold r cs

/-- `selector-nest($selectors...)` (builtin/functions/selector.rs:67) -/
def selectorNest (sels : List SelList) : Except RErr SelList := nestFold [] sels

/-- `CompoundSelector::prepend_parent` (compound.rs:225) -/
def prependParent : Compound → Option Compound
  | [] => none
  | .univ :: _ => none
  | .type n :: rest => some (.parent (some n) :: rest)
  | c => some (.parent none :: c)

def appendChildComplex (x : Complex) : Except RErr Complex :=
  match x with
  | .compound c :: rest =>
    match prependParent c with
    | some c' => .ok (.compound c' :: rest)
    | none => .error .cantAppend
  | _ => .error .cantAppend

def appendFold : SelList → List SelList → Except RErr SelList
  | acc, [] => .ok acc
  | acc, c :: cs =>
    match mapExcept appendChildComplex c with
    | .error e => .error e
    | .ok c' =>
      match resolveParent c' (if acc.isEmpty then none else some acc) false with
      | .error e => .error e
      | .ok r => appendFold r cs

/-- `selector-append($selectors...)` (builtin/functions/selector.rs:88) -/
def selectorAppend : List SelList → Except RErr SelList
  | [] => .error .cantAppend
  | first :: rest => appendFold first rest

/-! ### printer (Display impls: simple.rs:75, 446; compound.rs:19; complex.rs:78; list.rs:45) -/

/-- The model keeps an attribute's value and its modifier (`[t="v w" i]`, attribute.rs:139–157) in
    one opaque name: value, then U+0001 and the modifier letter.  Printed like attribute.rs:168:
    bare when the value is an identifier, double-quoted otherwise, then ` i`. -/
def isIdentStartB (c : Char) : Bool := c.isAlpha || c == '_' || c == '-'
def isIdentCharB (c : Char) : Bool := c.isAlphanum || c == '_' || c == '-'

def attrValueText (v : Name) : List Char :=
  let val := attrVal v
  let md := attrMod v
  let isId := val.all isIdentCharB && (val.head?.map isIdentStartB).getD false
  (if isId then val else '"' :: val ++ ['"']) ++ (if md.isEmpty then [] else ' ' :: md)

/-- the operator as printed (attribute.rs:172 `f.write_str(self.op.into())`) -/
def attrOpText (v : Name) : List Char :=
  match attrOp v with
  | some op => op.text
  | none => ['=']

def PName.text : PName → Name
  | .not => "not".toList | .is => "is".toList | .where_ => "where".toList
  | .matches => "matches".toList | .any => "any".toList

def relText : Rel → List Char
  | .desc => [' '] | .child => " > ".toList | .next => " + ".toList | .later => " ~ ".toList

mutual
def renderS : Simple → List Char
  | .univ => ['*']
  | .type n => n
  | .cls n => '.' :: n
  | .id n => '#' :: n
  | .attr n none => '[' :: n ++ [']']
  | .attr n (some v) => '[' :: n ++ attrOpText v ++ attrValueText v ++ [']']
  | .pclass n => ':' :: n
  | .pelem n => ':' :: ':' :: n
  | .placeholder n => '%' :: n
  | .parent none => ['&']
  | .parent (some sfx) => '&' :: sfx
  | .sel k arg => ':' :: k.text ++ '(' :: renderArgs arg ++ [')']
def renderArgs : List (List Simple × List (Rel × List Simple)) → List Char
  | [] => []
  | [(t, rest)] => renderSt rest (renderC t)
  | (t, rest) :: c :: cs => renderSt rest (renderC t) ++ ',' :: ' ' :: renderArgs (c :: cs)
def renderSt : List (Rel × List Simple) → List Char → List Char
  | [], acc => acc
  | (r, c) :: rest, acc => renderSt rest (renderC c ++ relText r ++ acc)
def renderC : List Simple → List Char
  | [] => []
  | s :: ss => renderS s ++ renderC ss
end

def renderComponent : Component → List Char
  | .comb .child => ['>'] | .comb .next => ['+'] | .comb .later => ['~']
  | .compound c => renderC c

/-- components separated by one space (complex.rs:78) -/
def renderComplex : Complex → List Char
  | [] => []
  | [c] => renderComponent c
  | c :: d :: rest => renderComponent c ++ ' ' :: renderComplex (d :: rest)

/-- complexes separated by `, ` (list.rs:45) -/
def renderList : SelList → List Char
  | [] => []
  | [x] => renderComplex x
  | x :: y :: rest => renderComplex x ++ ',' :: ' ' :: renderList (y :: rest)

/-- what reaches the CSS: invisible complexes are filtered out (list.rs:47) -/
def serialise (l : SelList) : List Char := renderList (l.filter (fun c => !c.isInvisible))

/-! ### parser for the same syntax (parse.rs:76–398 restricted to the modelled alphabet) -/

def isIdentStart (c : Char) : Bool := c.isAlpha || c == '_' || c == '-'
def isIdentChar (c : Char) : Bool := c.isAlphanum || c == '_' || c == '-'
def isWs (c : Char) : Bool := c == ' ' || c == '\n' || c == '\t' || c == '\r'

def skipWs : List Char → List Char
  | c :: cs => if isWs c then skipWs cs else c :: cs
  | [] => []

def spanIdent : List Char → Name × List Char
  | c :: cs => if isIdentChar c then let r := spanIdent cs; (c :: r.1, r.2) else ([], c :: cs)
  | [] => ([], [])

def pIdent (cs : List Char) : Option (Name × List Char) :=
  match cs with
  | c :: _ => if isIdentStart c then some (spanIdent cs) else none
  | [] => none

def pnameOf (n : Name) : Option PName :=
  if n = "not".toList then some .not else if n = "is".toList then some .is
  else if n = "where".toList then some .where_ else if n = "matches".toList then some .matches
  else if n = "any".toList then some .any else none

/-- `is_fake_pseudo_element` (parse.rs:479), lower-case only -/
def isFakePelem (n : Name) : Bool :=
  n = "after".toList || n = "before".toList || n = "first-line".toList || n = "first-letter".toList

def isSimpleStart (c : Char) : Bool := c == '[' || c == '.' || c == '#' || c == '%' || c == ':'

def spanUntilQuote (q : Char) : List Char → Option (Name × List Char)
  | [] => none
  | c :: cs =>
    if c == q then some ([], cs)
    else if c == '\\' then none
    else (spanUntilQuote q cs).map fun r => (c :: r.1, r.2)

/-- attribute.rs:95 `attribute_operator`: `=`, or one of `~ | ^ $ *` followed by `=` -/
def pAttrOp : List Char → Option (Option Char × List Char)
  | '=' :: r => some (none, r)
  | c :: '=' :: r => if (attrOpOfChar c).isSome then some (some c, r) else none
  | _ => none

/-- the value: a quoted string (no escapes in the model) or an identifier (attribute.rs:131) -/
def pAttrValue (r : List Char) : Option (Name × List Char) :=
  match r with
  | '"' :: r'' => spanUntilQuote '"' r''
  | '\'' :: r'' => spanUntilQuote '\'' r''
  | _ => pIdent r

/-- optional modifier letter, then `]` (attribute.rs:139–157) -/
def pAttrEnd (r : List Char) : Option (Option Char × List Char) :=
  match skipWs r with
  | ']' :: r3 => some (none, r3)
  | m :: r3 =>
    if m.isAlpha then
      match skipWs r3 with
      | ']' :: r4 => some (some m, r4)
      | _ => none
    else none
  | [] => none

/-- `Attribute::from_tokens` (attribute.rs:110) without namespaces: name, then `]` or operator,
    value, optional modifier, `]` -/
def pAttr (cs : List Char) : Option (Simple × List Char) :=
  match pIdent (skipWs cs) with
  | none => none
  | some (n, r) =>
    match skipWs r with
    | ']' :: r' => some (.attr n none, r')
    | r1 =>
      match pAttrOp r1 with
      | none => none
      | some (op, r') =>
        match pAttrValue (skipWs r') with
        | none => none
        | some (v, r'') =>
          if v.contains '\x01' || v.contains '\x02' then none else
          match pAttrEnd r'' with
          | some (md, r3) => some (.attr n (some (attrEnc v md op)), r3)
          | none => none

/-! #### pseudos with a non-selector argument (parse.rs:243–311, round 3)

  `:nth-child(An+B)`, `:nth-last-child(An+B)`, `:lang(en)`, `:nth-of-type(2n+1)`, `::part(x)`, unknown
  `:foo(bar)`: grass keeps `name` and the argument text (`Pseudo{argument: Some(..), selector: None}`),
  compares them by equality (simple.rs:419) and prints `:name(argument)` (simple.rs:446).  The model
  keeps the whole text `name(argument)` as the name of an opaque `.pclass` / `.pelem`, so printer,
  superselector, unification and matching (an opaque flag / pseudo-element of the element) need no new
  case.  Only canonical argument texts are accepted (letters, digits, `+ - _`, no inner whitespace;
  for `nth-child`/`nth-last-child` a well-formed `An+B` in the form `parse_a_n_plus_b` (parse.rs:403)
  prints it), so that grass's argument text is the text read.  Names that take a selector
  (parse.rs:21–34, also behind a vendor prefix) and `nth-child(.. of S)` stay `unsupported`. -/

def isArgChar (c : Char) : Bool := c.isAlphanum || c == '+' || c == '-' || c == '_'

def spanArg : List Char → Name × List Char
  | c :: cs => if isArgChar c then let r := spanArg cs; (c :: r.1, r.2) else ([], c :: cs)
  | [] => ([], [])

def isDigits (l : List Char) : Bool := !l.isEmpty && l.all Char.isDigit

/-- the texts `parse_a_n_plus_b` (parse.rs:403) returns unchanged -/
def isAnB (a : Name) : Bool :=
  a = "even".toList || a = "odd".toList ||
  (let a1 := match a with
    | '+' :: r => r
    | '-' :: r => r
    | _ => a
   let ds := a1.takeWhile Char.isDigit
   match a1.dropWhile Char.isDigit with
   | [] => !ds.isEmpty
   | 'n' :: t =>
     match t with
     | [] => true
     | '+' :: u => isDigits u
     | '-' :: u => isDigits u
     | _ => false
   | _ => false)

/-- parse.rs:21–34 `SELECTOR_PSEUDO_CLASSES` / `SELECTOR_PSEUDO_ELEMENTS` -/
def takesSelector (n : Name) : Bool :=
  (pnameOf n).isSome || n = "current".toList || n = "has".toList || n = "host".toList ||
  n = "host-context".toList || n = "slotted".toList

/-- text after `name(`: the opaque name `name(arg)` and what follows `)` -/
def pOpaqueArg (isElem : Bool) (n : Name) (r : List Char) : Option (Name × List Char) :=
  if n.head? = some '-' || takesSelector n || isFakePelem n then none else
  let sp := spanArg (skipWs r)
  if sp.1.isEmpty then none else
  match sp.2 with
  | ')' :: r' =>
    if !isElem && (n = "nth-child".toList || n = "nth-last-child".toList) && !isAnB sp.1 then none
    else some (n ++ '(' :: sp.1 ++ [')'], r')
  | _ => none

def normAll : SelList → Option (List RComplex)
  | [] => some []
  | x :: xs =>
    match norm x, normAll xs with
    | some r, some rs => some (r :: rs)
    | _, _ => none

mutual
def pSimple : Nat → List Char → Option (Simple × List Char)
  | 0, _ => none
  | f + 1, cs =>
    match cs with
    | '*' :: r => some (.univ, r)
    | '.' :: r => (pIdent r).map fun (n, r') => (.cls n, r')
    | '#' :: r => (pIdent r).map fun (n, r') => (.id n, r')
    | '%' :: r => (pIdent r).map fun (n, r') => (.placeholder n, r')
    | '[' :: r => pAttr r
    | '&' :: r => let sp := spanIdent r; some (.parent (if sp.1.isEmpty then none else some sp.1), sp.2)
    | ':' :: ':' :: r =>
      match pIdent r with
      | some (n, '(' :: r') => (pOpaqueArg true n r').map fun (m, r'') => (.pelem m, r'')
      | some (n, r') => some (.pelem n, r')
      | none => none
    | ':' :: r =>
      match pIdent r with
      | some (n, '(' :: r') =>
        match pnameOf n with
        | none => (pOpaqueArg false n r').map fun (m, r'') => (.pclass m, r'')
        | some k =>
          match pList f (skipWs r') with
          | some (l, r'') =>
            match skipWs r'', normAll l with
            | ')' :: r3, some args => some (.sel k args, r3)
            | _, _ => none
          | none => none
      | some (n, r') => if isFakePelem n then some (.pelem n, r') else some (.pclass n, r')
      | none => none
    | c :: _ => if isIdentStart c then (pIdent cs).map fun (n, r') => (.type n, r') else none
    | [] => none
def pCompoundRest : Nat → List Char → Option (Compound × List Char)
  | 0, _ => none
  | f + 1, cs =>
    match cs with
    | c :: _ =>
      if isSimpleStart c then
        match pSimple f cs with
        | some (s, r) => (pCompoundRest f r).map fun (ss, r') => (s :: ss, r')
        | none => none
      else if c == '&' || c == '*' then none
      else some ([], cs)
    | [] => some ([], [])
def pCompound : Nat → List Char → Option (Compound × List Char)
  | 0, _ => none
  | f + 1, cs =>
    match pSimple f cs with
    | some (s, r) => (pCompoundRest f r).map fun (ss, r') => (s :: ss, r')
    | none => none
def pComplexRest : Nat → List Char → Option (Complex × List Char)
  | 0, _ => none
  | f + 1, cs =>
    match skipWs cs with
    | '>' :: r => (pComplexRest f r).map fun (x, r') => (.comb .child :: x, r')
    | '+' :: r => (pComplexRest f r).map fun (x, r') => (.comb .next :: x, r')
    | '~' :: r => (pComplexRest f r).map fun (x, r') => (.comb .later :: x, r')
    | c :: r =>
      if isSimpleStart c || c == '&' || c == '*' || isIdentStart c then
        match pCompound f (c :: r) with
        | some (cp, r') => (pComplexRest f r').map fun (x, r'') => (.compound cp :: x, r'')
        | none => none
      else some ([], c :: r)
    | [] => some ([], [])
def pList : Nat → List Char → Option (SelList × List Char)
  | 0, _ => none
  | f + 1, cs =>
    match pComplexRest f cs with
    | some (x, r) =>
      if x.isEmpty then none else
      match skipWs r with
      | ',' :: r' => (pList f r').map fun (l, r'') => (x :: l, r'')
      | r' => some ([x], r')
    | none => none
end

def parseSelList (cs : List Char) : Option SelList :=
  match pList (8 * cs.length + 16) cs with
  | some (l, r) => if (skipWs r).isEmpty then some l else none
  | none => none


/-! ### the bounded context universe (DESIGN Appendix C) — driver side, not theorem-facing -/

def nm (s : String) : Name := s.toList

def neutralElem : Elem := { type := nm "c", id := none, classes := [], attrs := [], flags := [], pe := none }

/-- the element carrying exactly the features the (positive, non-nested) simples require -/
def elemOf (c : Compound) : Elem :=
  c.foldl (fun e s =>
    match s with
    | .type n => { e with type := n }
    | .cls n => if e.classes.contains n then e else { e with classes := e.classes ++ [n] }
    | .id n => { e with id := some n }
    | .attr n none => if (lookupAttr n e.attrs).isSome then e else { e with attrs := e.attrs ++ [(n, nm "v")] }
    | .attr n (some v) => { e with attrs := (n, v.takeWhile notMark) :: e.attrs.filter (fun kv => kv.1 ≠ n) }
    | .pclass n => if e.flags.contains n then e else { e with flags := e.flags ++ [n] }
    | .pelem n => { e with pe := some n }
    | _ => e) neutralElem

/-- a context under construction: lines (element, then its preceding siblings, nearest first) of the
    target level and of each ancestor; the "current position" is the last element of the last line -/
abbrev Lines := List (List Elem)

def linesToCtx : Lines → Option Ctx
  | [] => none
  | l :: ls =>
    match l with
    | [] => none
    | e :: sibs => some ⟨⟨e, sibs⟩, ls.filterMap fun | [] => none | a :: ss => some ⟨a, ss⟩⟩

def ctxToLines (p : Ctx) : Lines :=
  (p.cur.el :: p.cur.sibs) :: p.anc.map fun l => l.el :: l.sibs

def appendToLast (ls : Lines) (es : List Elem) : Lines :=
  match ls.reverse with
  | [] => [es]
  | l :: rest => (((l ++ es) :: rest).reverse)

/-- canonical minimal contexts of a normal-form complex: descendant gaps filled with 0 or 1
    neutral ancestors, `~` realised with 0 or 1 intervening siblings -/
def canonSteps : RSteps → Lines → List Lines
  | [], ls => [ls]
  | (r, c) :: rest, ls =>
    let e := elemOf c
    match r with
    | .child => canonSteps rest (ls ++ [[e]])
    | .desc => canonSteps rest (ls ++ [[e]]) ++ canonSteps rest (ls ++ [[neutralElem], [e]])
    | .next => canonSteps rest (appendToLast ls [e])
    | .later => canonSteps rest (appendToLast ls [e]) ++ canonSteps rest (appendToLast ls [neutralElem, e])

/-- alternatives of a compound: each `:is(…)`-family pseudo replaced by the target compound of one
    of its arguments (one level deep), together with that argument's own steps -/
def expandCompound (c : Compound) : List (Compound × RSteps) :=
  let plain := c.filter (fun s => !s.isSel)
  let alts : List (Compound × RSteps) := c.flatMap fun s =>
    match s with
    | .sel k arg => if k == .not then [] else arg.map fun r => (plain ++ r.1, r.2)
    | _ => []
  (plain, []) :: alts

def canonRC (r : RComplex) : List Lines :=
  (expandCompound r.1).flatMap fun (t, extra) =>
    canonSteps (if r.2.isEmpty then extra else r.2) [[elemOf t]] ++
    (if r.2.isEmpty || extra.isEmpty then [] else canonSteps extra [[elemOf t]])

mutual
def innerArgsS : Simple → List RComplex
  | .sel _ arg => arg ++ innerArgsA arg
  | _ => []
def innerArgsA : List (List Simple × List (Rel × List Simple)) → List RComplex
  | [] => []
  | (t, rest) :: cs => innerArgsC t ++ innerArgsSt rest ++ innerArgsA cs
def innerArgsSt : List (Rel × List Simple) → List RComplex
  | [] => []
  | (_, c) :: rest => innerArgsC c ++ innerArgsSt rest
def innerArgsC : List Simple → List RComplex
  | [] => []
  | s :: ss => innerArgsS s ++ innerArgsC ss
end

def canonList (l : SelList) : List Lines :=
  l.flatMap fun x =>
    match norm x with
    | some r => canonRC r ++ (innerArgsC r.1 ++ innerArgsSt r.2).flatMap canonRC
    | none => []

/-- every simple selector occurring in the list, at any depth -/
def allSimples (l : SelList) : List Simple :=
  let tops := l.flatMap fun x => x.flatMap fun | .comb _ => [] | .compound c => c
  let inner := (innerArgsC tops).flatMap fun r => r.1 ++ r.2.flatMap (·.2)
  tops ++ inner

/-- the feature-bearing simple selectors occurring anywhere in the selectors (any depth) -/
def atomsOf (l : SelList) : List Simple :=
  (allSimples l).filter fun s =>
    match s with
    | .type _ | .cls _ | .id _ | .attr _ _ | .pclass _ | .pelem _ => true
    | _ => false

def applyAtom (e : Elem) : Simple → List Elem
  | .type n => [{ e with type := n }]
  | .cls n => [{ e with classes := if e.classes.contains n then e.classes.filter (· ≠ n) else e.classes ++ [n] }]
  | .id n => [{ e with id := some n }]
  | .attr n v =>
    -- the selector's value as written and in the other letter case (for the `i` modifier)
    let val := (v.getD ['v']).takeWhile notMark
    -- for an operator other than `=`: values that have `val` as a word / dash prefix / prefix / suffix / infix
    let more : List Name :=
      if (v.map attrOp).getD (some .eq) == some .eq then []
      else [val ++ ['-', 'x'], 'x' :: ' ' :: val, val ++ ['x'], 'x' :: val, 'x' :: val ++ ['x'], 'x' :: '-' :: val,
            val.map Char.toUpper ++ ['-', 'x']]
    ([val, val.map Char.toUpper] ++ more).map fun w => { e with attrs := (n, w) :: e.attrs.filter (fun kv => kv.1 ≠ n) }
  | .pclass n => [{ e with flags := if e.flags.contains n then e.flags.filter (· ≠ n) else e.flags ++ [n] }]
  | .pelem n => [{ e with pe := some n }]
  | _ => []

def setAt {α : Type} (l : List α) (i : Nat) (x : α) : List α := l.take i ++ x :: l.drop (i + 1)
def insertAt {α : Type} (l : List α) (i : Nat) (x : α) : List α := l.take i ++ x :: l.drop i

def toggle (l : List Name) (n : Name) : List Name := if l.contains n then l.filter (· ≠ n) else l ++ [n]

/-- single-feature variants of an element over the alphabet of Appendix C -/
def elemVariants (atoms : List Simple) (e : Elem) : List Elem :=
  (atoms.flatMap (applyAtom e) ++ [ { e with type := nm "a" }, { e with type := nm "b" },
    { e with classes := toggle e.classes (nm "x") }, { e with classes := toggle e.classes (nm "y") },
    { e with id := none }, { e with id := some (nm "i") }, { e with id := some (nm "j") },
    { e with attrs := [] }, { e with attrs := [(nm "t", nm "v")] }, { e with attrs := [(nm "t", nm "w")] },
    { e with attrs := [(nm "t", nm "V")] },
    { e with flags := toggle e.flags (nm "hover") }, { e with flags := toggle e.flags (nm "focus") },
    { e with pe := none }, { e with pe := some (nm "before") }, { e with pe := some (nm "after") } ]).eraseDups.filter (· ≠ e)

def perturbLines (atoms : List Simple) (ls : Lines) : List Lines :=
  let idx := List.range ls.length
  let feature := idx.flatMap fun i =>
    let line := ls.getD i []
    (List.range line.length).flatMap fun j =>
      (elemVariants atoms (line.getD j neutralElem)).map fun e' => setAt ls i (setAt line j e')
  let insSib := idx.flatMap fun i =>
    let line := ls.getD i []
    (List.range (line.length + 1)).filterMap fun j =>
      if j == 0 then none else some (setAt ls i (insertAt line j neutralElem))
  let dropSib := idx.flatMap fun i =>
    let line := ls.getD i []
    (List.range line.length).filterMap fun j =>
      if j == 0 then none else some (setAt ls i (line.take j ++ line.drop (j + 1)))
  let insLine := (List.range (ls.length + 1)).filterMap fun i =>
    if i == 0 then none else some (insertAt ls i [neutralElem])
  let dropLine := idx.filterMap fun i => if i == 0 then none else some (ls.take i ++ ls.drop (i + 1))
  feature ++ insSib ++ dropSib ++ insLine ++ dropLine

def lcg (s : Nat) : Nat := (s * 6364136223846793005 + 1442695040888963407) % 18446744073709551616
def pick (s : Nat) (n : Nat) : Nat := (s / 4294967296) % n

def randElem (s : Nat) : Elem × Nat :=
  let s1 := lcg s; let s2 := lcg s1; let s3 := lcg s2; let s4 := lcg s3; let s5 := lcg s4; let s6 := lcg s5
  let ty := if pick s1 2 == 0 then nm "a" else nm "b"
  let cl := match pick s2 4 with | 0 => [] | 1 => [nm "x"] | 2 => [nm "y"] | _ => [nm "x", nm "y"]
  let id := match pick s3 3 with | 0 => none | 1 => some (nm "i") | _ => some (nm "j")
  let at_ := match pick s4 5 with | 0 => [] | 1 => [] | 2 => [(nm "t", nm "v")] | 3 => [(nm "t", nm "V")] | _ => [(nm "t", nm "w")]
  let fl := match pick s5 4 with | 0 => [] | 1 => [nm "hover"] | 2 => [nm "focus"] | _ => [nm "hover", nm "focus"]
  let pe := match pick s6 8 with | 0 => some (nm "before") | 1 => some (nm "after") | _ => none
  ({ type := ty, id := id, classes := cl, attrs := at_, flags := fl, pe := pe }, s6)

/-- draw from the alphabet, then (half of the time) impose up to two features of the selectors at hand -/
def randElemA (atoms : List Simple) (s : Nat) : Elem × Nat :=
  let (e, s1) := randElem s
  if atoms.isEmpty then (e, s1) else
  let s2 := lcg s1; let s3 := lcg s2; let s4 := lcg s3
  if pick s2 2 == 0 then (e, s4) else
  let e1 := ((applyAtom e (atoms.getD (pick s3 atoms.length) .univ)).headD e)
  let e2 := if pick s4 2 == 0 then e1 else ((applyAtom e1 (atoms.getD (pick s4 atoms.length) .univ)).headD e1)
  (e2, s4)

def randLine (atoms : List Simple) : Nat → Nat → List Elem × Nat
  | 0, s => ([], s)
  | n + 1, s => let (e, s') := randElemA atoms s; let (es, s'') := randLine atoms n s'; (e :: es, s'')

def randLinesN (atoms : List Simple) : Nat → Nat → Lines × Nat
  | 0, s => ([], s)
  | n + 1, s =>
    let s1 := lcg s
    let (line, s2) := randLine atoms (1 + pick s1 3) s1
    let (rest, s3) := randLinesN atoms n s2
    (line :: rest, s3)

def randCtxs (atoms : List Simple) : Nat → Nat → List Lines
  | 0, _ => []
  | n + 1, s =>
    let s1 := lcg s
    let (ls, s2) := randLinesN atoms (1 + pick s1 4) s1
    ls :: randCtxs atoms n s2

/-- every single element over the alphabet (thorough tier: complete depth-0 universe) -/
def allElems : List Elem :=
  [nm "a", nm "b"].flatMap fun ty =>
  [[], [nm "x"], [nm "y"], [nm "x", nm "y"]].flatMap fun cl =>
  [none, some (nm "i"), some (nm "j")].flatMap fun id =>
  [[], [(nm "t", nm "v")], [(nm "t", nm "w")]].flatMap fun at_ =>
  [[], [nm "hover"], [nm "focus"], [nm "hover", nm "focus"]].flatMap fun fl =>
  [none, some (nm "before"), some (nm "after")].map fun pe =>
    ({ type := ty, id := id, classes := cl, attrs := at_, flags := fl, pe := pe } : Elem)

/-- the contexts a verdict is computed over: canonical minimal contexts of the selectors involved,
    their perturbations, `nrand` pseudo-random contexts; `exh` adds every single-element context -/
def ctxUniverse (sels : List SelList) (seed nrand : Nat) (exh : Bool) : List Ctx :=
  -- caps keep the cost bounded when a selector list is large (weave output can have 100+ complexes)
  let canon := sels.flatMap fun l => (canonList l).take 24
  let atoms := ((sels.flatMap atomsOf).eraseDups).take 24
  let pert := (sels.flatMap fun l => ((canonList l).take 6).flatMap (perturbLines atoms)).take 1500
  let all := canon ++ pert ++ randCtxs atoms nrand seed ++
    (if exh then allElems.map (fun e => [[e]]) else [])
  all.filterMap linesToCtx

/-! ### text form of contexts: levels separated by `/`, elements of a level by `,`, an element is
    written as a compound selector (`a#i.x[t=v]:hover::before`) -/

def elemText (e : Elem) : List Char :=
  e.type ++ (match e.id with | some i => '#' :: i | none => []) ++
  e.classes.flatMap (fun c => '.' :: c) ++
  e.attrs.flatMap (fun (k, v) => '[' :: k ++ '=' :: attrValueText v ++ [']']) ++
  e.flags.flatMap (fun f => ':' :: f) ++
  (match e.pe with | some p => ':' :: ':' :: p | none => [])

def ctxText (p : Ctx) : List Char :=
  ['/'].intercalate ((ctxToLines p).map fun line => [','].intercalate (line.map elemText))

def splitOnC (c : Char) : List Char → List (List Char)
  | [] => [[]]
  | x :: xs =>
    match splitOnC c xs with
    | [] => [[]]
    | h :: t => if x == c then [] :: h :: t else (x :: h) :: t

def parseElem (cs : List Char) : Option Elem :=
  match pCompound (4 * cs.length + 8) cs with
  | some (c, []) => if noSelC c then some (elemOf c) else none
  | _ => none

def parseCtx (cs : List Char) : Option Ctx :=
  let lines := (splitOnC '/' cs).map fun l => (splitOnC ',' l).mapM parseElem
  match lines.mapM id with
  | some ls => linesToCtx ls
  | none => none

/-! ### driver entry points -/
open Grass.Proto

def fuelFor (ls : List SelList) : Nat := 4 * (ls.map (fun l => (renderList l).length)).foldl (· + ·) 0 + 16

def isSuperList (af : Bool) (L1 L2 : SelList) : Bool := superList (fuelFor [L1, L2]) af L1 L2

def decodeSel (h : String) : Option SelList :=
  match hexDecode h with
  | some s => parseSelList s.toList
  | none => none

def encodeChars (cs : List Char) : String := hexEncode (String.ofList cs)

def rerrStr : RErr → String
  | .topLevelParent => "top-level-parent" | .parentIncompatible => "parent-incompatible"
  | .invalidSuffix => "invalid-suffix" | .cantAppend => "cant-append" | .unsupported => "unsupported"

/-- first context of the universe on which `pred` fails; counts how many contexts satisfied `guard` -/
def firstFailing (u : List Ctx) (guard pred : Ctx → Bool) : Option Ctx × Nat :=
  u.foldl (fun (acc : Option Ctx × Nat) p =>
    match acc.1 with
    | some _ => acc
    | none => if guard p then (if pred p then (none, acc.2 + 1) else (some p, acc.2)) else acc) (none, 0)

def verdict (u : List Ctx) (guard pred : Ctx → Bool) : String :=
  match firstFailing u guard pred with
  | (some p, _) => "ok fails " ++ encodeChars (ctxText p)
  | (none, n) => s!"ok holds {u.length} {n}"

/-- single compound of a one-complex, one-component list -/
def singleCompound : SelList → Option Compound
  | [[.compound c]] => some c
  | _ => none

def singleCompounds (l : SelList) : Option (List Compound) :=
  l.mapM fun x => match x with | [.compound c] => some c | _ => none

def handle : List String → String
  | ["parse", a] =>
    match decodeSel a with
    | some l => "ok " ++ encodeChars (renderList l)
    | none => "unsupported"
  | ["eqast", a, b] =>
    match decodeSel a, decodeSel b with
    | some x, some y => "ok " ++ boolStr (decide (x = y))
    | _, _ => "unsupported"
  | ["super", af, a, b] =>
    match parseBool? af, decodeSel a, decodeSel b with
    | some af, some x, some y => "ok " ++ boolStr (isSuperList af x y) ++ " " ++ boolStr (noSelL x)
    | none, _, _ => "bad-op"
    | _, _, _ => "unsupported"
  | ["subset", a, b, seed, n, exh] =>
    -- P̂ for is-superselector: every context matched by b is matched by a
    match decodeSel a, decodeSel b, seed.toNat?, n.toNat?, parseBool? exh with
    | some x, some y, some seed, some n, some exh =>
      verdict (ctxUniverse [y, x] seed n exh) (matchesList y) (matchesList x)
    | _, _, none, _, _ => "bad-op"
    | _, _, _, none, _ => "bad-op"
    | _, _, _, _, none => "bad-op"
    | _, _, _, _, _ => "unsupported"
  | ["inter", c, a, b, seed, n, exh] =>
    -- P̂ for selector-unify: every context matched by c is matched by a and by b
    match decodeSel c, decodeSel a, decodeSel b, seed.toNat?, n.toNat?, parseBool? exh with
    | some z, some x, some y, some seed, some n, some exh =>
      verdict (ctxUniverse [z, x, y] seed n exh) (matchesList z) (fun p => matchesList x p && matchesList y p)
    | _, _, _, none, _, _ => "bad-op"
    | _, _, _, _, none, _ => "bad-op"
    | _, _, _, _, _, none => "bad-op"
    | _, _, _, _, _, _ => "unsupported"
  | ["empty-inter", a, b, seed, n, exh] =>
    -- P̂ for a `null` from selector-unify on compounds: no context matched by both
    match decodeSel a, decodeSel b, seed.toNat?, n.toNat?, parseBool? exh with
    | some x, some y, some seed, some n, some exh =>
      verdict (ctxUniverse [x, y] seed n exh) (fun _ => true) (fun p => !(matchesList x p && matchesList y p))
    | _, _, none, _, _ => "bad-op"
    | _, _, _, none, _ => "bad-op"
    | _, _, _, _, none => "bad-op"
    | _, _, _, _, _ => "unsupported"
  | ["equiv", a, b, seed, n, exh] =>
    match decodeSel a, decodeSel b, seed.toNat?, n.toNat?, parseBool? exh with
    | some x, some y, some seed, some n, some exh =>
      verdict (ctxUniverse [x, y] seed n exh) (fun p => matchesList x p || matchesList y p)
        (fun p => matchesList x p == matchesList y p)
    | _, _, none, _, _ => "bad-op"
    | _, _, _, none, _ => "bad-op"
    | _, _, _, _, none => "bad-op"
    | _, _, _, _, _ => "unsupported"
  | ["equivspec", a, b, seed, n, exh] =>
    -- same matched contexts and, on each, the same highest specificity among the matching complexes
    match decodeSel a, decodeSel b, seed.toNat?, n.toNat?, parseBool? exh with
    | some x, some y, some seed, some n, some exh =>
      let top := fun (l : SelList) (p : Ctx) =>
        (l.filter (matchesComplex · p)).foldl (fun m c => Nat.max m (specComplex c).2) 0
      verdict (ctxUniverse [x, y] seed n exh) (fun p => matchesList x p || matchesList y p)
        (fun p => matchesList x p == matchesList y p && top x p == top y p)
    | _, _, none, _, _ => "bad-op"
    | _, _, _, none, _ => "bad-op"
    | _, _, _, _, none => "bad-op"
    | _, _, _, _, _ => "unsupported"
  | ["matches", a, ctx] =>
    match decodeSel a, (hexDecode ctx).bind (fun s => parseCtx s.toList) with
    | some x, some p => "ok " ++ boolStr (matchesList x p)
    | _, _ => "unsupported"
  | ["unify", a, b] =>
    -- model of selector-unify on two single compounds: `unify_complex([a, b])` (functions.rs:13) folds
    -- the simples of the *second* operand into the compound of the first, i.e. `b.unify(a)`
    match (decodeSel a).bind singleCompound, (decodeSel b).bind singleCompound with
    | some x, some y =>
      match unifyCompound y x with
      | some c => "ok " ++ encodeChars (renderC c)
      | none => "ok null"
    | _, _ => "unsupported"
  | "nest" :: args =>
    match args.mapM decodeSel with
    | some ls =>
      match selectorNest ls with
      | .ok r => "ok " ++ encodeChars (renderList r)
      | .error .unsupported => "unsupported"
      | .error e => "err " ++ rerrStr e
    | none => "unsupported"
  | "append" :: args =>
    match args.mapM decodeSel with
    | some ls =>
      match selectorAppend ls with
      | .ok r => "ok " ++ encodeChars (renderList r)
      | .error .unsupported => "unsupported"
      | .error e => "err " ++ rerrStr e
    | none => "unsupported"
  | ["spec", a] =>
    match decodeSel a with
    | some l => "ok " ++ " ".intercalate (l.map fun x => s!"{(specComplex x).1}:{(specComplex x).2}")
    | none => "unsupported"
  | ["visible", a] =>
    match decodeSel a with
    | some l => "ok " ++ encodeChars (serialise l)
    | none => "unsupported"
  | _ => "bad-op"

end Grass.Selector
