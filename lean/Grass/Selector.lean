import Grass.Proto
/- Core `Selector` — stub; replaced by the model (see DESIGN.md §8). -/
namespace Grass.Selector

def handle : List String → String
  | _ => "bad-op"

end Grass.Selector
