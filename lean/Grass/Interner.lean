import Grass.Proto
/-
  C02 core — the state that survives a compilation, and what the compiler may do with it.

  Modelled Rust:
  * crates/compiler/src/interner.rs:6   `thread_local!(static STRINGS: RefCell<Rodeo<Spur>>)`;
    `get_or_intern` (line 12) returns the existing key of a string or appends it and returns the
    next key; `resolve`/`resolve_ref` (lines 17, 27) index the table.  Keys are handed out in
    interning order (lasso `Spur` = index + 1; only equality and order of keys are used).
  * crates/compiler/src/common.rs:119   `#[derive(Eq, PartialEq, Hash, PartialOrd, Ord, Copy)]
    struct Identifier(InternedString)` — equality, order and hash of an identifier are those of
    its KEY, so a `BTreeMap<Identifier, _>` iterates in interning order.
  * crates/compiler/src/selector/complex.rs:14  `COMPLEX_SELECTOR_UNIQUE_ID: AtomicU32`,
    `fetch_add(1, Relaxed)` at line 107 (compared only for equality: `ComplexSelectorHashSet`).
  * crates/compiler/src/builtin/functions/mod.rs:25  `FUNCTION_COUNT: AtomicUsize`,
    `fetch_add(1, Relaxed)` at line 70 (compared only for equality: `impl PartialEq for Builtin`).
  * crates/compiler/src/ast/args.rs:38-110 `ArgumentDeclaration::verify` (“No argument(s) named”),
    value/arglist.rs:12 `keywords: BTreeMap<Identifier, Value>`, utils/map_view.rs:51
    `BaseMapView(BTreeMap<Identifier, T>)`, utils/map_view.rs:262 `MergedMapView(.., HashSet<Identifier>)`,
    evaluate/visitor.rs:776 `config.first()`.
  * crates/compiler/src/builtin/functions/string.rs:240 `unique_id`: "id-" followed by 12 samples
    of `rand::distributions::Alphanumeric`.

  Strings are `String` (only `=` on them is used); keys and ids are `Nat`.
-/
namespace Grass.Interner

abbrev Str := String

/-! ### the interner (interner.rs) -/

/-- `Rodeo`: the strings in interning order; the key of a string is its index. -/
abbrev Interner := List Str

/-- Key of `s` if it is already in the table (`Rodeo::get`). -/
def find? (s : Str) : Interner → Option Nat
  | [] => none
  | t :: ts => if t = s then some 0 else (find? s ts).map (· + 1)

/-- `InternedString::get_or_intern` (interner.rs:12). -/
def intern (st : Interner) (s : Str) : Interner × Nat :=
  match find? s st with
  | some k => (st, k)
  | none => (st ++ [s], st.length)

/-- `InternedString::resolve` (interner.rs:17); `none` where lasso would panic (foreign key). -/
def resolve (st : Interner) (k : Nat) : Option Str := st[k]?

/-- `PartialEq for Identifier` (derived, common.rs:119): equality of keys. -/
def keyEq (a b : Nat) : Bool := a == b

/-- The interner state after a history of `get_or_intern` calls. -/
def internAll (st : Interner) : List Str → Interner
  | [] => st
  | s :: ss => internAll (intern st s).1 ss

/-- Representation invariant of `Rodeo`: no string is stored twice. -/
def Wf (st : Interner) : Prop := st.Nodup

/-! ### process-wide id counters (complex.rs:14, functions/mod.rs:25) -/

/-- `fetch_add(1)` on an atomic of modulus `m` (`2^32` for `AtomicU32`): returns the old value,
    wraps around. -/
def fetchAdd (m c : Nat) : Nat × Nat := ((c + 1) % m, c % m)

/-- A schedule names, for each `fetch_add` executed by the process, the thread that issued it
    (an arbitrary interleaving of the per-thread request sequences). `runSchedule` returns the
    `(thread, id)` pairs in execution order. -/
def runSchedule (m : Nat) : Nat → List Nat → List (Nat × Nat)
  | _, [] => []
  | c, t :: ts => (t, (fetchAdd m c).2) :: runSchedule m (fetchAdd m c).1 ts

/-- The ids thread `t` observes, in its program order. -/
def observed (m c : Nat) (sched : List Nat) (t : Nat) : List Nat :=
  ((runSchedule m c sched).filter (fun p => p.1 == t)).map (·.2)

/-- The ids `n` consecutive `fetch_add`s return when the counter holds `c` and nobody interferes. -/
def seqSupply (m : Nat) : Nat → Nat → List Nat
  | _, 0 => []
  | c, n + 1 => c % m :: seqSupply m (c + 1) n

/-! ### what a compilation may do with identifiers and ids

  Registers hold keys (`Identifier`s) and ids.  A program can obtain a key only by interning a
  string it computed, and an id only from the counter (`fresh`).  -/

/-- String-valued expressions: literals from the source, the text of an identifier, concatenation. -/
inductive SExpr where
  | lit (s : Str)
  | res (r : Nat)                 -- `Identifier::as_str` / `Display` of register `r`
  | cat (a b : SExpr)
  deriving Repr, Inhabited

inductive Prog where
  | halt
  | intern (e : SExpr) (k : Prog)                 -- `Identifier::from(..)`: push the key
  | emit (e : SExpr) (k : Prog)                   -- write text to the output / an error message
  | ifKeyEq (r₁ r₂ : Nat) (t e : Prog)            -- `==` on identifiers, map lookup by identifier
  /-- iterate a `BTreeMap/BTreeSet<Identifier,…>` built from registers `rs`, emitting each name.
      `byKey = true`: a container ordered by key (`BTreeMap/BTreeSet<Identifier,…>`: key order =
      interning order) — still what module member maps and `with` configurations are.
      `byKey = false`: insertion order, first occurrence wins (`IndexMap/IndexSet`: what named
      arguments and merged member views are since the fixes adef70c / d156cce). -/
  | ordered (byKey : Bool) (rs : List Nat) (k : Prog)
  /-- iterate a `HashSet<Identifier>` built from `rs`: insertion-ordered distinct members,
      rearranged by `π` (a list of positions chosen by the hasher's random state). -/
  | hashed (π : List Nat) (rs : List Nat) (k : Prog)
  | fresh (k : Prog)                               -- `fetch_add`: push the id
  | ifIdEq (i j : Nat) (t e : Prog)                -- `==` on ids
  deriving Repr, Inhabited

/-- Uses identifiers only through `keyEq`/`resolve` (and insertion-ordered iteration) and ids only
    through `idEq`: no key-ordered and no hash-ordered iteration. -/
def Prog.disciplined : Prog → Bool
  | .halt => true
  | .intern _ k => k.disciplined
  | .emit _ k => k.disciplined
  | .ifKeyEq _ _ t e => t.disciplined && e.disciplined
  | .ordered byKey _ k => !byKey && k.disciplined
  | .hashed _ _ _ => false
  | .fresh k => k.disciplined
  | .ifIdEq _ _ t e => t.disciplined && e.disciplined

def evalS (st : Interner) (regs : List Nat) : SExpr → Option Str
  | .lit s => some s
  | .res r => match regs[r]? with
    | some k => resolve st k
    | none => none
  | .cat a b => match evalS st regs a, evalS st regs b with
    | some x, some y => some (x ++ y)
    | _, _ => none

/-- Insert into a strictly ascending list (the key set of a `BTreeMap`). -/
def insertAsc (x : Nat) : List Nat → List Nat
  | [] => [x]
  | y :: ys => if x < y then x :: y :: ys else if x = y then y :: ys else y :: insertAsc x ys

/-- Keys in ascending order without duplicates: iteration order of a `BTreeSet<Identifier>`. -/
def ascending (ks : List Nat) : List Nat := ks.foldl (fun acc k => insertAsc k acc) []

/-- First occurrences, in insertion order. -/
def firstOcc [DecidableEq α] : List α → List α
  | [] => []
  | x :: xs => x :: (firstOcc xs).filter (· ≠ x)

/-- Rearrangement by a list of positions (positions outside the list are skipped). -/
def permuteBy (π : List Nat) (xs : List α) : List α := π.filterMap (xs[·]?)

/-- `mapM` in `Option`, by explicit recursion: `none` as soon as one element fails. -/
def mapOpt (f : α → Option β) : List α → Option (List β)
  | [] => some []
  | x :: xs => match f x, mapOpt f xs with
    | some y, some ys => some (y :: ys)
    | _, _ => none

def getAll (xs : List α) (rs : List Nat) : Option (List α) := mapOpt (xs[·]?) rs

/-- Run a program.  `regs` are key registers (most recent last), `ids` id registers, `supply` the
    ids this thread's `fetch_add` calls will return (determined by the counter's value and the
    other threads' interleaved calls).  `none` = stuck (bad register, exhausted supply, foreign
    key): never a default. -/
def run : Prog → Interner → List Nat → List Nat → List Nat → Option (List Str)
  | .halt, _, _, _, _ => some []
  | .intern e k, st, regs, ids, sup =>
    match evalS st regs e with
    | some s => run k (intern st s).1 (regs ++ [(intern st s).2]) ids sup
    | none => none
  | .emit e k, st, regs, ids, sup =>
    match evalS st regs e, run k st regs ids sup with
    | some s, some out => some (s :: out)
    | _, _ => none
  | .ifKeyEq r₁ r₂ t e, st, regs, ids, sup =>
    match regs[r₁]?, regs[r₂]? with
    | some a, some b => if keyEq a b then run t st regs ids sup else run e st regs ids sup
    | _, _ => none
  | .ordered byKey rs k, st, regs, ids, sup =>
    match getAll regs rs with
    | some ks =>
      match mapOpt (resolve st) (if byKey then ascending ks else firstOcc ks), run k st regs ids sup with
      | some names, some out => some (names ++ out)
      | _, _ => none
    | none => none
  | .hashed π rs k, st, regs, ids, sup =>
    match getAll regs rs with
    | some ks =>
      match mapOpt (resolve st) (permuteBy π (firstOcc ks)), run k st regs ids sup with
      | some names, some out => some (names ++ out)
      | _, _ => none
    | none => none
  | .fresh k, st, regs, ids, sup =>
    match sup with
    | i :: sup' => run k st regs (ids ++ [i]) sup'
    | [] => none
  | .ifIdEq i j t e, st, regs, ids, sup =>
    match ids[i]?, ids[j]? with
    | some a, some b => if a == b then run t st regs ids sup else run e st regs ids sup
    | _, _ => none

/-- Number of `fetch_add`s on the longest path (what the supply must cover). -/
def Prog.draws : Prog → Nat
  | .halt => 0
  | .intern _ k => k.draws
  | .emit _ k => k.draws
  | .ifKeyEq _ _ t e => max t.draws e.draws
  | .ordered _ _ k => k.draws
  | .hashed _ _ k => k.draws
  | .fresh k => k.draws + 1
  | .ifIdEq _ _ t e => max t.draws e.draws

/-- A whole compilation on a thread whose interner already holds `st`. -/
def compile (p : Prog) (st : Interner) (supply : List Nat) : Option (List Str) := run p st [] [] supply

/-! ### the places where grass iterates such containers into its output

  `callNames` are the keyword-argument names in call-site order; `declared` the parameter names of
  the callee.  Both are interned when the source is parsed, before the call is evaluated.
  For each place the `Bool`/`π` parameter selects the variant: the code as it stands NOW is
    * `keywordsProg false`, `unknownNames false` — named arguments live in an `IndexMap` (fix adef70c);
      `true` is the variant found on the pinned tree (`BTreeMap<Identifier,_>`, known finding D13 a1/a2);
    * `keywordsProg false` over the members in upstream order for a module with `@forward`
      (`IndexSet`, fix d156cce); `mergedKeysProg π` is the pinned-tree variant (`HashSet`, D13 b);
    * `moduleMembersProg true`, `configFirst true` — still key-ordered today (D13 a3/a4). -/

/-- `keywords($args)` (builtin/functions/meta.rs `keywords` → `ArgList::keywords`). -/
def keywordsProg (byKey : Bool) (callNames : List Str) : Prog :=
  let n := callNames.length
  callNames.foldr (fun s k => .intern (.lit s) k) (.ordered byKey (List.range n) .halt)

/-- “No argument(s) named …” (ast/args.rs `ArgumentDeclaration::verify`): the call's names minus the
    declared ones.  Registers: declared names first, then the call's names. -/
def unknownNames (byKey : Bool) (st : Interner) (declared callNames : List Str) : Option (List Str) :=
  let st₁ := internAll st (declared ++ callNames)
  let keyOf := fun s => find? s st₁
  match mapOpt keyOf declared, mapOpt keyOf callNames with
  | some ds, some cs =>
    let unk := cs.filter (fun k => !ds.contains k)
    mapOpt (resolve st₁) (if byKey then ascending unk else firstOcc unk)
  | _, _ => none

/-- Pinned-tree variant of the member listing of a module with `@forward`s: `MergedMapView` kept
    the union in a `HashSet<Identifier>` (utils/map_view.rs before d156cce). -/
def mergedKeysProg (π : List Nat) (names : List Str) : Prog :=
  let n := names.length
  names.foldr (fun s k => .intern (.lit s) k) (.hashed π (List.range n) .halt)

/-- `meta.module-variables()/module-functions()` of one module's own members (`declared` in source
    order): `BaseMapView` over `BTreeMap<Identifier, _>` (utils/map_view.rs:51, builtin/modules/mod.rs
    `Module::new`).  `byKey = true` is the code as it stands. -/
def moduleMembersProg (byKey : Bool) (declared : List Str) : Prog := keywordsProg byKey declared

/-- Which of several non-configurable variables of `@use … with (…)` the error reports:
    `Configuration::first` (ast/stmt.rs `first`, evaluate/visitor.rs `assert_configuration_is_empty`)
    takes the first key of a `BTreeMap<Identifier, _>`.  `byKey = true` is the code as it stands. -/
def configFirst (byKey : Bool) (st : Interner) (withNames : List Str) : Option Str :=
  match compile (keywordsProg byKey withNames) st [] with
  | some (n :: _) => some n
  | _ => none

/-! ### `unique-id()` (builtin/functions/string.rs:240) -/

def isAlnum (c : Char) : Bool := c.isAlpha || c.isDigit    -- ASCII letters and digits

def uniqueId (rnd : List Char) : List Char := 'i' :: 'd' :: '-' :: rnd

def isNameStart (c : Char) : Bool := c.isAlpha || c == '_' || c.toNat ≥ 128
def isNameChar (c : Char) : Bool := isNameStart c || c.isDigit || c == '-'

/-- CSS identifier without escapes: `-`? name-start name-char*  or  `--` name-char*. -/
def isIdent (cs : List Char) : Bool :=
  match cs with
  | [] => false
  | c :: rest =>
    if c == '-' then
      match rest with
      | [] => false
      | d :: rest' => if d == '-' then rest'.all isNameChar else isNameStart d && rest'.all isNameChar
    else isNameStart c && rest.all isNameChar

/-- P̂ for the `unique-id()` clause: every result is a valid identifier and they are pairwise distinct. -/
def uniqueIdsOk (ids : List (List Char)) : Bool := ids.all isIdent && decide ids.Nodup

/-! ### how `unique-id()` draws its characters (string.rs:242-248)

  `thread_rng().sample(Alphanumeric)` twelve times.  rand 0.8 `distributions/other.rs`
  (`impl Distribution<u8> for Alphanumeric`): `loop { let var = rng.next_u32() >> (32 - 6);
  if var < 62 { return GEN_ASCII_STR_CHARSET[var] } }` — a 6-bit word is drawn, words ≥ 62 are rejected.
  The model takes the stream of 6-bit words as a parameter (the generator itself is outside the model). -/

/-- `GEN_ASCII_STR_CHARSET` (rand 0.8 distributions/other.rs). -/
def alnumCharset : List Char :=
  "ABCDEFGHIJKLMNOPQRSTUVWXYZabcdefghijklmnopqrstuvwxyz0123456789".toList

/-- One `rng.sample(Alphanumeric)`: consumes words until one is accepted. `none`: stream exhausted. -/
def sampleAlnum : List Nat → Option (Char × List Nat)
  | [] => none
  | w :: ws =>
    match alnumCharset[w]? with
    | some c => some (c, ws)
    | none => sampleAlnum ws

/-- `.take(n)` of the sampling iterator. -/
def sampleAlnums : Nat → List Nat → Option (List Char × List Nat)
  | 0, ws => some ([], ws)
  | n + 1, ws =>
    match sampleAlnum ws with
    | none => none
    | some (c, ws') =>
      match sampleAlnums n ws' with
      | none => none
      | some (cs, ws'') => some (c :: cs, ws'')

/-- One call of `unique-id()` (string.rs:240-249): the id and the rest of the stream. -/
def uniqueIdDraw (ws : List Nat) : Option (List Char × List Nat) :=
  match sampleAlnums 12 ws with
  | none => none
  | some (cs, ws') => some (uniqueId cs, ws')

/-- The ids of `n` calls within one compilation (the thread's generator is shared by all evaluation
    contexts: `thread_rng()` is a thread-local handle, nothing is copied into closures). -/
def uniqueIdDraws : Nat → List Nat → Option (List (List Char))
  | 0, _ => some []
  | n + 1, ws =>
    match uniqueIdDraw ws with
    | none => none
    | some (id, ws') =>
      match uniqueIdDraws n ws' with
      | none => none
      | some ids => some (id :: ids)

/-- The id made from twelve ACCEPTED words (all `< 62`). -/
def uniqueIdOfWords (v : List Nat) : List Char := uniqueId (v.filterMap (alnumCharset[·]?))

/-- The shape every drawn id has: `id-` followed by exactly twelve characters of the charset
    (tie: evaluated on the ids real grass prints). -/
def isDrawShape (id : List Char) : Bool :=
  id.take 3 == ['i', 'd', '-'] && (id.drop 3).length == 12 && (id.drop 3).all (fun c => alnumCharset.contains c)

/-- Diagnostics for the check's report: position of the first result that is not an identifier. -/
def firstInvalid (ids : List (List Char)) : Option Nat := ids.findIdx? (fun x => !isIdent x)

/-- Diagnostics: position of the first result equal to an earlier one. -/
def firstRepeated : List (List Char) → List (List Char) → Nat → Option Nat
  | _, [], _ => none
  | seen, x :: xs, i => if seen.contains x then some i else firstRepeated (x :: seen) xs (i + 1)

/-! ### `random($limit)` (builtin/functions/math.rs:89-120)

  A number is given as a decimal `mant / 10^scale` (what the check's generator writes).  Outside the
  model: `assert_int` accepts values within 1e-11 of an integer (the generator writes none). -/

/-- `10^s` as an integer. -/
def pow10 (s : Nat) : Int := (10 : Int) ^ s

inductive RandArg where
  | absent                          -- no argument / `null` (math.rs:93)
  | notNumber                       -- `assert_number_with_name` fails (math.rs:100)
  | number (mant : Int) (scale : Nat)
  deriving DecidableEq, Repr, Inhabited

inductive RandClass where
  | unit01                          -- `rng.gen_range(0.0..1.0)` (math.rs:96)
  | exactly1                        -- `limit.is_one()` (math.rs:104)
  | oneTo (n : Int)                 -- `rng.gen_range(0..limit_int) + 1` (math.rs:118)
  | errNumber | errInt | errPositive
  deriving DecidableEq, Repr, Inhabited

/-- The argument validation of `random`, in the order of the code: number, integer, one, positive. -/
def randomSpec : RandArg → RandClass
  | .absent => .unit01
  | .notNumber => .errNumber
  | .number m s =>
    if m % pow10 s ≠ 0 then .errInt
    else
      let n := m / pow10 s
      if n = 1 then .exactly1 else if n ≤ 0 then .errPositive else .oneTo n

/-- What the caller sees: a printed unitless decimal, or an error of some class. -/
inductive RandObs where
  | value (mant : Int) (scale : Nat)
  | error (cls : String)
  deriving DecidableEq, Repr, Inhabited

/-- P̂ for `random`: the observation lies in the range the specification gives for the argument. -/
def randomOk : RandClass → RandObs → Bool
  | .unit01, .value m s => decide (0 ≤ m) && decide (m < pow10 s)
  | .exactly1, .value m s => decide (m = pow10 s)
  | .oneTo n, .value m s =>
    decide (m % pow10 s = 0) && decide (1 ≤ m / pow10 s) && decide (m / pow10 s ≤ n)
  | .errNumber, .error c => c == "number"
  | .errInt, .error c => c == "int"
  | .errPositive, .error c => c == "positive"
  | _, _ => false

/-- The result of the code for a sample `r` of `gen_range(0..n)` (integer limits) or a sample
    `num / 10^scale` of `gen_range(0.0..1.0)`. -/
def randomResult (a : RandArg) (r : Nat) (num : Nat) (scale : Nat) : RandObs :=
  match randomSpec a with
  | .unit01 => .value num scale
  | .exactly1 => .value 1 0
  | .oneTo _ => .value (r + 1) 0
  | .errNumber => .error "number"
  | .errInt => .error "int"
  | .errPositive => .error "positive"

def RandClass.name : RandClass → String
  | .unit01 => "unit01" | .exactly1 => "exactly1" | .oneTo _ => "oneTo"
  | .errNumber => "errNumber" | .errInt => "errInt" | .errPositive => "errPositive"

/-! ### observations and P̂ -/

/-- What a caller sees of one compilation: the CSS or the rendered error text (bytes as hex). -/
inductive Obs where
  | css (bytes : String)
  | err (bytes : String)
  deriving DecidableEq, Repr, Inhabited

/-- P̂ for the main clause: the observation made after a history / on another thread / in another
    process is byte-identical to the observation made by a fresh thread of a fresh process. -/
def sameObs (reference other : Obs) : Bool := decide (reference = other)

/-! ### driver entry points -/
open Grass.Proto

def strsOfTok (s : String) : Option (List Str) :=
  if s == "-" then some [] else (s.splitOn ",").mapM hexDecode

def tokOfStrs (l : List Str) : String :=
  if l.isEmpty then "-" else ",".intercalate (l.map hexEncode)

def natsOfTok (s : String) : Option (List Nat) :=
  if s == "-" then some [] else (s.splitOn ",").mapM (·.toNat?)

def obsOfToks (kind hex : String) : Option Obs :=
  if kind == "css" then some (.css hex) else if kind == "err" then some (.err hex) else none

def randArgOfTok (s : String) : Option RandArg :=
  match s.splitOn ":" with
  | ["absent"] => some .absent
  | ["nan"] => some .notNumber
  | ["num", m, sc] =>
    match m.toInt?, sc.toNat? with
    | some m, some sc => some (.number m sc)
    | _, _ => none
  | _ => none

def randObsOfTok (s : String) : Option RandObs :=
  match s.splitOn ":" with
  | ["val", m, sc] =>
    match m.toInt?, sc.toNat? with
    | some m, some sc => some (.value m sc)
    | _, _ => none
  | ["err", c] => some (.error c)
  | _ => none

def optNatStr : Option Nat → String
  | some n => toString n
  | none => "-"

def handle : List String → String
  -- uidwhy <id,id,…>: P̂ unique-id clause + diagnostics: ok <P̂> <all valid> <pairwise distinct> <first invalid> <first repeated>
  | ["uidwhy", ids] =>
    match strsOfTok ids with
    | some ids =>
      let l := ids.map String.toList
      "ok " ++ boolStr (uniqueIdsOk l) ++ " " ++ boolStr (l.all isIdent) ++ " " ++ boolStr (decide l.Nodup) ++ " "
        ++ optNatStr (firstInvalid l) ++ " " ++ optNatStr (firstRepeated [] l 0) ++ " " ++ boolStr (l.all isDrawShape)
    | none => "bad-op"
  -- random <arg> <obs>: P̂ `randomOk (randomSpec arg) obs` + the class the model gives the argument
  | ["random", a, o] =>
    match randArgOfTok a, randObsOfTok o with
    | some a, some o => "ok " ++ boolStr (randomOk (randomSpec a) o) ++ " " ++ (randomSpec a).name
    | _, _ => "bad-op"
  -- uiddraw <n> <words>: the ids `n` calls of unique-id() make from a stream of 6-bit words
  | ["uiddraw", n, ws] =>
    match n.toNat?, natsOfTok ws with
    | some n, some ws =>
      match uniqueIdDraws n ws with
      | some ids => "ok " ++ tokOfStrs (ids.map String.ofList)
      | none => "stuck"
    | _, _ => "bad-op"
  -- keywords <byKey> <history> <callNames>: names in the order `keywords()` lists them
  | ["keywords", bk, hist, call] =>
    match parseBool? bk, strsOfTok hist, strsOfTok call with
    | some bk, some hist, some call =>
      match compile (keywordsProg bk call) (internAll [] hist) [] with
      | some out => "ok " ++ tokOfStrs out
      | none => "stuck"
    | _, _, _ => "bad-op"
  -- unknown <byKey> <history> <declared> <callNames>: order of names in “No arguments named”
  | ["unknown", bk, hist, decl, call] =>
    match parseBool? bk, strsOfTok hist, strsOfTok decl, strsOfTok call with
    | some bk, some hist, some decl, some call =>
      match unknownNames bk (internAll [] hist) decl call with
      | some out => "ok " ++ tokOfStrs out
      | none => "stuck"
    | _, _, _, _ => "bad-op"
  -- cfgfirst <byKey> <history> <names>: the variable a `with` error names
  | ["cfgfirst", bk, hist, names] =>
    match parseBool? bk, strsOfTok hist, strsOfTok names with
    | some bk, some hist, some names =>
      match configFirst bk (internAll [] hist) names with
      | some n => "ok " ++ hexEncode n
      | none => "stuck"
    | _, _, _ => "bad-op"
  -- merged <π> <history> <names>: one possible listing of a forwarded module's members (pinned-tree variant)
  | ["merged", pi, hist, names] =>
    match natsOfTok pi, strsOfTok hist, strsOfTok names with
    | some pi, some hist, some names =>
      match compile (mergedKeysProg pi names) (internAll [] hist) [] with
      | some out => "ok " ++ tokOfStrs out
      | none => "stuck"
    | _, _, _ => "bad-op"
  -- same <css|err> <hex> <css|err> <hex>: P̂ main clause on two observations of the implementation
  | ["same", k₁, h₁, k₂, h₂] =>
    match obsOfToks k₁ h₁, obsOfToks k₂ h₂ with
    | some a, some b => "ok " ++ boolStr (sameObs a b)
    | _, _ => "bad-op"
  -- uids <id,id,…>: P̂ unique-id clause on the implementation's results
  | ["uids", ids] =>
    match strsOfTok ids with
    | some ids => "ok " ++ boolStr (uniqueIdsOk (ids.map String.toList))
    | none => "bad-op"
  -- ids <modulus> <start> <schedule>: ids per fetch_add under a schedule (thread,id pairs)
  | ["ids", m, c, sched] =>
    match m.toNat?, c.toNat?, natsOfTok sched with
    | some m, some c, some sched =>
      "ok " ++ " ".intercalate ((runSchedule m c sched).map fun p => s!"{p.1}:{p.2}")
    | _, _, _ => "bad-op"
  | _ => "bad-op"

end Grass.Interner
