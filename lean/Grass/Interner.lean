import Grass.Proto
/- Core `Interner` — stub; replaced by the model (see DESIGN.md §8). -/
namespace Grass.Interner

def handle : List String → String
  | _ => "bad-op"

end Grass.Interner
