import Grass.Value
import Grass.Generated.ModuleAliases
/-
  C14 core — list, map and string built-ins over `Grass.Value.Value`.

  Mirrors (file:line of /repo at the time of writing)
    crates/compiler/src/builtin/functions/list.rs    length :3, nth :11, list_separator :45, set_nth :53,
                                                     append :101, join :146, is_bracketed :216, index :227, zip :238
    crates/compiler/src/builtin/modules/list.rs      slash :9
    crates/compiler/src/builtin/functions/map.rs     map_get :18, map_has_key :43, map_keys :74, map_values :86,
                                                     map_merge :98, map_remove :157, map_set :168
    crates/compiler/src/builtin/modules/map.rs       deep_merge_impl :10, deep_merge :41, deep_remove :57, modify_map :92
    crates/compiler/src/builtin/functions/string.rs  to_upper_case :3, to_lower_case :14, str_length :26, quote :38,
                                                     unquote :49, str_slice :60, str_split :128, str_index :165, str_insert :185
    crates/compiler/src/ast/args.rs                  get_err :214, max_args :249, default_arg :273, get_variadic :288
    crates/compiler/src/value/mod.rs                 assert_number_with_name :145, assert_map_with_name :175,
                                                     assert_string_with_name :192, try_map :324, as_list :435, separator :444
    crates/compiler/src/value/number.rs              fuzzy_as_int :48, is_positive :106, assert_int :114, is_zero :203
    crates/compiler/src/value/sass_number.rs         assert_no_units :142, assert_int_with_name :179

  A call is a list of positional argument values followed by named ones (`callN`; round 3: the
  parameter names and the way `ArgumentResult` resolves them, ast/args.rs:165–335); the
  result is a value or an error class.  Strings are lists of code points.  Index arguments are
  finite numbers given by their exact rational value; `±Infinity`/`NaN` indices answer
  `unsupported`.

  Four deviations of the code from the documentation were found by this check and have since been
  repaired in /repo (commits 6e994a1, 30ed358, ca51d14, 1b37b59); each keeps its switch (`Sw`,
  `true` = documented = the code as it stands, `false` = the code before the repair):
    K14a  `append` took a map / argument list as ONE element          (list.rs:103)
    K14b  `join` took an argument list as ONE element                 (list.rs:148, :153)
    K14c  `nth`/`set-nth` compared `|n| > len` on the raw double (and `nth` did so before the integer
          check), so an index that is an integer only up to 1e-11 and lies just above `len` was
          rejected                                                      (list.rs:22, :77)
    K14d  `map.set` with fewer than three arguments did not fail: the key was read from the
          already consumed slot 0 and became `null`                   (map.rs:169–180)
  Modelled as the code behaves (round 3; the documentation does not settle them): `map.deep-remove`
  whose last intermediate key is missing inserts `key: null` (modules/map.rs:113–117, as dart-sass does),
  `string.split` with an empty string gives `[""]`, with an empty separator `["", c₁, …, cₙ, ""]`
  (`str::split("")`, string.rs:141–156).
    K14e  (open) named arguments are not validated: a name that is no parameter is ignored by the
          fixed-arity built-ins that have optional parameters, a parameter passed both by position and
          by name silently takes the named value, `list.slash($elements: l)` is accepted
          (ast/args.rs:214 get_err, :249 max_args; nothing looks at what is left in `named`).
          Switch `namedStrict` (`true` = documented: such a call is an error).
-/
namespace Grass.Builtins
open Grass.Value

/-- error classes (messages are compared by class only) -/
inductive Err where
  | missingArg | tooManyArgs | notNumber | notString | notMap
  | indexZero | indexRange | notInt | hasUnits | badSeparator | limitRange
  | noKey | noValue | tooFewElems
  | noNamedArg | dupArg
  | unsupported
  deriving DecidableEq, Repr, Inhabited

def Err.name : Err → String
  | .missingArg => "missing-arg" | .tooManyArgs => "too-many-args" | .notNumber => "not-number"
  | .notString => "not-string" | .notMap => "not-map" | .indexZero => "index-zero"
  | .indexRange => "index-range" | .notInt => "not-int" | .hasUnits => "has-units"
  | .badSeparator => "bad-separator" | .limitRange => "limit-range" | .noKey => "no-key"
  | .noValue => "no-value"
  | .tooFewElems => "too-few-elems" | .noNamedArg => "no-named-arg" | .dupArg => "dup-arg"
  | .unsupported => "unsupported"

/-- One switch per deviation found; `true` = the documented behaviour (= /repo since the repairs). -/
structure Sw where
  /-- K14a -/
  appendAsList : Bool
  /-- K14b -/
  joinArgAsList : Bool
  /-- K14c -/
  rangeByInt : Bool
  /-- K14d -/
  setArity : Bool
  /-- K14e (open): named arguments validated against the documented signature -/
  namedStrict : Bool
  /-- the equality used for map keys and `index` (C09's switches) -/
  eq : Grass.Value.Sw
  deriving DecidableEq, Repr, Inhabited

/-- /repo as it stands (K14a–K14d repaired, K14e open) -/
def Sw.now : Sw := ⟨true, true, true, true, false, Grass.Value.Sw.now⟩
/-- what the documentation demands -/
def Sw.spec : Sw := ⟨true, true, true, true, true, Grass.Value.Sw.spec⟩
/-- /repo before the repairs of K14a–K14d (and of C09's K1, K2, K4) -/
def Sw.beforeFix : Sw := ⟨false, false, false, false, false, Grass.Value.Sw.beforeFix⟩

abbrev R := Except Err Value

def natV (n : Nat) : Value := .num (.fin (n : Rat)) .none

/-! ### numbers as indices -/

/-- `fuzzy_as_int` (number.rs:48) on a finite value. -/
def asInt (q : Rat) : Option Int :=
  if fuzzyEq q ((roundHalfAway q : Int) : Rat) then some (roundHalfAway q) else none

/-- `Number::is_zero` (number.rs:203). -/
def isZero (q : Rat) : Bool := fuzzyEq q 0

/-- `|q| > len` — on the raw value (`index.num.abs() > Number::from(len)`, derived `PartialOrd`
    of the `f64` wrapper) or, as documented, on the integer the index denotes. -/
def tooBig (byInt : Bool) (q : Rat) (len : Nat) : Bool :=
  if byInt then
    match asInt q with
    | some i => decide (len < i.natAbs)
    | none => decide ((len : Rat) < q.abs)
  else decide ((len : Rat) < q.abs)

/-- `nth` (list.rs:18–42): 0-based position selected by index `q` in a list of `len` elements.
    Order of the checks: zero, integer, range (on the integer).  Before the repair of K14c:
    zero, range (on the raw value), integer. -/
def nthIndex (sw : Sw) (len : Nat) (q : Rat) : Except Err Nat :=
  if isZero q then .error .indexZero
  else if sw.rangeByInt then
    match asInt q with
    | none => .error .notInt
    | some i =>
      if len < i.natAbs then .error .indexRange
      else .ok (if 0 < q then i.toNat - 1 else len - i.natAbs)
  else if (len : Rat) < q.abs then .error .indexRange
  else
    match asInt q with
    | none => .error .notInt
    | some i => .ok (if 0 < q then i.toNat - 1 else len - i.natAbs)

/-- `set-nth` (list.rs:69–96).  Order of the checks: zero, integer, range. -/
def setNthIndex (sw : Sw) (len : Nat) (q : Rat) : Except Err Nat :=
  if isZero q then .error .indexZero
  else
    match asInt q with
    | none => .error .notInt
    | some i =>
      if tooBig sw.rangeByInt q len then .error .indexRange
      else .ok (if 0 < i then i.toNat - 1 else len - i.natAbs)

/-! ### lists -/

/-- `Value::as_list` as a core list -/
def elems (v : Value) : List Value := (asList v).toList

def mkList (es : List Value) (sep : Sep) (br : Bool) : Value := .list (VList.ofList es) sep br

def sepName : Sep → List Char
  | .comma => "comma".toList
  | .slash => "slash".toList
  | .space | .undecided => "space".toList

/-- `Value::separator` (value/mod.rs:444): an argument list carries its own separator (that of the list
    spread into it, comma for arguments passed one by one; e36bfd5). -/
def separatorOf : Value → Sep
  | .list _ s _ => s
  | .map _ => .comma
  | .arglist _ _ s => s
  | _ => .space

/-- `length` (list.rs:3). -/
def lengthF : List Value → R
  | [] => .error .missingArg
  | [l] => .ok (natV (elems l).length)
  | _ => .error .tooManyArgs

/-- `nth` (list.rs:11). -/
def nthF (sw : Sw) : List Value → R
  | [] | [_] => .error .missingArg
  | [l, n] =>
    match n with
    | .num (.fin q) _ =>
      match nthIndex sw (elems l).length q with
      | .error e => .error e
      | .ok p =>
        match (elems l)[p]? with
        | some v => .ok v
        | none => .error .indexRange
    | .num _ _ => .error .unsupported
    | _ => .error .notNumber
  | _ => .error .tooManyArgs

/-- how `set-nth` reads its first argument (list.rs:55–64) -/
def setNthParts : Value → List Value × Sep × Bool
  | .list es s b => (es.toList, s, b)
  | .arglist es _ s => (es.toList, s, false)
  | .map ps => ((pairsAsList ps).toList, .comma, false)
  | v => ([v], .undecided, false)

/-- `set-nth` (list.rs:53). The value is fetched after the index checks. -/
def setNthF (sw : Sw) : List Value → R
  | [] | [_] => .error .missingArg
  | l :: n :: rest =>
    if 1 < rest.length then .error .tooManyArgs else
    match n with
    | .num (.fin q) _ =>
      let (es, sep, br) := setNthParts l
      match setNthIndex sw es.length q with
      | .error e => .error e
      | .ok p =>
        match rest with
        | [] => .error .missingArg
        | v :: _ => .ok (mkList (es.set p v) sep br)
    | .num _ _ => .error .unsupported
    | _ => .error .notNumber

/-- `$separator` of `append`/`join` (list.rs:108–139, :158–191); `auto` is resolved by the caller. -/
def sepArg (auto : Sep) : Option Value → Except Err Sep
  | none => .ok auto
  | some (.str s _) =>
    if s = "auto".toList then .ok auto
    else if s = "comma".toList then .ok .comma
    else if s = "space".toList then .ok .space
    else if s = "slash".toList then .ok .slash
    else .error .badSeparator
  | some _ => .error .notString

/-- how `append` reads its first argument (list.rs:103–106); documented: every map and
    argument list counts as a list -/
def appendParts (sw : Sw) : Value → List Value × Sep × Bool
  | .list es s b => (es.toList, s, b)
  | .arglist es kw s =>
    if sw.appendAsList then (es.toList, s, false) else ([.arglist es kw s], .undecided, false)
  | .map ps =>
    if sw.appendAsList then ((pairsAsList ps).toList, .comma, false) else ([.map ps], .undecided, false)
  | v => ([v], .undecided, false)

/-- `append` (list.rs:101). -/
def appendF (sw : Sw) : List Value → R
  | [] | [_] => .error .missingArg
  | l :: v :: rest =>
    if 1 < rest.length then .error .tooManyArgs else
    let (es, sep, br) := appendParts sw l
    match sepArg (if sep = .undecided then .space else sep) rest.head? with
    | .error e => .error e
    | .ok s => .ok (mkList (es ++ [v]) s br)

/-- how `join` reads a list argument (list.rs:148–157) -/
def joinParts (sw : Sw) : Value → List Value × Sep × Bool
  | .list es s b => (es.toList, s, b)
  | .map ps => ((pairsAsList ps).toList, .comma, false)
  | .arglist es kw s =>
    if sw.joinArgAsList then (es.toList, s, false) else ([.arglist es kw s], .undecided, false)
  | v => ([v], .undecided, false)

/-- the `auto` separator of `join` (list.rs:164–172) -/
def joinAutoSep (s1 s2 : Sep) : Sep :=
  if s1 ≠ .undecided then s1 else if s2 ≠ .undecided then s2 else .space

def isTruthy : Value → Bool
  | .null => false
  | .bool false => false
  | _ => true

/-- `$bracketed` of `join` (list.rs:193–209) -/
def bracketedArg (auto : Bool) : Option Value → Bool
  | none => auto
  | some (.str s _) => if s = "auto".toList then auto else true
  | some v => isTruthy v

/-- `join` (list.rs:146). -/
def joinF (sw : Sw) : List Value → R
  | [] | [_] => .error .missingArg
  | l1 :: l2 :: rest =>
    if 2 < rest.length then .error .tooManyArgs else
    let (e1, s1, b1) := joinParts sw l1
    let (e2, s2, _) := joinParts sw l2
    match sepArg (joinAutoSep s1 s2) rest.head? with
    | .error e => .error e
    | .ok s => .ok (mkList (e1 ++ e2) s (bracketedArg b1 (rest.drop 1).head?))

/-- `min` of the lengths, `0` for no list (list.rs:245). -/
def minLen : List (List Value) → Nat
  | [] => 0
  | [l] => l.length
  | l :: rest => min l.length (minLen rest)

/-- the first `n` rows of the transposition -/
def zipRows : Nat → List (List Value) → List Value
  | 0, _ => []
  | n + 1, ls => mkList (ls.filterMap List.head?) .space false :: zipRows n (ls.map List.tail)

/-- `zip` (list.rs:238). -/
def zipF (args : List Value) : R :=
  let ls := args.map elems
  .ok (mkList (zipRows (minLen ls) ls) .comma false)

/-- `index` (list.rs:227). -/
def indexF (sw : Sw) : List Value → R
  | [] | [_] => .error .missingArg
  | [l, v] =>
    match indexOf sw.eq (asList l) v with
    | some i => .ok (natV (i + 1))
    | none => .ok .null
  | _ => .error .tooManyArgs

/-- `list-separator` (list.rs:45). -/
def separatorF : List Value → R
  | [] => .error .missingArg
  | [l] => .ok (.str (sepName (separatorOf l)) false)
  | _ => .error .tooManyArgs

/-- `is-bracketed` (list.rs:216). -/
def isBracketedF : List Value → R
  | [] => .error .missingArg
  | [.list _ _ b] => .ok (.bool b)
  | [_] => .ok (.bool false)
  | _ => .error .tooManyArgs

/-- `list.slash` (modules/list.rs:9). -/
def slashF : List Value → R
  | [] => .error .missingArg
  | args =>
    let es := match args with
      | [l] => elems l
      | _ => args
    if es.length < 2 then .error .tooFewElems else .ok (mkList es .slash false)

/-! ### maps -/

/-- `try_map` (value/mod.rs:324): `()` and an empty argument list are the empty map. -/
def tryMap : Value → Option VPairs
  | .map ps => some ps
  | .list .nil _ _ => some .nil
  | .arglist .nil _ _ => some .nil
  | _ => none

/-- `assert_map_with_name` (value/mod.rs:175). -/
def assertMap (v : Value) : Except Err VPairs :=
  match tryMap v with
  | some m => .ok m
  | none => .error .notMap

def getD (sw : Sw) (m : VPairs) (k : Value) : Value := (get sw.eq m k).getD .null

/-- the loop of `map_get` (map.rs:28–38) -/
def getPath (sw : Sw) : List Value → Value → Value
  | [], v => v
  | k :: ks, v =>
    match tryMap v with
    | none => .null
    | some m => getPath sw ks (getD sw m k)

/-- `map-get` (map.rs:18). The key is fetched before the map is checked. -/
def mapGetF (sw : Sw) : List Value → R
  | [] | [_] => .error .missingArg
  | m :: k :: ks =>
    match assertMap m with
    | .error e => .error e
    | .ok m => .ok (getPath sw ks (getD sw m k))

/-- the loop of `map_has_key` (map.rs:53–71) -/
def hasPath (sw : Sw) : List Value → Value → Bool
  | [], _ => true
  | k :: ks, v =>
    match tryMap v with
    | none => false
    | some m =>
      match get sw.eq m k with
      | none => false
      | some v' => hasPath sw ks v'

/-- `map-has-key` (map.rs:43). -/
def mapHasKeyF (sw : Sw) : List Value → R
  | [] | [_] => .error .missingArg
  | m :: k :: ks =>
    match assertMap m with
    | .error e => .error e
    | .ok m =>
      match get sw.eq m k with
      | none => .ok (.bool false)
      | some v => .ok (.bool (hasPath sw ks v))

/-- `map-keys` (map.rs:74). -/
def mapKeysF : List Value → R
  | [] => .error .missingArg
  | [m] =>
    match assertMap m with
    | .error e => .error e
    | .ok m => .ok (.list (keys m) .comma false)
  | _ => .error .tooManyArgs

/-- `map-values` (map.rs:86). -/
def mapValuesF : List Value → R
  | [] => .error .missingArg
  | [m] =>
    match assertMap m with
    | .error e => .error e
    | .ok m => .ok (.list (values m) .comma false)
  | _ => .error .tooManyArgs

/-- the nested map a key leads to, or a fresh one (map.rs:122–131, :191–200) -/
def childMap (sw : Sw) (m : VPairs) (k : Value) : VPairs :=
  match get sw.eq m k with
  | some (.map m1) => m1
  | _ => .nil

/-- nested form of `map-merge` (map.rs:118–151) -/
def mergeNested (sw : Sw) : List Value → VPairs → VPairs → VPairs
  | [], m, m2 => merge sw.eq m m2
  | k :: ks, m, m2 => insert sw.eq m k (.map (mergeNested sw ks (childMap sw m k) m2))

/-- `map-merge` (map.rs:98). -/
def mapMergeF (sw : Sw) : List Value → R
  | [] => .error .missingArg
  | [_] => .error .noKey
  | m1 :: rest =>
    match assertMap m1 with
    | .error e => .error e
    | .ok a =>
      match assertMap (rest.getLast?.getD .null) with
      | .error e => .error e
      | .ok b => .ok (.map (mergeNested sw rest.dropLast a b))

/-- `map-remove` (map.rs:157). -/
def mapRemoveF (sw : Sw) : List Value → R
  | [] => .error .missingArg
  | m :: ks =>
    match assertMap m with
    | .error e => .error e
    | .ok m => .ok (.map (ks.foldl (remove sw.eq) m))

/-- nested form of `map.set` (map.rs:187–218) -/
def setNested (sw : Sw) : List Value → VPairs → Value → Value → VPairs
  | [], m, key, val => insert sw.eq m key val
  | k :: ks, m, key, val => insert sw.eq m k (.map (setNested sw ks (childMap sw m k) key val))

/-- `map.set` (map.rs:168): after the map has been checked, no further argument is "Expected $args to
    contain a key.", one is "… a value.".  Before the repair of K14d the positions of `$key` and
    `$value` were computed with saturating subtraction and slot 0 had already been replaced by the
    `null` gravestone. -/
def mapSetF (sw : Sw) : List Value → R
  | [] => .error .missingArg
  | m :: rest =>
    match assertMap m with
    | .error e => .error e
    | .ok a =>
      match rest with
      | [] => if sw.setArity then .error .noKey else .ok (.map (insert sw.eq a .null .null))
      | [v] => if sw.setArity then .error .noValue else .ok (.map (insert sw.eq a .null v))
      | _ =>
        let val := rest.getLast?.getD .null
        let key := rest.dropLast.getLast?.getD .null
        .ok (.map (setNested sw rest.dropLast.dropLast a key val))

mutual
  /-- `for (key, value) in map2 { … result.insert(…) }` of `deep_merge_impl` (modules/map.rs:20–36) -/
  def dmFold (sw : Sw) : VPairs → VPairs → VPairs
    | .nil, res => res
    | .cons k v t, res => dmFold sw t (insert sw.eq res k (dmVal sw v (get sw.eq res k)))
  /-- the value stored for an incoming `value` when the result already holds `old` under the key -/
  def dmVal (sw : Sw) : Value → Option Value → Value
    | .map vm, some old =>
      match tryMap old with
      | some rm => .map (dmImpl sw vm rm)
      | none => .map vm
    | .list .nil s b, some old =>
      match tryMap old with
      | some rm => .map rm
      | none => .list .nil s b
    | .arglist .nil kw s, some old =>
      match tryMap old with
      | some rm => .map rm
      | none => .arglist .nil kw s
    | v, _ => v
  /-- `deep_merge_impl(map1, map2)` with the arguments swapped (`map2` first, for the recursion) -/
  def dmImpl (sw : Sw) : VPairs → VPairs → VPairs
    | .nil, m1 => m1
    | .cons k v t, m1 =>
      match m1 with
      | .nil => .cons k v t
      | m1 => dmFold sw t (insert sw.eq m1 k (dmVal sw v (get sw.eq m1 k)))
end

/-- `deep_merge_impl(map1, map2)` (modules/map.rs:10). -/
def deepMerge (sw : Sw) (m1 m2 : VPairs) : VPairs := dmImpl sw m2 m1

/-- `map.deep-merge` (modules/map.rs:41). -/
def deepMergeF (sw : Sw) : List Value → R
  | [] => .error .missingArg
  | [m1] =>
    match assertMap m1 with
    | .error e => .error e
    | .ok _ => .error .missingArg
  | [m1, m2] =>
    match assertMap m1 with
    | .error e => .error e
    | .ok a =>
      match assertMap m2 with
      | .error e => .error e
      | .ok b => .ok (.map (deepMerge sw a b))
  | _ => .error .tooManyArgs

/-- the `modify` closure of `deep_remove` (modules/map.rs:70–81) -/
def dropKey (sw : Sw) (last : Value) (v : Value) : Value :=
  match tryMap v with
  | some nm => if contains sw.eq nm last then .map (remove sw.eq nm last) else v
  | none => v

/-- `modify_nested_map` with `add_nesting = false` (modules/map.rs:100–134).  At the last
    intermediate key the closure is applied to the value found there or to `null`, and the result is
    stored under the key even when the key was missing (:113–117). -/
def modNested (sw : Sw) (last : Value) : List Value → VPairs → VPairs
  | [], m => m
  | [key], m => insert sw.eq m key (dropKey sw last ((get sw.eq m key).getD .null))
  | key :: rest, m =>
    match (get sw.eq m key).bind tryMap with
    | none => m
    | some nm => insert sw.eq m key (.map (modNested sw last rest nm))

/-- `map.deep-remove` (modules/map.rs:57). -/
def deepRemoveF (sw : Sw) : List Value → R
  | [] => .error .missingArg
  | [m] =>
    match assertMap m with
    | .error e => .error e
    | .ok _ => .error .missingArg
  | m :: k :: ks =>
    match assertMap m with
    | .error e => .error e
    | .ok a =>
      let all := k :: ks
      let last := all.getLast?.getD .null
      match all.dropLast with
      | [] => .ok (dropKey sw last (.map a))
      | init => .ok (.map (modNested sw last init a))

/-! ### strings -/

def assertString : Value → Except Err (List Char × Bool)
  | .str s q => .ok (s, q)
  | _ => .error .notString

/-- a unitless integer argument (`assert_number_with_name`, `assert_no_units`, `assert_int`) -/
def intArg : Value → Except Err Int
  | .num (.fin q) u =>
    if u ≠ .none then .error .hasUnits else
    match asInt q with
    | some i => .ok i
    | none => .error .notInt
  | .num _ _ => .error .unsupported
  | _ => .error .notNumber

/-- `str_slice` (string.rs:78–115) on code points, integer arguments -/
def sliceCore (s : List Char) (start end_ : Int) : List Char :=
  let len : Int := s.length
  let st : Int := if start = 0 then 1 else if 0 < start then min start (len + 1) else max (start + len + 1) 1
  let e0 : Int := if end_ < 0 then end_ + len + 1 else end_
  let en : Int := min (max e0 0) (len + 1)
  if en < st ∨ len < st then [] else (s.drop (st.toNat - 1)).take (en - st + 1).toNat

/-- `str-length` (string.rs:26). -/
def strLengthF : List Value → R
  | [] => .error .missingArg
  | [s] =>
    match assertString s with
    | .error e => .error e
    | .ok (s, _) => .ok (natV s.length)
  | _ => .error .tooManyArgs

/-- `str-slice` (string.rs:60). -/
def strSliceF : List Value → R
  | [] => .error .missingArg
  | s :: rest =>
    if 2 < rest.length then .error .tooManyArgs else
    match assertString s with
    | .error e => .error e
    | .ok (s, q) =>
      match rest with
      | [] => .error .missingArg
      | st :: rest2 =>
        match intArg st with
        | .error e => .error e
        | .ok st =>
          match (match rest2.head? with | none => (Except.ok (-1) : Except Err Int) | some e => intArg e) with
          | .error e => .error e
          | .ok en => .ok (.str (sliceCore s st en) q)

/-- position (0-based) of the first occurrence of `sub` (`str::find`, on code points) -/
def findSub (sub : List Char) : List Char → Option Nat
  | [] => if sub = [] then some 0 else none
  | c :: t => if sub.isPrefixOf (c :: t) then some 0 else (findSub sub t).map (· + 1)

/-- `str-index` (string.rs:165). -/
def strIndexF : List Value → R
  | [] => .error .missingArg
  | [s] =>
    match assertString s with
    | .error e => .error e
    | .ok _ => .error .missingArg
  | [s, sub] =>
    match assertString s with
    | .error e => .error e
    | .ok (s, _) =>
      match assertString sub with
      | .error e => .error e
      | .ok (sub, _) =>
        match findSub sub s with
        | some i => .ok (natV (i + 1))
        | none => .ok .null
  | _ => .error .tooManyArgs

/-- the closure `insert` of `str_insert` (string.rs:211–224): `ins` goes after the `idx`-th
    code point (before the first for `idx = 0`); nothing is inserted when `idx > len`. -/
def insertAfter (s ins : List Char) (idx : Nat) : List Char :=
  if s.length < idx then s else s.take idx ++ ins ++ s.drop idx

/-- `str_insert` (string.rs:204–233) on code points -/
def insertCore (s ins : List Char) (index : Int) : List Char :=
  if s = [] then ins
  else
    let len : Int := s.length
    if 0 < index then insertAfter s ins (min (index - 1) len).toNat
    else if index = 0 then insertAfter s ins 0
    else insertAfter s ins (max (len + index + 1) 0).toNat

/-- `str-insert` (string.rs:185). -/
def strInsertF : List Value → R
  | [] => .error .missingArg
  | [s] =>
    match assertString s with
    | .error e => .error e
    | .ok _ => .error .missingArg
  | [s, ins] =>
    match assertString s with
    | .error e => .error e
    | .ok _ =>
      match assertString ins with
      | .error e => .error e
      | .ok _ => .error .missingArg
  | [s, ins, idx] =>
    match assertString s with
    | .error e => .error e
    | .ok (s, q) =>
      match assertString ins with
      | .error e => .error e
      | .ok (ins, _) =>
        match intArg idx with
        | .error e => .error e
        | .ok i => .ok (.str (insertCore s ins i) q)
  | _ => .error .tooManyArgs

/-- `quote` (string.rs:38). -/
def quoteF : List Value → R
  | [] => .error .missingArg
  | [s] =>
    match assertString s with
    | .error e => .error e
    | .ok (s, _) => .ok (.str s true)
  | _ => .error .tooManyArgs

/-- `unquote` (string.rs:49). -/
def unquoteF : List Value → R
  | [] => .error .missingArg
  | [s] =>
    match assertString s with
    | .error e => .error e
    | .ok (s, _) => .ok (.str s false)
  | _ => .error .tooManyArgs

/-- `u8::make_ascii_uppercase` on a code point -/
def upperC (c : Char) : Char := if 'a' ≤ c ∧ c ≤ 'z' then Char.ofNat (c.toNat - 32) else c
def lowerC (c : Char) : Char := if 'A' ≤ c ∧ c ≤ 'Z' then Char.ofNat (c.toNat + 32) else c

/-- `to-upper-case` (string.rs:3). -/
def upperF : List Value → R
  | [] => .error .missingArg
  | [s] =>
    match assertString s with
    | .error e => .error e
    | .ok (s, q) => .ok (.str (s.map upperC) q)
  | _ => .error .tooManyArgs

/-- `to-lower-case` (string.rs:14). -/
def lowerF : List Value → R
  | [] => .error .missingArg
  | [s] =>
    match assertString s with
    | .error e => .error e
    | .ok (s, q) => .ok (.str (s.map lowerC) q)
  | _ => .error .tooManyArgs

/-- `str::splitn(lim + 1, sep)` for a non-empty `sep`: scan left to right, cut at each
    non-overlapping occurrence while cuts remain.  `skip` = code points of a matched separator
    still to be dropped, `acc` = the current piece, reversed. -/
def splitAux (sep : List Char) : Nat → Nat → List Char → List Char → List (List Char)
  | _, _, acc, [] => [acc.reverse]
  | lim, skip + 1, acc, _ :: t => splitAux sep lim skip acc t
  | 0, 0, acc, c :: t => splitAux sep 0 0 (c :: acc) t
  | lim + 1, 0, acc, c :: t =>
    if sep.isPrefixOf (c :: t) then acc.reverse :: splitAux sep lim (sep.length - 1) [] t
    else splitAux sep (lim + 1) 0 (c :: acc) t

/-- `str::splitn(k + 1, "")` after the first (empty) piece: the empty pattern matches at every
    code-point boundary, the end included; `k` = cuts left. -/
def splitEmptyRest : Nat → List Char → List (List Char)
  | _, [] => [[]]
  | 0, c :: t => [c :: t]
  | k + 1, c :: t => [c] :: splitEmptyRest k t

/-- `str::splitn(lim + 1, "")`: `"" , c₁, …, cₙ, ""` while cuts remain, then the rest. -/
def splitEmpty : Nat → List Char → List (List Char)
  | 0, s => [s]
  | k + 1, s => [] :: splitEmptyRest k s

/-- `s1.splitn(lim + 1, sep)` (string.rs:143, :156) on code points -/
def splitPieces (sep : List Char) (lim : Nat) (s : List Char) : List (List Char) :=
  if sep = [] then splitEmpty lim s else splitAux sep lim 0 [] s

/-- `$limit` of `string.split` (string.rs:141–156): `none` = no limit -/
def limitArg : Option Value → Except Err (Option Nat)
  | none => .ok none
  | some .null => .ok none
  | some (.num (.fin q) _) =>
    match asInt q with
    | none => .error .notInt
    | some i => if i < 1 then .error .limitRange else .ok (some i.toNat)
  | some (.num _ _) => .error .unsupported
  | some _ => .error .notNumber

/-- `string.split` (string.rs:128).  Without a limit there are at most `length + 1` cuts. -/
def splitF : List Value → R
  | [] => .error .missingArg
  | [s] =>
    match assertString s with
    | .error e => .error e
    | .ok _ => .error .missingArg
  | s :: sep :: rest =>
    if 1 < rest.length then .error .tooManyArgs else
    match assertString s with
    | .error e => .error e
    | .ok (s, _) =>
      match assertString sep with
      | .error e => .error e
      | .ok (sep, _) =>
        match limitArg rest.head? with
        | .error e => .error e
        | .ok lim =>
          .ok (mkList ((splitPieces sep (lim.getD (s.length + 1)) s).map (fun p => Value.str p true)) .comma true)

/-! ### dispatch -/

/-- a call by its global name (`map-set`, `deep-merge`, `deep-remove`, `split`, `slash` name the
    module-only members) -/
def call (sw : Sw) (f : String) (args : List Value) : Option R :=
  if f == "length" then some (lengthF args)
  else if f == "nth" then some (nthF sw args)
  else if f == "set-nth" then some (setNthF sw args)
  else if f == "append" then some (appendF sw args)
  else if f == "join" then some (joinF sw args)
  else if f == "zip" then some (zipF args)
  else if f == "index" then some (indexF sw args)
  else if f == "list-separator" then some (separatorF args)
  else if f == "is-bracketed" then some (isBracketedF args)
  else if f == "slash" then some (slashF args)
  else if f == "map-get" then some (mapGetF sw args)
  else if f == "map-has-key" then some (mapHasKeyF sw args)
  else if f == "map-keys" then some (mapKeysF args)
  else if f == "map-values" then some (mapValuesF args)
  else if f == "map-merge" then some (mapMergeF sw args)
  else if f == "map-remove" then some (mapRemoveF sw args)
  else if f == "map-set" then some (mapSetF sw args)
  else if f == "deep-merge" then some (deepMergeF sw args)
  else if f == "deep-remove" then some (deepRemoveF sw args)
  else if f == "str-length" then some (strLengthF args)
  else if f == "str-slice" then some (strSliceF args)
  else if f == "str-index" then some (strIndexF args)
  else if f == "str-insert" then some (strInsertF args)
  else if f == "quote" then some (quoteF args)
  else if f == "unquote" then some (unquoteF args)
  else if f == "to-upper-case" then some (upperF args)
  else if f == "to-lower-case" then some (lowerF args)
  else if f == "split" then some (splitF args)
  else none

/-! ### named arguments (ast/args.rs:165–335)

  `ArgumentResult` holds the positional values and the named ones (`$name: value`; positional
  arguments come first in the source).  `get_err(i, name)` / `default_arg(i, name, d)` (:214, :273)
  take the named value if there is one, else positional `i`; `len()` (:230) counts both;
  `get_variadic` (:288) fails if a named argument is left and returns the positional values whose
  index no `get_positional` touched. -/

abbrev Named := List (String × Value)

/-- `Identifier`: `_` and `-` are the same character in a name -/
def normName (s : String) : String := s.map (fun c => if c = '_' then '-' else c)

def Named.get (nm : Named) (n : String) : Option Value := (nm.find? (fun p => p.1 == n)).map (·.2)

/-- the parameters a built-in fetches by `get_err`/`default_arg`, in positional order; `max` = the
    bound of `max_args` (`none`: the function ends with `get_variadic`); `defaults` = what
    `default_arg` supplies. -/
structure Sig where
  params : List String
  max : Option Nat
  defaults : List (Option Value)

def autoV : Value := .str "auto".toList false

/-- from the `get_err` / `default_arg` calls of builtin/functions/{list,map,string}.rs and modules/map.rs
    (`map-merge`, `map-set`, `slash` compute positions from `len()` and are modelled apart) -/
def sigTable : List (String × Sig) := [
  ("length", ⟨["list"], some 1, [none]⟩),                                         -- list.rs:4–6
  ("nth", ⟨["list", "n"], some 2, [none, none]⟩),                                 -- list.rs:12–16
  ("set-nth", ⟨["list", "n", "value"], some 3, [none, none, none]⟩),              -- list.rs:54–88
  ("append", ⟨["list", "val", "separator"], some 3, [none, none, some autoV]⟩),   -- list.rs:102–113
  ("join", ⟨["list1", "list2", "separator", "bracketed"], some 4, [none, none, some autoV, some autoV]⟩), -- list.rs:147–197
  ("zip", ⟨[], none, []⟩),                                                        -- list.rs:239
  ("index", ⟨["list", "value"], some 2, [none, none]⟩),                           -- list.rs:228–230
  ("list-separator", ⟨["list"], some 1, [none]⟩),                                 -- list.rs:46–48
  ("is-bracketed", ⟨["list"], some 1, [none]⟩),                                   -- list.rs:217–218
  ("map-get", ⟨["map", "key"], none, [none, none]⟩),                              -- map.rs:19–26
  ("map-has-key", ⟨["map", "key"], none, [none, none]⟩),                          -- map.rs:44–51
  ("map-keys", ⟨["map"], some 1, [none]⟩),                                        -- map.rs:75–78
  ("map-values", ⟨["map"], some 1, [none]⟩),                                      -- map.rs:87–90
  ("map-remove", ⟨["map"], none, [none]⟩),                                        -- map.rs:158–161
  ("deep-merge", ⟨["map1", "map2"], some 2, [none, none]⟩),                       -- modules/map.rs:42–52
  ("deep-remove", ⟨["map", "key"], none, [none, none]⟩),                          -- modules/map.rs:60–63
  ("str-length", ⟨["string"], some 1, [none]⟩),                                   -- string.rs:27–29
  ("str-slice", ⟨["string", "start-at", "end-at"], some 3, [none, none, some (.num (.fin (-1)) .none)]⟩), -- string.rs:61–92
  ("str-index", ⟨["string", "substring"], some 2, [none, none]⟩),                 -- string.rs:166–174
  ("str-insert", ⟨["string", "insert", "index"], some 3, [none, none, none]⟩),    -- string.rs:186–199
  ("quote", ⟨["string"], some 1, [none]⟩),                                        -- string.rs:39–42
  ("unquote", ⟨["string"], some 1, [none]⟩),                                      -- string.rs:50–53
  ("to-upper-case", ⟨["string"], some 1, [none]⟩),                                -- string.rs:4–6
  ("to-lower-case", ⟨["string"], some 1, [none]⟩),                                -- string.rs:15–18
  ("split", ⟨["string", "separator", "limit"], some 3, [none, none, some .null]⟩)] -- string.rs:129–139

def sigOf (f : String) : Option Sig := sigTable.lookup f

/-- per parameter: the named value, else the positional one at its index -/
def slotsOf (nm : Named) : List String → List Value → List (Option Value)
  | [], _ => []
  | p :: ps, [] => nm.get p :: slotsOf nm ps []
  | p :: ps, v :: pos => (match nm.get p with | some x => some x | none => some v) :: slotsOf nm ps pos

/-- the positional call the slots amount to: an absent optional parameter that is followed by a
    present one gets its default (`default_arg`); at the first other absent parameter the list
    ends (the function fails there with "Missing argument", or stops fetching). -/
def fillSlots : List (Option Value) → List (Option Value) → List Value
  | [], _ => []
  | some v :: rest, ds => v :: fillSlots rest ds.tail
  | none :: rest, some d :: ds => if rest.any Option.isSome then d :: fillSlots rest ds else []
  | none :: _, _ => []

/-- what `get_variadic` returns: the positional values no `get_positional` touched — a fixed
    parameter given by name leaves the positional value at its index in place -/
def restOf (nm : Named) : List String → List Value → List Value
  | [], pos => pos
  | _ :: _, [] => []
  | p :: ps, v :: pos => if (nm.get p).isSome then v :: restOf nm ps pos else restOf nm ps pos

/-- a named argument that no `get_err`/`default_arg` of the function asks for -/
def leftover (params : List String) (nm : Named) : Bool := nm.any (fun p => !params.contains p.1)

/-- `list.slash` (modules/list.rs:9–27) with named arguments -/
def slashN (pos : List Value) (nm : Named) : R :=
  let len := pos.length + nm.length
  if len < 1 then .error .missingArg
  else if len = 1 then
    match (match nm.get "elements" with | some x => some x | none => pos.head?) with
    | some l => slashF [l]
    | none => .error .missingArg
  else if nm.isEmpty then slashF pos else .error .noNamedArg

/-- `map-merge` (map.rs:98–155) with named arguments: `$map2` is the named value or the positional one
    at index `len() - 1` (in range only when nothing is named); the keys are the untouched positionals. -/
def mapMergeN (sw : Sw) (pos : List Value) (nm : Named) : R :=
  if nm.isEmpty then mapMergeF sw pos
  else if pos.length + nm.length = 1 then .error .noKey
  else
    match (match nm.get "map1" with | some x => some x | none => pos.head?) with
    | none => .error .missingArg
    | some m1 =>
      match assertMap m1 with
      | .error e => .error e
      | .ok a =>
        match nm.get "map2" with
        | none => .error .missingArg
        | some m2 =>
          match assertMap m2 with
          | .error e => .error e
          | .ok b =>
            if leftover ["map1", "map2"] nm then .error .noNamedArg
            else
              let ks := if (nm.get "map1").isSome then pos else pos.drop 1
              .ok (.map (mergeNested sw ks a b))

/-- `map.set` (map.rs:168–240) with named arguments: `key_position = max(len − 2, 1)`,
    `value_position = max(len − 1, 2)`; with something named the value position is never in range and
    the key position only when exactly one argument is named (then it is the last positional, if
    there are two or more); the arity messages are skipped (`num_rest_args = None`). -/
def mapSetN (sw : Sw) (pos : List Value) (nm : Named) : R :=
  if nm.isEmpty then mapSetF sw pos
  else
    match (match nm.get "map" with | some x => some x | none => pos.head?) with
    | none => .error .missingArg
    | some m =>
      match assertMap m with
      | .error e => .error e
      | .ok a =>
        let keyPos : Option Value := if nm.length = 1 ∧ 2 ≤ pos.length then pos.getLast? else none
        match (match nm.get "key" with | some x => some x | none => keyPos) with
        | none => .error .missingArg
        | some key =>
          match nm.get "value" with
          | none => .error .missingArg
          | some val =>
            if leftover ["map", "key", "value"] nm then .error .noNamedArg
            else
              let p1 := if (nm.get "map").isSome then pos else pos.drop 1
              let ks := if (nm.get "key").isSome then p1 else p1.dropLast
              .ok (.map (setNested sw ks a key val))

/-- the documented parameter names a call may use by name -/
def docParams (f : String) : List String :=
  match sigOf f with
  | some sg => sg.params
  | none => if f == "map-merge" then ["map1", "map2"] else if f == "map-set" then ["map", "key", "value"] else []

/-- every name is a documented parameter of `f` -/
def namesKnown (f : String) (nm : Named) : Bool := nm.all (fun p => (docParams f).contains p.1)

def noDup : List String → Bool
  | [] => true
  | a :: t => !t.contains a && noDup t

/-- no name twice, and none names a parameter that is also given by position -/
def namesFresh (f : String) (npos : Nat) (nm : Named) : Bool :=
  nm.all (fun p => !((docParams f).take npos).contains p.1) && noDup (nm.map (·.1))

/-- a call as the code resolves it -/
def callCode (sw : Sw) (f : String) (pos : List Value) (nm : Named) : Option R :=
  if f == "slash" then some (slashN pos nm)
  else if f == "map-merge" then some (mapMergeN sw pos nm)
  else if f == "map-set" then some (mapSetN sw pos nm)
  else
    match sigOf f with
    | none => none
    | some sg =>
      match sg.max with
      | some mx =>
        if mx < pos.length + nm.length then some (.error .tooManyArgs)
        else call sw f (fillSlots (slotsOf nm sg.params pos) sg.defaults)
      | none =>
        let fx := fillSlots (slotsOf nm sg.params pos) []
        let bound := if fx.length = sg.params.length then fx ++ restOf nm sg.params pos else fx
        match call sw f bound with
        | some (.ok v) => if leftover sg.params nm then some (.error .noNamedArg) else some (.ok v)
        | r => r

/-- a call with positional and named arguments.  Documented (`namedStrict`): a name that is no
    parameter, or that names a parameter also given by position, is an error; the nested forms of
    `map-merge` / `map.set` with named arguments are not settled (`unsupported`). -/
def callN (sw : Sw) (f : String) (pos : List Value) (nm : Named) : Option R :=
  if nm.isEmpty then call sw f pos
  else if sw.namedStrict then
    if !namesKnown f nm then some (.error .noNamedArg)
    else if (f == "map-merge" ∧ pos.length + nm.length ≠ 2) ∨ (f == "map-set" ∧ pos.length + nm.length ≠ 3) then
      some (.error .unsupported)
    else if !namesFresh f pos.length nm then some (.error .dupArg)
    else callCode sw f pos nm
  else callCode sw f pos nm

/-! ### module members and global aliases (builtin/functions/*.rs `declare`, builtin/modules/*.rs `declare`;
    the two tables are regenerated from the Rust source by tools/translate_module_aliases.py) -/

/-- the model function (name understood by `call`) of an implementing Rust fn -/
def modelOfRust (path : String) : Option String :=
  [("list::length", "length"), ("list::nth", "nth"), ("list::set_nth", "set-nth"), ("list::append", "append"),
   ("list::join", "join"), ("list::zip", "zip"), ("list::index", "index"), ("list::list_separator", "list-separator"),
   ("list::is_bracketed", "is-bracketed"), ("local:list::slash", "slash"),
   ("map::map_get", "map-get"), ("map::map_has_key", "map-has-key"), ("map::map_keys", "map-keys"),
   ("map::map_values", "map-values"), ("map::map_merge", "map-merge"), ("map::map_remove", "map-remove"),
   ("map::map_set", "map-set"), ("local:map::deep_merge", "deep-merge"), ("local:map::deep_remove", "deep-remove"),
   ("string::str_length", "str-length"), ("string::str_slice", "str-slice"), ("string::str_index", "str-index"),
   ("string::str_insert", "str-insert"), ("string::quote", "quote"), ("string::unquote", "unquote"),
   ("string::to_upper_case", "to-upper-case"), ("string::to_lower_case", "to-lower-case"),
   ("string::str_split", "split")].lookup path

def rustOfGlobal (g : String) : Option String := Grass.Generated.globalTable.lookup g

def rustOfMember (mod mem : String) : Option String :=
  (Grass.Generated.moduleTable.find? (fun e => e.1 == mod && e.2.1 == mem)).map (·.2.2)

/-- a call through a global function name -/
def callGlobal (sw : Sw) (g : String) (pos : List Value) (nm : Named) : Option R :=
  ((rustOfGlobal g).bind modelOfRust).bind (fun f => callN sw f pos nm)

/-- a call through a member of a built-in module -/
def callMember (sw : Sw) (mod mem : String) (pos : List Value) (nm : Named) : Option R :=
  ((rustOfMember mod mem).bind modelOfRust).bind (fun f => callN sw f pos nm)

/-! ### the per-input property predicates (P̂), used by the theorems of GrassProofs/C14.lean on the
    model's answers and by the driver on the implementation's own answers -/

/-- two answers are the same value (structural identity through the canonical encoding) -/
def sameV (a b : Value) : Bool := encV a == encV b

def natOf : Value → Option Nat
  | .num (.fin q) _ => if q.den = 1 ∧ 0 ≤ q.num then some q.num.toNat else none
  | _ => none

/-- `length(append(l, v)) = length(l) + 1` on the two lengths -/
def lawLengthAppend (lenL lenR : Value) : Bool :=
  match natOf lenL, natOf lenR with
  | some a, some b => b == a + 1
  | _, _ => false

/-- `length(join(a, b)) = length(a) + length(b)` on the three lengths -/
def lawLengthJoin (lenA lenB lenR : Value) : Bool :=
  match natOf lenA, natOf lenB, natOf lenR with
  | some a, some b, some r => r == a + b
  | _, _, _ => false

/-- the separator of `join(a, b)` / `join(a, b, $separator)`: `explicit` = the `$separator`
    argument if given (`auto` counts as given-and-auto) -/
def joinSepRule (s1 s2 : Sep) (explicit : Option Sep) : Sep :=
  match explicit with
  | some s => s
  | none => if s1 ≠ .undecided then s1 else if s2 ≠ .undecided then s2 else .space

def lawJoinSep (s1 s2 : Sep) (explicit : Option Sep) (resultSepName : Value) : Bool :=
  sameV resultSepName (.str (sepName (joinSepRule s1 s2 explicit)) false)

/-- `length(zip(ls…)) = min of the lengths` (0 for no list) on the lengths -/
def lawZipLength (lens : List Value) (lenR : Value) : Bool :=
  match natOf lenR with
  | some r =>
    match lens.mapM natOf with
    | some [] => r == 0
    | some (a :: rest) => r == rest.foldl min a
    | none => false
  | none => false

def strOf : Value → Option (List Char × Bool)
  | .str s q => some (s, q)
  | _ => none

/-- `str-slice(s, 1, k) ++ str-slice(s, k+1, -1) = s`, quotes kept -/
def lawSliceConcat (s a b : Value) : Bool :=
  match strOf s, strOf a, strOf b with
  | some (s, q), some (a, qa), some (b, qb) => decide (a ++ b = s) && (qa == q) && (qb == q)
  | _, _, _ => false

/-- `str-length(str-slice(s, a, b)) = b - a + 1` for `1 ≤ a ≤ b ≤ length` -/
def lawLengthSlice (a b : Nat) (lenR : Value) : Bool :=
  match natOf lenR with
  | some r => r + a == b + 1
  | none => false

/-- `str-length(str-insert(s, ins, i)) = str-length(s) + str-length(ins)` on the three lengths -/
def lawLengthInsert (lenS lenI lenR : Value) : Bool :=
  match natOf lenS, natOf lenI, natOf lenR with
  | some a, some b, some r => r == a + b
  | _, _, _ => false

/-- `sub` occurs in `s` at 0-based position `j` -/
def occursAt (sub s : List Char) (j : Nat) : Bool := sub.isPrefixOf (s.drop j)

/-- `str-index(s, sub) = i` ⇒ `str-slice(s, i, i + length(sub) - 1) = sub` (contents; `slice` is
    the implementation's answer to that slice) and `sub` does not occur before `i`;
    `null` ⇒ `sub` occurs nowhere in `s` -/
def lawIndexSlice (s sub idx slice : Value) : Bool :=
  match strOf s, strOf sub with
  | some (s, _), some (sub, _) =>
    match idx with
    | .null => (List.range (s.length + 1)).all (fun j => !occursAt sub s j)
    | i =>
      match natOf i, strOf slice with
      | some i, some (sl, _) =>
        decide (0 < i) && decide (sl = sub) && occursAt sub s (i - 1) &&
          (List.range (i - 1)).all (fun j => !occursAt sub s j)
      | _, _ => false
  | _, _ => false

/-- `unquote(quote(s))` is `s` unquoted and `quote(unquote(s))` is `s` quoted -/
def lawUnquoteQuote (s uq qu : Value) : Bool :=
  match strOf s with
  | some (s, _) => sameV uq (.str s false) && sameV qu (.str s true)
  | none => false

/-- `map-get(map-merge(a, b), k)` is `map-get(b, k)` if `b` has `k`, else `map-get(a, k)` -/
def lawGetMerge (hasB : Value) (getA getB getR : Value) : Bool :=
  match hasB with
  | .bool true => sameV getR getB
  | .bool false => sameV getR getA
  | _ => false

/-- `map-has-key(map-merge(a, b), k) = map-has-key(a, k) or map-has-key(b, k)` -/
def lawKeysMerge (hasA hasB hasR : Value) : Bool :=
  match hasA, hasB, hasR with
  | .bool x, .bool y, .bool r => r == (x || y)
  | _, _, _ => false

/-- `to-upper-case(s)` / `to-lower-case(s)`: same number of code points, ASCII letters shifted by 32,
    every other code point (non-ASCII letters included) unchanged; quotes kept -/
def lawCaseAscii (s up lo : Value) : Bool :=
  match strOf s, strOf up, strOf lo with
  | some (s, q), some (u, qu), some (l, ql) =>
    (qu == q) && (ql == q) && (u.length == s.length) && (l.length == s.length) &&
    (s.zip u).all (fun (c, d) => if 'a' ≤ c ∧ c ≤ 'z' then d.toNat + 32 == c.toNat else d == c) &&
    (s.zip l).all (fun (c, d) => if 'A' ≤ c ∧ c ≤ 'Z' then d.toNat == c.toNat + 32 else d == c)
  | _, _, _ => false

/-- `map-has-key(m, k)` ⇔ some key of `map-keys(m)` is `== k` (`idx` = `index(map-keys(m), k)`) -/
def lawHasKeyIndex (has idx : Value) : Bool :=
  match has, idx with
  | .bool b, .null => b == false
  | .bool b, .num _ _ => b == true
  | _, _ => false

/-- a path outside the one written by `map.set(m, k₁ … kₙ, v)` reads the same before and after -/
def lawSetOtherPath (before after : Value) : Bool := sameV before after

/-- `map-get(map.set(m, k, v), k) = v` -/
def lawGetSet (v getR : Value) : Bool := sameV getR v

/-- `map-get(map-remove(m, k), k) = null` and `map-has-key(…) = false` -/
def lawRemoveGet (getR hasR : Value) : Bool := sameV getR .null && sameV hasR (.bool false)

/-- `nth(set-nth(l, n, v), n) = v` -/
def lawNthSetNth (v r : Value) : Bool := sameV r v

/-- `str-slice(s, -k, e) = str-slice(s, len - k + 1, e)` (and the same on the end position) -/
def lawSliceNeg (a b : Value) : Bool := sameV a b

/-- a list built by `join`/`append` with two or more elements is `==` to the literal list spelt from
    its own `inspect`/`list-separator`/`is-bracketed` answers, in both operand orders (so the
    separator it carries inside is the one it reports) -/
def lawEqLiteral (eq1 eq2 : Value) : Bool := sameV eq1 (.bool true) && sameV eq2 (.bool true)

/-- the separator a value carries as a list -/
def innerSep : Value → Option Sep
  | .list _ s _ => some s
  | _ => none

/-- `nth(l, -k) = nth(l, len - k + 1)` -/
def lawNthNeg (a b : Value) : Bool := sameV a b

/-- `map.deep-merge(a, b)` at key `k`: both values maps ⇒ the deep merge of the two (`sub` = the
    implementation's own `deep-merge(get(a,k), get(b,k))`); `b` has `k` otherwise ⇒ `b`'s value;
    else `a`'s value -/
def lawDeepMergeGet (hasB getA getB sub getR : Value) : Bool :=
  match hasB with
  | .bool false => sameV getR getA
  | .bool true =>
    match tryMap getA, tryMap getB with
    | some _, some _ => sameV getR sub
    | _, _ => sameV getR getB
  | _ => false

/-- `index(l, v)`: `null` ⇒ no element of `l` is `== v`; `i` ⇒ the `i`-th element is `== v` and none
    before it is -/
def lawIndexFirst (sw : Sw) (l v idx : Value) : Bool :=
  match idx with
  | .null => (elems l).all (fun e => !veq sw.eq e v)
  | i =>
    match natOf i with
    | some (n + 1) =>
      (match (elems l)[n]? with | some e => veq sw.eq e v | none => false) &&
        (List.range n).all (fun j => match (elems l)[j]? with | some e => !veq sw.eq e v | none => true)
    | _ => false

def strsOf : List Value → Option (List (List Char))
  | [] => some []
  | .str s true :: t => (strsOf t).map (s :: ·)
  | _ => none

/-- pieces joined with the separator -/
def joinWith (sep : List Char) : List (List Char) → List Char
  | [] => []
  | [p] => p
  | p :: q :: t => p ++ sep ++ joinWith sep (q :: t)

/-- `string.split(s, sep[, limit])`: a bracketed comma list of quoted strings which, joined with `sep`,
    give `s` back; at most `limit + 1` of them -/
def lawSplitJoin (s sep : Value) (limit : Option Nat) (r : Value) : Bool :=
  match strOf s, strOf sep, r with
  | some (s, _), some (sep, _), .list es .comma true =>
    match strsOf es.toList with
    | some ps =>
      decide (joinWith sep ps = s) && decide (1 ≤ ps.length) &&
        (match limit with | some k => decide (ps.length ≤ k + 1) | none => true)
    | none => false
  | _, _, _ => false

/-- `map.deep-remove(m, k₁ … kₙ)`: the path reads `null` afterwards, any other probed path reads as before -/
def lawDeepRemove (getRemoved before after : Value) : Bool := sameV getRemoved .null && sameV before after

/-! ### driver -/
open Grass.Proto

def parseSw? (s : String) : Option Sw :=
  if s == "now" then some .now else if s == "spec" then some .spec
  else if s == "beforefix" then some .beforeFix
  else if s == "strict" then some { Sw.now with namedStrict := true } else none

def errStr (e : Err) : String :=
  match e with
  | .unsupported => "unsupported"
  | e => "err " ++ e.name

def answer : R → String
  | .ok v => "ok " ++ encV v
  | .error e => errStr e

def lawAnswer (b : Bool) : String := if b then "ok holds" else "ok fails"

def optSep? (s : String) : Option (Option Sep) :=
  if s == "none" then some none else (parseSep? s).map some

def namedOf : List (Value × Value) → Option Named
  | [] => some []
  | (.str n false, v) :: t => (namedOf t).map ((normName (String.ofList n), v) :: ·)
  | _ => none

def optNat? (s : String) : Option (Option Nat) :=
  if s == "none" then some none else s.toNat?.map some

def handle : List String → String
  -- call <now|spec|beforefix> <fname> <k> <k values> → ok <value> | err <class> | unsupported
  | "call" :: af :: f :: k :: r =>
    match parseSw? af, k.toNat? with
    | some sw, some k =>
      match parseValues k r with
      | some args =>
        match call sw f args with
        | some res => answer res
        | none => "bad-op"
      | none => "bad-op"
    | _, _ => "bad-op"
  -- callN <variant> <fname> <k> <k values> <map: name ↦ value> → as `call`, with named arguments
  | "callN" :: af :: f :: k :: r =>
    match parseSw? af, k.toNat? with
    | some sw, some k =>
      match parseValues (k + 1) r with
      | some vs =>
        match vs.getLast? with
        | some (.map ps) =>
          match namedOf ps.toList with
          | some nm =>
            match callN sw f (vs.take k) nm with
            | some res => answer res
            | none => "bad-op"
          | none => "bad-op"
        | _ => "bad-op"
      | none => "bad-op"
    | _, _ => "bad-op"
  -- params <fname> → ok <documented parameter names, positional order>
  | ["params", f] => "ok" ++ String.join ((docParams f).map (" " ++ ·))
  -- resolve global <name> | resolve member <module> <name> → ok <model function> | none
  | ["resolve", "global", g] =>
    match (rustOfGlobal g).bind modelOfRust with | some f => "ok " ++ f | none => "none"
  | ["resolve", "member", mod, mem] =>
    match (rustOfMember mod mem).bind modelOfRust with | some f => "ok " ++ f | none => "none"
  -- eq <variant> A B → ok <A == B> <B == A>   (`Grass.Value.veq` under the variant's equality)
  | "eq" :: af :: r =>
    match parseSw? af, parseValues 2 r with
    | some sw, some [a, b] => s!"ok {boolStr (veq sw.eq a b)} {boolStr (veq sw.eq b a)}"
    | _, _ => "bad-op"
  -- law <name> … → ok holds | ok fails
  | "law" :: "join_sep" :: s1 :: s2 :: ex :: r =>
    match parseSep? s1, parseSep? s2, optSep? ex, parseValues 1 r with
    | some s1, some s2, some ex, some [v] => lawAnswer (lawJoinSep s1 s2 ex v)
    | _, _, _, _ => "bad-op"
  | "law" :: "length_slice" :: a :: b :: r =>
    match a.toNat?, b.toNat?, parseValues 1 r with
    | some a, some b, some [v] => lawAnswer (lawLengthSlice a b v)
    | _, _, _ => "bad-op"
  | "law" :: "split_join" :: lim :: r =>
    match optNat? lim, parseValues 3 r with
    | some lim, some [s, sep, v] => lawAnswer (lawSplitJoin s sep lim v)
    | _, _ => "bad-op"
  | "law" :: "zip_length" :: k :: r =>
    match k.toNat? with
    | some k =>
      match parseValues (k + 1) r with
      | some vs => lawAnswer (lawZipLength (vs.take k) (vs.getD k .null))
      | none => "bad-op"
    | none => "bad-op"
  | "law" :: name :: k :: r =>
    match k.toNat? with
    | some k =>
      match parseValues k r with
      | some vs =>
        match name, vs with
        | "length_append", [a, b] => lawAnswer (lawLengthAppend a b)
        | "length_join", [a, b, c] => lawAnswer (lawLengthJoin a b c)
        | "nth_set_nth", [a, b] => lawAnswer (lawNthSetNth a b)
        | "nth_neg", [a, b] => lawAnswer (lawNthNeg a b)
        | "slice_neg", [a, b] => lawAnswer (lawSliceNeg a b)
        | "eq_literal", [a, b] => lawAnswer (lawEqLiteral a b)
        | "slice_concat", [s, a, b] => lawAnswer (lawSliceConcat s a b)
        | "length_insert", [a, b, c] => lawAnswer (lawLengthInsert a b c)
        | "index_slice", [s, sub, i, sl] => lawAnswer (lawIndexSlice s sub i sl)
        | "unquote_quote", [s, a, b] => lawAnswer (lawUnquoteQuote s a b)
        | "get_merge", [h, a, b, c] => lawAnswer (lawGetMerge h a b c)
        | "keys_merge", [a, b, c] => lawAnswer (lawKeysMerge a b c)
        | "get_set", [a, b] => lawAnswer (lawGetSet a b)
        | "has_key_index", [a, b] => lawAnswer (lawHasKeyIndex a b)
        | "case_ascii", [a, b, c] => lawAnswer (lawCaseAscii a b c)
        | "set_other_path", [a, b] => lawAnswer (lawSetOtherPath a b)
        | "remove_get", [a, b] => lawAnswer (lawRemoveGet a b)
        | "deep_merge_get", [h, a, b, s, g] => lawAnswer (lawDeepMergeGet h a b s g)
        | "index_first", [l, v, i] => lawAnswer (lawIndexFirst Sw.now l v i)
        | "deep_remove", [a, b, c] => lawAnswer (lawDeepRemove a b c)
        | _, _ => "bad-op"
      | none => "bad-op"
    | none => "bad-op"
  | _ => "bad-op"

end Grass.Builtins
