import Grass.Proto
/- Core `Builtins` — stub; replaced by the model (see DESIGN.md §8). -/
namespace Grass.Builtins

def handle : List String → String
  | _ => "bad-op"

end Grass.Builtins
