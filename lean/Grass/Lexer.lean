import Grass.Proto
/- Core `Lexer` — stub; replaced by the model (see DESIGN.md §8). -/
namespace Grass.Lexer

def handle : List String → String
  | _ => "bad-op"

end Grass.Lexer
