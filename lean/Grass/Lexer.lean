import Grass.Proto
/-
  C01 / C18 core — the lexer and the character-level scanners.

  Mirrors
    crates/compiler/src/lexer.rs        `TokenLexer::next` (l.128-146), `Lexer::span_at_index` (l.38-53)
    crates/compiler/src/common.rs       `Identifier::from_str` (l.131-137)
    crates/compiler/src/parse/base.rs   `BaseParser` scanners (whitespace, comments, identifier, escape,
                                        string, declaration_value, try_parse_url)
    crates/compiler/src/parse/sass.rs   `SassParser::whitespace_without_comments` (l.30), `skip_loud_comment` (l.40)
    crates/compiler/src/parse/stylesheet.rs  `parse_interpolated_string` (l.1010), `try_url_contents` (l.797),
                                        `parse_interpolated_identifier` (l.1960),
                                        `parse_interpolated_declaration_value` (l.2070), `almost_any_value` (l.2740)
    crates/compiler/src/parse/value.rs  `parse_number` (l.980), `try_decimal`, `try_exponent`, `consume_natural_number`

  A scanner works on the token buffer `s : Array Char` (the `kind`s produced by the lexer) and a
  cursor `i`.  Every loop of the Rust code is a recursive function here, written WITHOUT fuel:
  Lean accepts the definitions only because it can show `s.size - i` decreases, i.e. because every
  path through the loop body that continues the loop has advanced the cursor.  Where a loop calls
  another scanner, the callee's progress lemma (`…_adv`) is proved first and used in `decreasing_by`.

  Interpolation (`#{`) calls the expression parser, which is above the scanner layer: the
  interpolating variants answer `unsupported` there (never a guess).
-/
namespace Grass.Lexer

/-! ## 1. `TokenLexer` (lexer.rs:128) -/

structure Tok where
  kind : Char
  pos  : Nat          -- byte offset in the source
  deriving DecidableEq, Repr, Inhabited

def FF : Char := Char.ofNat 12
def CR : Char := '\r'
def LF : Char := '\n'

/-- `TokenLexer::next` iterated to the end; `cur` is `self.cursor`.
    FF → LF (1 byte); CR LF → one LF whose `pos` is the LF byte (`cursor += 1` happens before
    `pos` is read); lone CR → LF; anything else is itself, `len_utf8` bytes wide. -/
def lexFrom (cur : Nat) : List Char → List Tok
  | [] => []
  | c :: rest =>
    if c = FF then ⟨LF, cur⟩ :: lexFrom (cur + 1) rest
    else if c = CR then
      match rest with
      | [] => [⟨LF, cur⟩]
      | d :: rest' =>
        if d = LF then ⟨LF, cur + 1⟩ :: lexFrom (cur + 2) rest'
        else ⟨LF, cur⟩ :: lexFrom (cur + 1) (d :: rest')
    else ⟨c, cur⟩ :: lexFrom (cur + c.utf8Size) rest

def lex (s : List Char) : List Tok := lexFrom 0 s

def kinds (ts : List Tok) : List Char := ts.map (·.kind)

/-- Specification of the token kinds: the text with every FF, CRLF, CR written as LF. -/
def normNL : List Char → List Char
  | [] => []
  | c :: rest =>
    if c = FF then LF :: normNL rest
    else if c = CR then
      match rest with
      | [] => [LF]
      | d :: rest' => if d = LF then LF :: normNL rest' else LF :: normNL (d :: rest')
    else c :: normNL rest

/-- Byte length of a text (UTF-8). -/
def byteLen : List Char → Nat
  | [] => 0
  | c :: rest => c.utf8Size + byteLen rest

/-- Byte offsets that are character boundaries of the text, starting at offset `n`
    (includes both ends). -/
def boundaries (n : Nat) : List Char → List Nat
  | [] => [n]
  | c :: rest => n :: boundaries (n + c.utf8Size) rest

/-- The four ways of writing a newline. -/
inductive NL where
  | lf | crlf | cr | ff
  deriving DecidableEq, Repr, Inhabited

def NL.chars : NL → List Char
  | .lf => [LF] | .crlf => [CR, LF] | .cr => [CR] | .ff => [FF]

/-- Write every LF of `s` as `k`. -/
def substNewlines (k : NL) : List Char → List Char
  | [] => []
  | c :: rest => if c = LF then k.chars ++ substNewlines k rest else c :: substNewlines k rest

/-- Positions after LF → CRLF: every token moves right by the number of newlines before it, a
    newline token itself by one more (its `pos` is the LF byte of the pair). -/
def shiftFrom (d : Nat) : List Tok → List Tok
  | [] => []
  | t :: ts =>
    if t.kind = LF then ⟨LF, t.pos + d + 1⟩ :: shiftFrom (d + 1) ts
    else ⟨t.kind, t.pos + d⟩ :: shiftFrom d ts

/-- `Lexer::span_at_index` (lexer.rs:38) for a non-expanded lexer: (start byte, length). -/
def spanAtIndex (ts : Array Tok) (idx : Nat) : Nat × Nat :=
  match ts[idx]? with
  | some t => (t.pos, t.kind.utf8Size)
  | none =>
    match ts.back? with
    | some t => (t.pos, t.kind.utf8Size)
    | none => (0, 0)

/-! ## 2. `Identifier::from_str` (common.rs:131): `_` → `-` -/

def normChar (c : Char) : Char := if c = '_' then '-' else c

def identNorm (s : List Char) : List Char := s.map normChar

/-- Exchange `_` and `-`. -/
def swapChar (c : Char) : Char := if c = '_' then '-' else if c = '-' then '_' else c

def identSwap (s : List Char) : List Char := s.map swapChar

/-- Two characters are the same up to `_`/`-`. -/
def sameUpTo (a b : Char) : Prop := a = b ∨ ((a = '_' ∨ a = '-') ∧ (b = '_' ∨ b = '-'))

instance (a b : Char) : Decidable (sameUpTo a b) := by unfold sameUpTo; infer_instance

/-- Two names are equal up to `_`/`-` (same length, position-wise). -/
def eqUpTo : List Char → List Char → Prop
  | [], [] => True
  | a :: as, b :: bs => sameUpTo a b ∧ eqUpTo as bs
  | _, _ => False

instance eqUpToDec : (a b : List Char) → Decidable (eqUpTo a b)
  | [], [] => isTrue trivial
  | [], _ :: _ => isFalse (by simp [eqUpTo])
  | _ :: _, [] => isFalse (by simp [eqUpTo])
  | a :: as, b :: bs =>
    match (inferInstance : Decidable (sameUpTo a b)), eqUpToDec as bs with
    | isTrue h1, isTrue h2 => isTrue ⟨h1, h2⟩
    | isFalse h1, _ => isFalse (fun h => h1 h.1)
    | _, isFalse h2 => isFalse (fun h => h2 h.2)

/-! ## 2b. The column of a loud comment (serializer.rs:997 `write_comment`) -/

/-- number of characters after the last character satisfying `isBreak` -/
def lastLineLen (isBreak : Char → Bool) : List Char → Nat → Nat
  | [], n => n
  | c :: r, n => if isBreak c then lastLineLen isBreak r 0 else lastLineLen isBreak r (n + 1)

/-- the characters after the last character satisfying `isBreak` (`acc`: the current line, reversed) -/
def lastLine (isBreak : Char → Bool) : List Char → List Char → List Char
  | [], acc => acc.reverse
  | c :: r, acc => if isBreak c then lastLine isBreak r [] else lastLine isBreak r (c :: acc)

/-- LF, CR or FF: the three characters the lexer turns into a newline token -/
def isLineBreak (c : Char) : Bool := c == LF || c == CR || c == FF

def BOMc : Char := Char.ofNat 0xFEFF

/-- The column `Serializer::write_comment` subtracts from the indentation of the continuation lines
    of a loud comment (serializer.rs:997-1011), for a comment that starts right after the text `pre`.
    `asFound = false`: the code as it is NOW (fix e81c3e6) — characters of the comment's own line,
    the line starting after the last LF, CR or FF, byte order marks at the start of that line not
    counted.  `asFound = true`: the variant found on the pinned tree — codemap's column, i.e.
    characters since the last LF only, a BOM counted (kept for the witness in GrassProofs/C18.lean). -/
def commentColumn (asFound : Bool) (pre : List Char) : Nat :=
  if asFound then lastLineLen (· == LF) pre 0
  else ((lastLine isLineBreak pre []).dropWhile (· == BOMc)).length

/-! ## 3. Scanner results -/

inductive ErrClass where
  | expectedMoreInput          -- "expected more input."
  | expectedCommentEnd         -- "expected */."
  | expectedDigit              -- "Expected digit."
  | expectedIdentifier         -- "Expected identifier."
  | expectedEscape             -- "Expected escape sequence."
  | expectedExpression         -- "Expected expression."
  | invalidCodePoint           -- "Invalid Unicode code point."
  | expectedQuote (q : Char)   -- "Expected <q>."
  | expectedChar (c : Char)    -- "expected \"<c>\"."
  | expectedToken              -- "Expected token."
  | expectedString             -- "Expected string."
  | silentCommentInCss         -- "Silent comments aren't allowed in plain CSS."
  deriving DecidableEq, Repr, Inhabited

/-- Which lexer span an error carries (`current_span`, `prev_span`, `span_from(start)`), as token
    indexes; `spanBytes` turns it into bytes through `spanAtIndex`. -/
inductive SpanRef where
  | cur (i : Nat)
  | prev (i : Nat)
  | range (start i : Nat)
  deriving DecidableEq, Repr, Inhabited

/-- (low byte, high byte) of a span reference — `span_at_index`, `prev_span`, `span_from` + `merge`. -/
def spanBytes (ts : Array Tok) : SpanRef → Nat × Nat
  | .cur i => let (p, l) := spanAtIndex ts i; (p, p + l)
  | .prev i => let (p, l) := spanAtIndex ts (i - 1); (p, p + l)
  | .range st i =>
    let (p, l) := spanAtIndex ts st
    let (q, m) := spanAtIndex ts (i - 1)
    (min p q, max (p + l) (q + m))

inductive Res where
  | ok (j : Nat)
  | err (e : ErrClass) (sp : SpanRef)
  | unsupported
  deriving DecidableEq, Repr, Inhabited

/-- Result carrying the text the scanner produced. -/
inductive ResT where
  | ok (j : Nat) (text : List Char)
  | err (e : ErrClass) (sp : SpanRef)
  | unsupported
  deriving DecidableEq, Repr, Inhabited

def ResT.toRes : ResT → Res
  | .ok j _ => .ok j
  | .err e sp => .err e sp
  | .unsupported => .unsupported

/-! ## 4. Character classes (utils/chars.rs) -/

def isDigit (c : Char) : Bool := c.isDigit
def isHex (c : Char) : Bool :=
  c.isDigit || ('a'.toNat ≤ c.toNat && c.toNat ≤ 'f'.toNat) || ('A'.toNat ≤ c.toNat && c.toNat ≤ 'F'.toNat)
/-- `is_name_start`: `_`, alphabetic, or ≥ U+0080 (for ASCII, alphabetic = letter). -/
def isNameStart (c : Char) : Bool := c == '_' || c.isAlpha || c.toNat ≥ 0x80
def isName (c : Char) : Bool := isNameStart c || c.isDigit || c == '-'
/-- `char::is_ascii_whitespace`: space, tab, LF, FF, CR. -/
def isAsciiWs (c : Char) : Bool := c == ' ' || c == '\t' || c == '\n' || c == FF || c == '\r'
def hexVal (c : Char) : Nat :=
  if c.isDigit then c.toNat - 48 else if 'a'.toNat ≤ c.toNat then c.toNat - 87 else c.toNat - 55
/-- `char::from_u32`. -/
def validScalar (v : Nat) : Bool := v < 0xD800 || (0xE000 ≤ v && v ≤ 0x10FFFF)
def hexCharFor (n : Nat) : Char := if n < 10 then Char.ofNat (48 + n) else Char.ofNat (87 + n)

/-! ## 5. Simple loops -/

/-- `whitespace_without_comments`: base.rs:12 (space, tab, newline) and the indented override
    sass.rs:30 (space, tab only). -/
def wsNoComments (ind : Bool) (s : Array Char) (i : Nat) : Nat :=
  if h : i < s.size then
    if s[i] == ' ' || s[i] == '\t' || (s[i] == '\n' && !ind) then wsNoComments ind s (i + 1) else i
  else i
termination_by s.size - i

/-- body of `skip_silent_comment` (base.rs:58): up to, not including, the newline. -/
def untilNewline (s : Array Char) (i : Nat) : Nat :=
  if h : i < s.size then
    if s[i] == '\n' then i else untilNewline s (i + 1)
  else i
termination_by s.size - i

/-- `while self.scan_char('*') {}` -/
def skipStars (s : Array Char) (i : Nat) : Nat :=
  if h : i < s.size then
    if s[i] == '*' then skipStars s (i + 1) else i
  else i
termination_by s.size - i

/-- a run of ASCII digits -/
def skipDigits (s : Array Char) (i : Nat) : Nat :=
  if h : i < s.size then
    if isDigit s[i] then skipDigits s (i + 1) else i
  else i
termination_by s.size - i

theorem wsNoComments_ge (ind : Bool) (s : Array Char) (i : Nat) : i ≤ wsNoComments ind s i := by
  fun_induction wsNoComments ind s i <;> omega

theorem wsNoComments_le (ind : Bool) (s : Array Char) (i : Nat) (hi : i ≤ s.size) :
    wsNoComments ind s i ≤ s.size := by
  fun_induction wsNoComments ind s i <;> omega

theorem untilNewline_ge (s : Array Char) (i : Nat) : i ≤ untilNewline s i := by
  fun_induction untilNewline s i <;> omega

theorem untilNewline_le (s : Array Char) (i : Nat) (hi : i ≤ s.size) : untilNewline s i ≤ s.size := by
  fun_induction untilNewline s i <;> omega

theorem skipStars_ge (s : Array Char) (i : Nat) : i ≤ skipStars s i := by
  fun_induction skipStars s i <;> omega

theorem skipStars_le (s : Array Char) (i : Nat) (hi : i ≤ s.size) : skipStars s i ≤ s.size := by
  fun_induction skipStars s i <;> omega

theorem skipDigits_ge (s : Array Char) (i : Nat) : i ≤ skipDigits s i := by
  fun_induction skipDigits s i <;> omega

theorem skipDigits_le (s : Array Char) (i : Nat) (hi : i ≤ s.size) : skipDigits s i ≤ s.size := by
  fun_induction skipDigits s i <;> omega

/-! ## 6. Loud comments -/

/-- `skip_loud_comment`, SCSS/CSS (base.rs:75), after the opening `/*` has been consumed.
    `while let Some(next) = next() { if next != '*' continue; while scan_char('*') {};
     if scan_char('/') return Ok }  Err("expected more input.")` -/
def loudBody (s : Array Char) (i : Nat) : Res :=
  if h : i < s.size then
    if s[i] == '*' then
      let k := skipStars s (i + 1)
      if h2 : k < s.size then
        if s[k] == '/' then .ok (k + 1) else loudBody s k
      else .err .expectedMoreInput (.cur k)
    else loudBody s (i + 1)
  else .err .expectedMoreInput (.cur i)
termination_by s.size - i
decreasing_by
  · have := skipStars_ge s (i + 1); omega
  · omega

/-- `SassParser::skip_loud_comment` (sass.rs:40) as it is now, after the opening `/*`:
    a newline inside the comment is "expected */." at `prev_span`; end of input is
    "expected more input."; after a run of `*` the next token is consumed whatever it is. -/
def sassLoudBody (s : Array Char) (i : Nat) : Res :=
  if h : i < s.size then
    if s[i] == '\n' then .err .expectedCommentEnd (.prev (i + 1))
    else if s[i] == '*' then
      let k := skipStars s (i + 1)
      if h2 : k < s.size then
        if s[k] == '/' then .ok (k + 1) else sassLoudBody s (k + 1)
      else .err .expectedMoreInput (.cur k)
    else sassLoudBody s (i + 1)
  else .err .expectedMoreInput (.cur i)
termination_by s.size - i
decreasing_by
  · have := skipStars_ge s (i + 1); omega
  · omega

/-- Outcome of a fuel-indexed run. -/
inductive Fueled where
  | outOfFuel
  | done (r : Res)
  deriving DecidableEq, Repr, Inhabited

/-- The same loop AS FOUND on the pinned tree (sass.rs:51 before the fix): `None` fell into
    `_ => continue`, which does not advance.  No measure exists, so this one takes fuel; one unit
    per iteration of the outer `loop`. -/
def sassLoudAsFound : Nat → Array Char → Nat → Fueled
  | 0, _, _ => .outOfFuel
  | fuel + 1, s, i =>
    if h : i < s.size then
      if s[i] == '\n' then .done (.err .expectedCommentEnd (.prev (i + 1)))
      else if s[i] == '*' then
        let k := skipStars s (i + 1)
        if h2 : k < s.size then
          if s[k] == '/' then .done (.ok (k + 1)) else sassLoudAsFound fuel s (k + 1)
        else sassLoudAsFound fuel s k
      else sassLoudAsFound fuel s (i + 1)
    else sassLoudAsFound fuel s i          -- `None => continue`: cursor unchanged

theorem loudBody_adv (s : Array Char) (i j : Nat) (h : loudBody s i = .ok j) : i < j ∧ j ≤ s.size := by
  fun_induction loudBody s i
  all_goals (try (simp at h))
  case case1 i hi hs k hk hsl =>
    have := skipStars_ge s (i + 1)
    subst h; omega
  case case2 i hi hs k hk hsl ih =>
    have := skipStars_ge s (i + 1)
    have := ih h; omega
  case case4 i hi hs ih => have := ih h; omega

theorem sassLoudBody_adv (s : Array Char) (i j : Nat) (h : sassLoudBody s i = .ok j) :
    i < j ∧ j ≤ s.size := by
  fun_induction sassLoudBody s i
  all_goals (try (simp at h))
  case case2 i hi hn hs k hk hsl =>
    have := skipStars_ge s (i + 1)
    subst h; omega
  case case3 i hi hn hs k hk hsl ih =>
    have := skipStars_ge s (i + 1)
    have := ih h; omega
  case case5 i hi hn hs ih => have := ih h; omega

/-! ## 7. `whitespace` with comments (base.rs:24, `scan_comment` base.rs:36) -/

/-- The three stylesheet parsers. -/
inductive Syn where
  | scss | sass | css
  deriving DecidableEq, Repr, Inhabited

def Syn.ind (y : Syn) : Bool := y == .sass

def loudFor (ind : Bool) (s : Array Char) (i : Nat) : Res :=
  if ind then sassLoudBody s i else loudBody s i

theorem loudFor_adv (ind : Bool) (s : Array Char) (i j : Nat) (h : loudFor ind s i = .ok j) :
    i < j ∧ j ≤ s.size := by
  unfold loudFor at h
  split at h
  · exact sassLoudBody_adv s i j h
  · exact loudBody_adv s i j h

/-- `loop { whitespace_without_comments(); if !scan_comment()? { break } }`.
    In plain CSS `skip_silent_comment` is an error (css.rs:28). -/
def whitespace (y : Syn) (s : Array Char) (i : Nat) : Res :=
  let j := wsNoComments y.ind s i
  if h : j + 1 < s.size then
    if s[j] == '/' then
      if s[j + 1] == '/' then
        if y == .css then .err .silentCommentInCss (.cur j)
        else whitespace y s (untilNewline s (j + 2))
      else if s[j + 1] == '*' then
        match hm : loudFor y.ind s (j + 2) with
        | .ok k => whitespace y s k
        | .err e sp => .err e sp
        | .unsupported => .unsupported
      else .ok j
    else .ok j
  else .ok j
termination_by s.size - i
decreasing_by
  · have := wsNoComments_ge y.ind s i
    have := untilNewline_ge s (wsNoComments y.ind s i + 2)
    omega
  · have := wsNoComments_ge y.ind s i
    have := loudFor_adv y.ind s _ _ hm
    omega

theorem whitespace_ge_aux (y : Syn) (s : Array Char) : ∀ (n i j : Nat), s.size - i < n →
    whitespace y s i = .ok j → i ≤ j ∧ (i ≤ s.size → j ≤ s.size) := by
  intro n
  induction n with
  | zero => intro i j hn; omega
  | succ n ih =>
    intro i j hn h
    have a := wsNoComments_ge y.ind s i
    have b := wsNoComments_le y.ind s i
    unfold whitespace at h
    dsimp only at h
    split at h
    · split at h
      · split at h
        · split at h
          · cases h
          · have c := untilNewline_ge s (wsNoComments y.ind s i + 2)
            have c2 := untilNewline_le s (wsNoComments y.ind s i + 2) (by omega)
            have := ih _ _ (by omega) h; omega
        · split at h
          · split at h
            · rename_i k hm
              have := loudFor_adv _ _ _ _ hm
              have := ih _ _ (by omega) h; omega
            · cases h
            · cases h
          · injection h with h; omega
      · injection h with h; omega
    · injection h with h; omega

theorem whitespace_ge (y : Syn) (s : Array Char) (i j : Nat) (h : whitespace y s i = .ok j) :
    i ≤ j ∧ (i ≤ s.size → j ≤ s.size) :=
  whitespace_ge_aux y s (s.size - i + 1) i j (by omega) h

/-! ## 8. Escapes (base.rs:212 `parse_escape`, base.rs:340 `consume_escaped_char`) -/

/-- `for _ in 0..6 { peek hex? … next }`: at most `n` hex digits; returns (cursor, value). -/
def hexRun (s : Array Char) : Nat → Nat → Nat → Nat × Nat
  | 0, i, acc => (i, acc)
  | n + 1, i, acc =>
    if h : i < s.size then
      if isHex s[i] then hexRun s n (i + 1) (acc * 16 + hexVal s[i]) else (i, acc)
    else (i, acc)

theorem hexRun_ge (s : Array Char) (n i acc : Nat) : i ≤ (hexRun s n i acc).1 := by
  induction n generalizing i acc with
  | zero => simp [hexRun]
  | succ n ih =>
    unfold hexRun
    split
    · split
      · have := ih (i + 1) (acc * 16 + hexVal s[i]); omega
      · simp
    · simp

theorem hexRun_le (s : Array Char) (n i acc : Nat) (hi : i ≤ s.size) : (hexRun s n i acc).1 ≤ s.size := by
  induction n generalizing i acc with
  | zero => simpa [hexRun] using hi
  | succ n ih =>
    unfold hexRun
    split
    · split
      · exact ih (i + 1) _ (by omega)
      · simpa using hi
    · simpa using hi

/-- optional single whitespace after a hex escape -/
def skipOne (p : Char → Bool) (s : Array Char) (j : Nat) : Nat :=
  if h : j < s.size then (if p s[j] then j + 1 else j) else j

theorem skipOne_ge (p : Char → Bool) (s : Array Char) (j : Nat) : j ≤ skipOne p s j := by
  unfold skipOne; split <;> (try split) <;> omega

theorem skipOne_le (p : Char → Bool) (s : Array Char) (j : Nat) (hj : j ≤ s.size) : skipOne p s j ≤ s.size := by
  unfold skipOne; split <;> (try split) <;> omega

/-- Text `parse_escape` returns for code point `v` (base.rs:248-265). -/
def escText (idStart : Bool) (v : Nat) : List Char :=
  let c := Char.ofNat v
  if (idStart && isNameStart c && !c.isDigit) || (!idStart && isName c) then [c]
  else if v ≤ 0x1F || v == 0x7F || (idStart && c.isDigit) then
    '\\' :: ((if v > 0xF then [hexCharFor (v / 16)] else []) ++ [hexCharFor (v % 16), ' '])
  else ['\\', c]

/-- `parse_escape(identifier_start)`, cursor on the backslash. -/
def parseEscape (idStart : Bool) (s : Array Char) (i : Nat) : ResT :=
  if h : i < s.size then
    if s[i] != '\\' then .err (.expectedChar '\\') (.cur i)
    else if h1 : i + 1 < s.size then
      if s[i + 1] == '\n' then .err .expectedEscape (.cur (i + 1))
      else if isHex s[i + 1] then
        let r := hexRun s 6 (i + 1) 0
        let j := skipOne (fun c => c == ' ' || c == '\n' || c == '\t') s r.1
        if validScalar r.2 then .ok j (escText idStart r.2) else .err .invalidCodePoint (.range i j)
      else .ok (i + 2) (escText idStart s[i + 1].toNat)
    else .err .expectedExpression (.cur (i + 1))
  else .err (.expectedChar '\\') (.cur i)

theorem hexRun_adv (s : Array Char) (i acc : Nat) (h : i < s.size) (hx : isHex s[i] = true) :
    i < (hexRun s 6 i acc).1 := by
  unfold hexRun
  simp only [h, ↓reduceDIte, hx, ↓reduceIte]
  have := hexRun_ge s 5 (i + 1) (acc * 16 + hexVal s[i]); omega

theorem parseEscape_adv (b : Bool) (s : Array Char) (i j : Nat) (t : List Char)
    (h : parseEscape b s i = .ok j t) : i < j ∧ j ≤ s.size := by
  unfold parseEscape at h
  split at h
  · split at h
    · cases h
    · split at h
      · split at h
        · cases h
        · rename_i hlt _ hi1 _
          split at h
          · rename_i hx
            dsimp only at h
            split at h
            · injection h with h1 h2
              have a := hexRun_adv s (i + 1) 0 hi1 hx
              have b := hexRun_le s 6 (i + 1) 0 (by omega)
              have c := skipOne_ge (fun c => c == ' ' || c == '\n' || c == '\t') s (hexRun s 6 (i + 1) 0).1
              have d := skipOne_le (fun c => c == ' ' || c == '\n' || c == '\t') s (hexRun s 6 (i + 1) 0).1 b
              omega
            · cases h
          · injection h with h1 h2; omega
      · cases h
  · cases h

/-- The code point `consume_escaped_char` hands to `char::from_u32(..).unwrap()` for the hex value
    `v` (base.rs:368): 0, the surrogates U+D800..=U+DFFF (closed range) and everything from
    U+10FFFF up become U+FFFD first. -/
def escapedScalar (v : Nat) : Nat :=
  if v == 0 || (0xD800 ≤ v && v ≤ 0xDFFF) || v ≥ 0x10FFFF then 0xFFFD else v

/-- `consume_escaped_char`, cursor on the backslash; the text is the one character it yields. -/
def consumeEscapedChar (s : Array Char) (i : Nat) : ResT :=
  if h : i < s.size then
    if s[i] != '\\' then .err (.expectedChar '\\') (.cur i)
    else if h1 : i + 1 < s.size then
      if s[i + 1] == '\n' || s[i + 1] == '\r' then .err .expectedEscape (.cur (i + 1))
      else if isHex s[i + 1] then
        let r := hexRun s 6 (i + 1) 0
        let j := skipOne isAsciiWs s r.1
        let v := r.2
        .ok j [Char.ofNat (escapedScalar v)]
      else .ok (i + 2) [s[i + 1]]
    else .ok (i + 1) [Char.ofNat 0xFFFD]
  else .err (.expectedChar '\\') (.cur i)

theorem consumeEscapedChar_adv (s : Array Char) (i j : Nat) (t : List Char)
    (h : consumeEscapedChar s i = .ok j t) : i < j ∧ j ≤ s.size := by
  unfold consumeEscapedChar at h
  split at h
  · split at h
    · cases h
    · split at h
      · split at h
        · cases h
        · rename_i hlt _ hi1 _
          split at h
          · rename_i hx
            dsimp only at h
            injection h with h1 h2
            have a := hexRun_adv s (i + 1) 0 hi1 hx
            have b := hexRun_le s 6 (i + 1) 0 (by omega)
            have c := skipOne_ge isAsciiWs s (hexRun s 6 (i + 1) 0).1
            have d := skipOne_le isAsciiWs s (hexRun s 6 (i + 1) 0).1 b
            omega
          · injection h with h1 h2; omega
      · injection h with h1 h2; omega
  · cases h

/-! ## 9. Identifiers (base.rs:135 `parse_identifier`, base.rs:176 `parse_identifier_body`) -/

def peekIs (s : Array Char) (i : Nat) (c : Char) : Bool :=
  if h : i < s.size then s[i] == c else false

def peekSat (s : Array Char) (i : Nat) (p : Char → Bool) : Bool :=
  if h : i < s.size then p s[i] else false

theorem peekIs_lt {s : Array Char} {i : Nat} {c : Char} (h : peekIs s i c = true) : i < s.size := by
  unfold peekIs at h; split at h <;> simp_all

theorem peekSat_lt {s : Array Char} {i : Nat} {p : Char → Bool} (h : peekSat s i p = true) : i < s.size := by
  unfold peekSat at h; split at h <;> simp_all

/-- `parse_identifier_body`; `acc` is the text so far, reversed. -/
def identBody (norm unit : Bool) (s : Array Char) (i : Nat) (acc : List Char) : ResT :=
  if h : i < s.size then
    if unit && s[i] == '-' then
      if h2 : i + 1 < s.size then
        if s[i + 1] == '.' || isDigit s[i + 1] then .ok i acc.reverse
        else identBody norm unit s (i + 1) ('-' :: acc)
      else .ok i acc.reverse
    else if norm && s[i] == '_' then identBody norm unit s (i + 1) ('-' :: acc)
    else if isName s[i] then identBody norm unit s (i + 1) (s[i] :: acc)
    else if s[i] == '\\' then
      match hm : parseEscape false s i with
      | .ok j t => identBody norm unit s j (t.reverse ++ acc)
      | .err e sp => .err e sp
      | .unsupported => .unsupported
    else .ok i acc.reverse
  else .ok i acc.reverse
termination_by s.size - i
decreasing_by
  all_goals (try omega)
  have := parseEscape_adv false s i _ _ hm; omega

theorem identBody_ge (n u : Bool) (s : Array Char) (i : Nat) (acc : List Char) (j : Nat) (t : List Char)
    (h : identBody n u s i acc = .ok j t) : i ≤ j ∧ (i ≤ s.size → j ≤ s.size) := by
  fun_induction identBody n u s i acc
  all_goals (try (simp at h))
  all_goals (try (have := h.1; omega))
  all_goals (try (rename_i ih; have := ih h; omega))
  all_goals (rename_i hm ih; have := parseEscape_adv false s _ _ _ hm; have := ih h; omega)

/-- `parse_identifier(normalize, unit)`. -/
def parseIdentifier (norm unit : Bool) (s : Array Char) (i : Nat) : ResT :=
  let (a, pre) : Nat × List Char := if peekIs s i '-' then (i + 1, ['-']) else (i, [])
  if a ≠ i ∧ peekIs s a '-' then identBody norm unit s (a + 1) ('-' :: pre)
  else if h : a < s.size then
    if norm && s[a] == '_' then identBody norm unit s (a + 1) ('-' :: pre)
    else if isNameStart s[a] then identBody norm unit s (a + 1) (s[a] :: pre)
    else if s[a] == '\\' then
      match parseEscape true s a with
      | .ok j t => identBody norm unit s j (t.reverse ++ pre)
      | .err e sp => .err e sp
      | .unsupported => .unsupported
    else .err .expectedIdentifier (.cur a)
  else .err .expectedIdentifier (.cur a)

theorem parseIdentifier_adv (n u : Bool) (s : Array Char) (i j : Nat) (t : List Char)
    (h : parseIdentifier n u s i = .ok j t) : i < j ∧ j ≤ s.size := by
  unfold parseIdentifier at h
  by_cases hp : peekIs s i '-' = true
  · have hlt := peekIs_lt hp
    simp only [hp, ↓reduceIte] at h
    split at h
    · rename_i h2
      have := peekIs_lt h2.2
      have := identBody_ge _ _ _ _ _ _ _ h; omega
    · split at h
      · split at h
        · have := identBody_ge _ _ _ _ _ _ _ h; omega
        · split at h
          · have := identBody_ge _ _ _ _ _ _ _ h; omega
          · split at h
            · split at h
              · rename_i hm
                have := parseEscape_adv _ _ _ _ _ hm
                have := identBody_ge _ _ _ _ _ _ _ h; omega
              · cases h
              · cases h
            · cases h
      · cases h
  · simp only [hp, Bool.false_eq_true, ↓reduceIte] at h
    split at h
    · rename_i h2; exact absurd rfl h2.1
    · split at h
      · split at h
        · have := identBody_ge _ _ _ _ _ _ _ h; omega
        · split at h
          · have := identBody_ge _ _ _ _ _ _ _ h; omega
          · split at h
            · split at h
              · rename_i hm
                have := parseEscape_adv _ _ _ _ _ hm
                have := identBody_ge _ _ _ _ _ _ _ h; omega
              · cases h
              · cases h
            · cases h
      · cases h

/-- `looking_at_identifier` (base.rs:507). -/
def lookingAtIdentifier (s : Array Char) (i : Nat) : Bool :=
  if h : i < s.size then
    if isNameStart s[i] || s[i] == '\\' then true
    else if s[i] == '-' then peekSat s (i + 1) (fun c => isNameStart c || c == '-' || c == '\\')
    else false
  else false


/-! ## 10. Quoted strings (base.rs:290 `parse_string`; stylesheet.rs:1010 `parse_interpolated_string`) -/

def isNewlineTok (c : Char) : Bool := c == '\n' || c == '\r'

/-- body of `parse_string` after the opening quote `q`. -/
def stringBody (q : Char) (s : Array Char) (i : Nat) : Res :=
  if h : i < s.size then
    if s[i] == q then .ok (i + 1)
    else if isNewlineTok s[i] then .err (.expectedQuote q) (.cur i)
    else if s[i] == '\\' then
      if hn : peekSat s (i + 1) isNewlineTok then stringBody q s (i + 2)
      else
        match hm : consumeEscapedChar s i with
        | .ok j _ => stringBody q s j
        | .err e sp => .err e sp
        | .unsupported => .unsupported
    else stringBody q s (i + 1)
  else .err (.expectedQuote q) (.cur i)
termination_by s.size - i
decreasing_by
  · have := peekSat_lt hn; omega
  · have := consumeEscapedChar_adv s i _ _ hm; omega
  · omega

theorem stringBody_adv (q : Char) (s : Array Char) (i j : Nat) (h : stringBody q s i = .ok j) :
    i < j ∧ j ≤ s.size := by
  fun_induction stringBody q s i
  all_goals (try (simp at h))
  all_goals (try omega)
  all_goals (try (rename_i ih; have := ih h; omega))
  all_goals (rename_i hm ih; have := consumeEscapedChar_adv s _ _ _ hm; have := ih h; omega)

/-- `parse_string`: cursor on the opening quote. -/
def parseString (s : Array Char) (i : Nat) : Res :=
  if h : i < s.size then
    if s[i] == '"' || s[i] == '\'' then stringBody s[i] s (i + 1) else .err .expectedString (.cur (i + 1))
  else .err .expectedString (.cur i)

theorem parseString_adv (s : Array Char) (i j : Nat) (h : parseString s i = .ok j) : i < j ∧ j ≤ s.size := by
  unfold parseString at h
  split at h
  · split at h
    · have := stringBody_adv _ _ _ _ h; omega
    · cases h
  · cases h

/-- body of `parse_interpolated_string` after the opening quote; `#{` is above the scanner layer. -/
def istringBody (q : Char) (s : Array Char) (i : Nat) : Res :=
  if h : i < s.size then
    if s[i] == q then .ok (i + 1)
    else if s[i] == '\n' then .err (.expectedQuote q) (.cur i)
    else if s[i] == '\\' then
      if hn : peekIs s (i + 1) '\n' then istringBody q s (i + 2)
      else
        match hm : consumeEscapedChar s i with
        | .ok j _ => istringBody q s j
        | .err e sp => .err e sp
        | .unsupported => .unsupported
    else if s[i] == '#' && peekIs s (i + 1) '{' then .unsupported
    else istringBody q s (i + 1)
  else .err (.expectedQuote q) (.cur i)
termination_by s.size - i
decreasing_by
  · have := peekIs_lt hn; omega
  · have := consumeEscapedChar_adv s i _ _ hm; omega
  · omega

theorem istringBody_adv (q : Char) (s : Array Char) (i j : Nat) (h : istringBody q s i = .ok j) :
    i < j ∧ j ≤ s.size := by
  fun_induction istringBody q s i
  all_goals (try (simp at h))
  all_goals (try omega)
  all_goals (try (rename_i ih; have := ih h; omega))
  all_goals (rename_i hm ih; have := consumeEscapedChar_adv s _ _ _ hm; have := ih h; omega)

def parseIString (s : Array Char) (i : Nat) : Res :=
  if h : i < s.size then
    if s[i] == '"' || s[i] == '\'' then istringBody s[i] s (i + 1) else .err .expectedString (.cur (i + 1))
  else .err .expectedString (.cur i)

theorem parseIString_adv (s : Array Char) (i j : Nat) (h : parseIString s i = .ok j) : i < j ∧ j ≤ s.size := by
  unfold parseIString at h
  split at h
  · split at h
    · have := istringBody_adv _ _ _ _ h; omega
    · cases h
  · cases h

/-! ## 11. Number literal (value.rs:980 `parse_number`, 956 `consume_natural_number`,
       1016 `try_decimal`, 1049 `try_exponent`) -/

def tryDecimal (allowTrailing : Bool) (s : Array Char) (i : Nat) : Res :=
  if h : i < s.size then
    if s[i] != '.' then .ok i
    else if h1 : i + 1 < s.size then
      if !isDigit s[i + 1] then (if allowTrailing then .ok i else .err .expectedDigit (.cur i))
      else .ok (skipDigits s (i + 1))
    else .err .expectedDigit (.cur i)
  else .ok i

def tryExponent (s : Array Char) (i : Nat) : Res :=
  if h : i < s.size then
    if s[i] == 'e' || s[i] == 'E' then
      if h1 : i + 1 < s.size then
        if isDigit s[i + 1] then .ok (skipDigits s (i + 1))
        else if s[i + 1] == '+' || s[i + 1] == '-' then
          if peekSat s (i + 2) isDigit then .ok (skipDigits s (i + 2))
          else .err .expectedDigit (.cur (i + 2))
        else .ok i
      else .ok i
    else .ok i
  else .ok i

/-- cursor after an optional sign -/
def afterSign (s : Array Char) (i : Nat) : Nat :=
  if h : i < s.size then (if s[i] == '+' || s[i] == '-' then i + 1 else i) else i

/-- integer part: nothing if the next token is `.`, else `consume_natural_number`
    (whose `next()` consumes the offending token before reporting it at `prev_span`). -/
def naturalPart (s : Array Char) (a : Nat) : Res :=
  if h : a < s.size then
    if s[a] == '.' then .ok a
    else if isDigit s[a] then .ok (skipDigits s (a + 1))
    else .err .expectedDigit (.prev (a + 1))
  else .err .expectedDigit (.prev a)

/-- the literal without its unit: `[+-]? digits? (. digits)? (e [+-]? digits)?` -/
def numberLit (s : Array Char) (i : Nat) : Res :=
  let a := afterSign s i
  match naturalPart s a with
  | .ok b =>
    match tryDecimal (b != a) s b with
    | .ok c => tryExponent s c
    | r => r
  | r => r

/-- the unit: `%`, or an identifier (`unit = true`) unless it starts with `--`. -/
def numberUnit (s : Array Char) (j : Nat) : Res :=
  if peekIs s j '%' then .ok (j + 1)
  else if lookingAtIdentifier s j && !(peekIs s j '-' && peekIs s (j + 1) '-') then
    (parseIdentifier false true s j).toRes
  else .ok j

def parseNumber (s : Array Char) (i : Nat) : Res :=
  match numberLit s i with
  | .ok j => numberUnit s j
  | r => r

/-! ## 12. `url(` contents -/

inductive UrlRes where
  | url (j : Nat)                    -- `Some(..)`: a plain url, cursor after `)`
  | notUrl                           -- `None`: cursor reset by the caller
  | err (e : ErrClass) (sp : SpanRef)
  | unsupported
  deriving DecidableEq, Repr, Inhabited

def isUrlChar (c : Char) : Bool :=
  c == '!' || c == '%' || c == '&' || ('*'.toNat ≤ c.toNat && c.toNat ≤ '~'.toNat) || c.toNat ≥ 0x80

def isUrlWs (c : Char) : Bool := c == ' ' || c == '\t' || c == '\n' || c == '\r'

/-- loop of `try_url_contents` (stylesheet.rs:810); `hashPlain = true` is the `BaseParser::try_parse_url`
    variant (base.rs:538) where `#` is an ordinary url character. -/
def urlBody (ind hashPlain : Bool) (s : Array Char) (i : Nat) : UrlRes :=
  if h : i < s.size then
    if s[i] == '\\' then
      match hm : parseEscape false s i with
      | .ok j _ => urlBody ind hashPlain s j
      | .err e sp => .err e sp
      | .unsupported => .unsupported
    else if s[i] == '#' then
      if !hashPlain && peekIs s (i + 1) '{' then .unsupported else urlBody ind hashPlain s (i + 1)
    else if isUrlChar s[i] then urlBody ind hashPlain s (i + 1)
    else if s[i] == ')' then .url (i + 1)
    else if isUrlWs s[i] then
      let j := wsNoComments ind s i
      if peekIs s j ')' then .url (j + 1) else .notUrl
    else .notUrl
  else .notUrl
termination_by s.size - i
decreasing_by
  all_goals (try omega)
  have := parseEscape_adv false s i _ _ hm; omega

theorem urlBody_adv (ind hp : Bool) (s : Array Char) (i j : Nat) (h : urlBody ind hp s i = .url j) :
    i < j ∧ j ≤ s.size := by
  fun_induction urlBody ind hp s i
  all_goals (try (simp at h))
  all_goals (try omega)
  all_goals (try (rename_i ih; have := ih h; omega))
  all_goals (try (rename_i hm ih; have := parseEscape_adv false s _ _ _ hm; have := ih h; omega))
  all_goals
    rename_i x _ _ _ _ _ _ jj hk
    have h1 := peekIs_lt hk
    have h2 : x ≤ jj := wsNoComments_ge ind s x
    omega

/-- `scan_ident_char(c, case_sensitive = false)` for a lower-case ASCII `c` (base.rs:615):
    `some j` matched, `none` no match (cursor unchanged). -/
def scanIdentChar (c : Char) (s : Array Char) (i : Nat) : Except (ErrClass × SpanRef) (Option Nat) :=
  if h : i < s.size then
    if s[i].toLower == c then .ok (some (i + 1))
    else if s[i] == '\\' then
      match consumeEscapedChar s i with
      | .ok j [d] => if d.toLower == c then .ok (some j) else .ok none
      | .ok _ _ => .ok none
      | .err e sp => .error (e, sp)
      | .unsupported => .ok none
    else .ok none
  else .ok none

/-- `scan_identifier("url", false)` (base.rs:585): cursor after `url`, or `none`. -/
def scanUrlIdent (s : Array Char) (i : Nat) : Except (ErrClass × SpanRef) (Option Nat) :=
  if !lookingAtIdentifier s i then .ok none else
  match scanIdentChar 'u' s i with
  | .error e => .error e
  | .ok none => .ok none
  | .ok (some a) =>
    match scanIdentChar 'r' s a with
    | .error e => .error e
    | .ok none => .ok none
    | .ok (some b) =>
      match scanIdentChar 'l' s b with
      | .error e => .error e
      | .ok none => .ok none
      | .ok (some c) =>
        if peekSat s c (fun x => isName x || x == '\\') then .ok none else .ok (some c)

theorem scanIdentChar_adv (c : Char) (s : Array Char) (i j : Nat)
    (h : scanIdentChar c s i = .ok (some j)) : i < j ∧ j ≤ s.size := by
  unfold scanIdentChar at h
  split at h
  · split at h
    · injection h with h; injection h with h; omega
    · split at h
      · split at h
        · rename_i hm
          have := consumeEscapedChar_adv s i _ _ hm
          split at h
          · injection h with h; injection h with h; omega
          · cases h
        all_goals cases h
      · cases h
  · cases h

theorem scanUrlIdent_adv (s : Array Char) (i j : Nat) (h : scanUrlIdent s i = .ok (some j)) :
    i < j ∧ j ≤ s.size := by
  unfold scanUrlIdent at h
  split at h
  · cases h
  · split at h
    · cases h
    · cases h
    · rename_i a ha
      have := scanIdentChar_adv _ _ _ _ ha
      split at h
      · cases h
      · cases h
      · rename_i b hb
        have := scanIdentChar_adv _ _ _ _ hb
        split at h
        · cases h
        · cases h
        · rename_i c hc
          have := scanIdentChar_adv _ _ _ _ hc
          split at h
          · cases h
          · injection h with h; injection h with h; omega

/-- `BaseParser::try_parse_url` (base.rs:520) at a `u`/`U` token: `url`, `(`, `whitespace()` with
    comments, then the contents with `#` an ordinary character.  Only the selector and media-query
    parsers reach it (through `declaration_value`), so comments are the SCSS ones. -/
def tryUrlBase (s : Array Char) (i : Nat) : UrlRes :=
  match scanUrlIdent s i with
  | .error (e, sp) => .err e sp
  | .ok none => .notUrl
  | .ok (some a) =>
    if peekIs s a '(' then
      match whitespace .scss s (a + 1) with
      | .ok b => urlBody false true s b
      | .err e sp => .err e sp
      | .unsupported => .unsupported
    else .notUrl

/-- The stylesheet parsers' `scan_identifier("url")` + `try_url_contents` (stylesheet.rs:797):
    `whitespace_without_comments` after the paren, `#{` is interpolation. -/
def tryUrlSheet (ind : Bool) (s : Array Char) (i : Nat) : UrlRes :=
  match scanUrlIdent s i with
  | .error (e, sp) => .err e sp
  | .ok none => .notUrl
  | .ok (some a) =>
    if peekIs s a '(' then urlBody ind false s (wsNoComments ind s (a + 1))
    else .notUrl

theorem tryUrlBase_adv (s : Array Char) (i j : Nat) (h : tryUrlBase s i = .url j) : i < j ∧ j ≤ s.size := by
  unfold tryUrlBase at h
  split at h
  · cases h
  · cases h
  · rename_i a ha
    have := scanUrlIdent_adv _ _ _ ha
    split at h
    · split at h
      · rename_i b hb
        have := whitespace_ge _ _ _ _ hb
        have := urlBody_adv _ _ _ _ _ h
        omega
      · cases h
      · cases h
    · cases h

theorem tryUrlSheet_adv (ind : Bool) (s : Array Char) (i j : Nat) (h : tryUrlSheet ind s i = .url j) :
    i < j ∧ j ≤ s.size := by
  unfold tryUrlSheet at h
  split at h
  · cases h
  · cases h
  · rename_i a ha
    have := scanUrlIdent_adv _ _ _ ha
    split at h
    · have := wsNoComments_ge ind s (a + 1)
      have := urlBody_adv _ _ _ _ _ h
      omega
    · cases h

/-! ## 13. `declaration_value` (base.rs:381): the bracket stack -/

def opens (c : Char) : Bool := c == '[' || c == '(' || c == '{'
def closes (c : Char) : Bool := c == ']' || c == ')' || c == '}'
/-- `opposite_bracket` on an opening bracket -/
def opposite (c : Char) : Char := if c == '(' then ')' else if c == '[' then ']' else '}'

/-- loop of `BaseParser::declaration_value`; `br` is the stack of expected closers. -/
def declValue (s : Array Char) (i : Nat) (br : List Char) : Res :=
  if h : i < s.size then
    if s[i] == '\\' then
      match hm : parseEscape true s i with
      | .ok j _ => declValue s j br
      | .err e sp => .err e sp
      | .unsupported => .unsupported
    else if s[i] == '"' || s[i] == '\'' then
      match hm : parseString s i with
      | .ok j => declValue s j br
      | .err e sp => .err e sp
      | .unsupported => .unsupported
    else if s[i] == '/' then
      if peekIs s (i + 1) '*' then
        match hm : loudBody s (i + 2) with
        | .ok j => declValue s j br
        | .err e sp => .err e sp
        | .unsupported => .unsupported
      else declValue s (i + 1) br
    else if s[i] == '#' then
      if peekIs s (i + 1) '{' then
        -- `parse_identifier` on `#`: always "Expected identifier." (kept as the call the code makes)
        match hm : parseIdentifier false false s i with
        | .ok j _ => declValue s j br
        | .err e sp => .err e sp
        | .unsupported => .unsupported
      else declValue s (i + 1) br
    else if s[i] == ' ' || s[i] == '\t' || s[i] == '\n' || s[i] == '\r' then declValue s (i + 1) br
    else if opens s[i] then declValue s (i + 1) (opposite s[i] :: br)
    else if closes s[i] then
      match br with
      | [] => .ok i
      | e :: br' => if s[i] == e then declValue s (i + 1) br' else .err (.expectedChar e) (.cur i)
    else if s[i] == ';' then
      if br.isEmpty then .ok i else declValue s (i + 1) br
    else if s[i] == 'u' || s[i] == 'U' then
      match hm : tryUrlBase s i with
      | .url j => declValue s j br
      | .notUrl => declValue s (i + 1) br
      | .err e sp => .err e sp
      | .unsupported => .unsupported
    else if lookingAtIdentifier s i then
      match hm : parseIdentifier false false s i with
      | .ok j _ => declValue s j br
      | .err e sp => .err e sp
      | .unsupported => .unsupported
    else declValue s (i + 1) br
  else
    match br with
    | [] => .ok i
    | e :: _ => .err (.expectedChar e) (.cur i)
termination_by s.size - i
decreasing_by
  all_goals (try omega)
  · have := parseEscape_adv true s i _ _ hm; omega
  · have := parseString_adv s i _ hm; omega
  · have := loudBody_adv s (i + 2) _ hm; omega
  · have := parseIdentifier_adv false false s i _ _ hm; omega
  · have := tryUrlBase_adv s i _ hm; omega
  · have := parseIdentifier_adv false false s i _ _ hm; omega

/-- `declaration_value(allow_empty)`. -/
def declarationValue (allowEmpty : Bool) (s : Array Char) (i : Nat) : Res :=
  match declValue s i [] with
  | .ok j => if !allowEmpty && j == i then .err .expectedToken (.cur j) else .ok j
  | r => r

/-! ## 14. The stylesheet parsers' interpolating variants (without `#{`) -/

/-- `parse_interpolated_identifier_body` (stylesheet.rs:1940). -/
def iidentBody (s : Array Char) (i : Nat) : Res :=
  if h : i < s.size then
    if isName s[i] then iidentBody s (i + 1)
    else if s[i] == '\\' then
      match hm : parseEscape false s i with
      | .ok j _ => iidentBody s j
      | .err e sp => .err e sp
      | .unsupported => .unsupported
    else if s[i] == '#' && peekIs s (i + 1) '{' then .unsupported
    else .ok i
  else .ok i
termination_by s.size - i
decreasing_by
  · omega
  · have := parseEscape_adv false s i _ _ hm; omega

theorem iidentBody_ge (s : Array Char) (i j : Nat) (h : iidentBody s i = .ok j) :
    i ≤ j ∧ (i ≤ s.size → j ≤ s.size) := by
  fun_induction iidentBody s i
  all_goals (try (simp at h))
  all_goals (try omega)
  all_goals (try (rename_i ih; have := ih h; omega))
  all_goals (rename_i hm ih; have := parseEscape_adv false s _ _ _ hm; have := ih h; omega)

/-- `parse_interpolated_identifier` (stylesheet.rs:1960). -/
def parseIIdent (s : Array Char) (i : Nat) : Res :=
  let a := if peekIs s i '-' then i + 1 else i
  if a ≠ i ∧ peekIs s a '-' then iidentBody s (a + 1)
  else if h : a < s.size then
    if isNameStart s[a] then iidentBody s (a + 1)
    else if s[a] == '\\' then
      match parseEscape true s a with
      | .ok j _ => iidentBody s j
      | .err e sp => .err e sp
      | .unsupported => .unsupported
    else if s[a] == '#' && peekIs s (a + 1) '{' then .unsupported
    else .err .expectedIdentifier (.cur a)
  else .err .expectedIdentifier (.cur a)

/-- loop of `parse_interpolated_declaration_value` (stylesheet.rs:2070). -/
def ideclValue (ind allowSemi allowColon : Bool) (s : Array Char) (i : Nat) (br : List Char) : Res :=
  if h : i < s.size then
    if s[i] == '\\' then
      match hm : parseEscape true s i with
      | .ok j _ => ideclValue ind allowSemi allowColon s j br
      | .err e sp => .err e sp
      | .unsupported => .unsupported
    else if s[i] == '"' || s[i] == '\'' then
      match hm : parseIString s i with
      | .ok j => ideclValue ind allowSemi allowColon s j br
      | .err e sp => .err e sp
      | .unsupported => .unsupported
    else if s[i] == '/' then
      if peekIs s (i + 1) '*' then
        match hm : loudFor ind s (i + 2) with
        | .ok j => ideclValue ind allowSemi allowColon s j br
        | .err e sp => .err e sp
        | .unsupported => .unsupported
      else ideclValue ind allowSemi allowColon s (i + 1) br
    else if s[i] == '#' then
      if peekIs s (i + 1) '{' then .unsupported else ideclValue ind allowSemi allowColon s (i + 1) br
    else if s[i] == ' ' || s[i] == '\t' then ideclValue ind allowSemi allowColon s (i + 1) br
    else if s[i] == '\n' || s[i] == '\r' then
      if ind then
        match br with
        | [] => .ok i
        | e :: _ => .err (.expectedChar e) (.cur i)
      else ideclValue ind allowSemi allowColon s (i + 1) br
    else if opens s[i] then ideclValue ind allowSemi allowColon s (i + 1) (opposite s[i] :: br)
    else if closes s[i] then
      match br with
      | [] => .ok i
      | e :: br' =>
        if s[i] == e then ideclValue ind allowSemi allowColon s (i + 1) br' else .err (.expectedChar e) (.cur i)
    else if s[i] == ';' then
      if !allowSemi && br.isEmpty then .ok i else ideclValue ind allowSemi allowColon s (i + 1) br
    else if s[i] == ':' then
      if !allowColon && br.isEmpty then .ok i else ideclValue ind allowSemi allowColon s (i + 1) br
    else if s[i] == 'u' || s[i] == 'U' then
      match hm : tryUrlSheet ind s i with
      | .url j => ideclValue ind allowSemi allowColon s j br
      | .notUrl => ideclValue ind allowSemi allowColon s (i + 1) br
      | .err e sp => .err e sp
      | .unsupported => .unsupported
    else if lookingAtIdentifier s i then
      match hm : parseIdentifier false false s i with
      | .ok j _ => ideclValue ind allowSemi allowColon s j br
      | .err e sp => .err e sp
      | .unsupported => .unsupported
    else ideclValue ind allowSemi allowColon s (i + 1) br
  else
    match br with
    | [] => .ok i
    | e :: _ => .err (.expectedChar e) (.cur i)
termination_by s.size - i
decreasing_by
  all_goals (try omega)
  · have := parseEscape_adv true s i _ _ hm; omega
  · have := parseIString_adv s i _ hm; omega
  · have := loudFor_adv ind s (i + 2) _ hm; omega
  · have := tryUrlSheet_adv ind s i _ hm; omega
  · have := parseIdentifier_adv false false s i _ _ hm; omega

/-- `buffer.contents.is_empty()` after the loop consumed `[i, j)`: nothing consumed, or — indented
    syntax only — nothing but spaces/tabs up to the line break (a space is only written when the next
    token is not whitespace, stylesheet.rs:2121-2135, and the newline is not consumed). -/
def idvBufferEmpty (ind : Bool) (s : Array Char) (i j : Nat) : Bool :=
  j == i || (ind && (s.extract i j).all (fun c => c == ' ' || c == '\t') && peekIs s j '\n')

def interpolatedDeclarationValue (ind allowSemi allowEmpty allowColon : Bool) (s : Array Char) (i : Nat) : Res :=
  match ideclValue ind allowSemi allowColon s i [] with
  | .ok j => if !allowEmpty && idvBufferEmpty ind s i j then .err .expectedToken (.cur j) else .ok j
  | r => r

/-- `almost_any_value` (stylesheet.rs:2740). -/
def almostAny (y : Syn) (s : Array Char) (i : Nat) : Res :=
  if h : i < s.size then
    if s[i] == '\\' then
      if i + 1 < s.size then almostAny y s (i + 2) else .err .expectedMoreInput (.cur (i + 1))
    else if s[i] == '"' || s[i] == '\'' then
      match hm : parseIString s i with
      | .ok j => almostAny y s j
      | .err e sp => .err e sp
      | .unsupported => .unsupported
    else if s[i] == '/' then
      if peekIs s (i + 1) '/' then
        if y == .css then .err .silentCommentInCss (.cur i) else almostAny y s (untilNewline s (i + 2))
      else if peekIs s (i + 1) '*' then
        match hm : loudFor y.ind s (i + 2) with
        | .ok j => almostAny y s j
        | .err e sp => .err e sp
        | .unsupported => .unsupported
      else almostAny y s (i + 1)
    else if s[i] == '#' then
      if peekIs s (i + 1) '{' then .unsupported else almostAny y s (i + 1)
    else if s[i] == '\r' || s[i] == '\n' then
      if y.ind then .ok i else almostAny y s (i + 1)
    else if s[i] == '!' || s[i] == ';' || s[i] == '{' || s[i] == '}' then .ok i
    else if s[i] == 'u' || s[i] == 'U' then
      match hm : tryUrlSheet y.ind s i with
      | .url j => almostAny y s j
      | .notUrl => almostAny y s (i + 1)
      | .err e sp => .err e sp
      | .unsupported => .unsupported
    else if lookingAtIdentifier s i then
      match hm : parseIdentifier false false s i with
      | .ok j _ => almostAny y s j
      | .err e sp => .err e sp
      | .unsupported => .unsupported
    else almostAny y s (i + 1)
  else .ok i
termination_by s.size - i
decreasing_by
  all_goals (try omega)
  · have := parseIString_adv s i _ hm; omega
  · have := untilNewline_ge s (i + 2); omega
  · have := loudFor_adv y.ind s (i + 2) _ hm; omega
  · have := tryUrlSheet_adv y.ind s i _ hm; omega
  · have := parseIdentifier_adv false false s i _ _ hm; omega

/-! ## 15. Conversion guard (value/number.rs:157 `Number::convert`, value/calculation.rs:185 `clamp`)

  Self-contained abstraction (the unit table itself is C08's): a unit is unitless, a member of a
  convertible family (`kind`), or an opaque unit.  `UNIT_CONVERSION_TABLE[to][from]` has an entry
  exactly for two members of one family; indexing a missing key panics (`none` here). -/

inductive U where
  | none
  | conv (kind idx : Nat)
  | other (id : Nat)
  deriving DecidableEq, Repr, Inhabited

/-- `Unit::comparable` (unit/mod.rs:166). -/
def comparable (u v : U) : Bool :=
  match v with
  | .none => true
  | _ =>
    match u with
    | .none => true
    | .conv k _ => (match v with | .conv k' _ => k == k' | _ => false)
    | .other _ => u == v

/-- `SassNumber::has_compatible_units` (value/sass_number.rs:47). -/
def compatible (u v : U) : Bool :=
  if (u == .none || v == .none) && u != v then false else comparable u v

/-- `Number::convert`: `some` = returns, `none` = the table index panics. -/
def convert? (frm to : U) : Option Unit :=
  if frm == .none || to == .none || frm == to then some ()
  else
    match frm, to with
    | .conv k _, .conv k' _ => if k == k' then some () else none
    | _, _ => none

/-- The two conversions `clamp(min, value, max)` performs once its guard passed
    (calculation.rs:195-203); `asFound = true` is the guard of the pinned tree (`is_comparable_to`),
    `false` the present one (`has_compatible_units`).  `none` = panic. -/
def clampConversions (asFound : Bool) (mn v mx : U) : Option Unit :=
  let g := if asFound then comparable mn v && comparable mn mx else compatible mn v && compatible mn mx
  if g then (convert? mn v).bind (fun _ => convert? mx v) else some ()

/-! ## 15b. All modelled scanners under one name -/

inductive Scanner where
  | wsNoComments
  | whitespace
  | loudComment                       -- cursor after the opening `/*`
  | escape (idStart : Bool)
  | escapedChar
  | identifier (norm unit : Bool)
  | interpIdent
  | string
  | interpString
  | number
  | urlBase
  | urlSheet
  | declValue (allowEmpty : Bool)
  | interpDeclValue (allowSemi allowEmpty allowColon : Bool)
  | almostAny
  deriving DecidableEq, Repr, Inhabited

/-- `None` of the url attempts leaves the cursor where it was. -/
def UrlRes.toRes (i : Nat) : UrlRes → Res
  | .url j => .ok j
  | .notUrl => .ok i
  | .err e sp => .err e sp
  | .unsupported => .unsupported

def runScanner (sc : Scanner) (y : Syn) (s : Array Char) (i : Nat) : Res :=
  match sc with
  | .wsNoComments => .ok (wsNoComments y.ind s i)
  | .whitespace => whitespace y s i
  | .loudComment => loudFor y.ind s i
  | .escape b => (parseEscape b s i).toRes
  | .escapedChar => (consumeEscapedChar s i).toRes
  | .identifier n u => (parseIdentifier n u s i).toRes
  | .interpIdent => parseIIdent s i
  | .string => parseString s i
  | .interpString => parseIString s i
  | .number => parseNumber s i
  | .urlBase => (tryUrlBase s i).toRes i
  | .urlSheet => (tryUrlSheet y.ind s i).toRes i
  | .declValue ae => declarationValue ae s i
  | .interpDeclValue a b c => interpolatedDeclarationValue y.ind a b c s i
  | .almostAny => almostAny y s i

/-! ## 16. Per-input predicates used by the theorems and, through the driver, on grass's output -/

/-- P̂ of the lexer part of C18 on one text: with its newlines written in style `k`, the text
    lexes to the same kinds; positions are equal (one-byte styles) or shifted (CRLF). -/
def nlInvariantAt (k : NL) (s : List Char) : Bool :=
  let n := normNL s
  let a := lex (substNewlines k n)
  let b := lex n
  kinds a == kinds b && (if k == .crlf then a == shiftFrom 0 b else a == b)

/-- P̂ for error values (C01, shared with C19): the span `[lo, hi)` lies inside the file and both
    ends are character boundaries of the source. -/
def spanInFile (src : List Char) (lo hi : Nat) : Bool :=
  lo ≤ hi && hi ≤ byteLen src && (boundaries 0 src).contains lo && (boundaries 0 src).contains hi

/-! ## 17. Driver entry points -/
open Grass.Proto

def errName : ErrClass → String
  | .expectedMoreInput => "more-input"
  | .expectedCommentEnd => "comment-end"
  | .expectedDigit => "digit"
  | .expectedIdentifier => "identifier"
  | .expectedEscape => "escape"
  | .expectedExpression => "expression"
  | .invalidCodePoint => "code-point"
  | .expectedQuote q => s!"quote-{q.toNat}"
  | .expectedChar c => s!"char-{c.toNat}"
  | .expectedToken => "token"
  | .expectedString => "string"
  | .silentCommentInCss => "silent-css"

def synOfStr (t : String) : Option Syn :=
  if t == "scss" then some .scss else if t == "sass" then some .sass else if t == "css" then some .css else none

def nlOfStr (t : String) : Option NL :=
  if t == "lf" then some .lf else if t == "crlf" then some .crlf else if t == "cr" then some .cr
  else if t == "ff" then some .ff else none

def resStr (ts : Array Tok) (start nsub : Nat) : Res → String
  | .ok j => s!"ok {j - start} {nsub}"
  | .err e sp => let (lo, hi) := spanBytes ts sp; s!"err {errName e} {lo} {hi} {nsub}"
  | .unsupported => "unsupported"

def urlResStr (ts : Array Tok) (start nsub : Nat) : UrlRes → String
  | .url j => s!"ok {j - start} {nsub}"
  | .notUrl => s!"noturl {nsub}"
  | .err e sp => let (lo, hi) := spanBytes ts sp; s!"err {errName e} {lo} {hi} {nsub}"
  | .unsupported => "unsupported"

def resTStr (ts : Array Tok) (start nsub : Nat) : ResT → String
  | .ok j t => s!"ok {j - start} {nsub} {hexEncode (String.ofList t)}"
  | .err e sp => let (lo, hi) := spanBytes ts sp; s!"err {errName e} {lo} {hi} {nsub}"
  | .unsupported => "unsupported"

/-- `scan <scanner> <syntax> <prefix> <subject> <suffix>` (hex texts): lex the whole text, run the
    scanner at the first token of the subject. -/
def scanOp (name : String) (y : Syn) (pre sub suf : List Char) : String :=
  let ts := (lex (pre ++ sub ++ suf)).toArray
  let s := ts.map (·.kind)
  let start := (lex pre).length
  let nsub := (lex (pre ++ sub)).length - start
  if name == "ws" then resStr ts start nsub (whitespace y s start)
  else if name == "ws+string" then
    (match whitespace y s start with
     | .ok j => resStr ts start nsub (parseString s j)
     | r => resStr ts start nsub r)
  else if name == "wsnc" then resStr ts start nsub (.ok (wsNoComments y.ind s start))
  else if name == "loud" then
    (if peekIs s start '/' && peekIs s (start + 1) '*' then resStr ts start nsub (loudFor y.ind s (start + 2)) else "unsupported")
  else if name == "string" then resStr ts start nsub (parseString s start)
  else if name == "istring" then resStr ts start nsub (parseIString s start)
  else if name == "ident" then resTStr ts start nsub (parseIdentifier false false s start)
  else if name == "identn" then resTStr ts start nsub (parseIdentifier true false s start)
  else if name == "identu" then resTStr ts start nsub (parseIdentifier false true s start)
  else if name == "iident" then resStr ts start nsub (parseIIdent s start)
  else if name == "escape1" then resTStr ts start nsub (parseEscape true s start)
  else if name == "escape0" then resTStr ts start nsub (parseEscape false s start)
  else if name == "number" then resStr ts start nsub (parseNumber s start)
  else if name == "declvalue" then resStr ts start nsub (declarationValue true s start)
  else if name == "declvalue0" then resStr ts start nsub (declarationValue false s start)
  else if name == "cpv" then resStr ts start nsub (interpolatedDeclarationValue y.ind false false true s start)
  else if name == "almostany" then resStr ts start nsub (almostAny y s start)
  else if name == "urlsheet" then urlResStr ts start nsub (tryUrlSheet y.ind s start)
  else if name == "urlbase" then urlResStr ts start nsub (tryUrlBase s start)
  else "bad-op"

def unitOfStr (t : String) : Option U :=
  if t == "n" then some .none
  else if t.startsWith "c" then
    match ((t.drop 1).toString.splitOn ".").mapM (·.toNat?) with
    | some [k, i] => some (.conv k i)
    | _ => none
  else if t.startsWith "o" then (t.drop 1).toString.toNat?.map .other
  else none

def decodeChars (h : String) : Option (List Char) := (hexDecode h).map (·.toList)

def handle : List String → String
  | ["tokens", h] =>
    match decodeChars h with
    | some s => "ok " ++ " ".intercalate ((lex s).map fun t => s!"{t.kind.toNat}:{t.pos}")
    | none => "bad-op"
  | ["kinds", h] =>
    match decodeChars h with
    | some s => "ok " ++ hexEncode (String.ofList (normNL s))
    | none => "bad-op"
  | ["nlcheck", h] =>
    match decodeChars h with
    | some s =>
      match [NL.lf, .crlf, .cr, .ff].find? (fun k => !nlInvariantAt k s) with
      | none => "ok holds"
      | some k => "ok fails " ++ (match k with | .lf => "lf" | .crlf => "crlf" | .cr => "cr" | .ff => "ff")
    | none => "bad-op"
  | ["subst", k, h] =>
    match nlOfStr k, decodeChars h with
    | some k, some s => "ok " ++ hexEncode (String.ofList (substNewlines k (normNL s)))
    | _, _ => "bad-op"
  | ["span", h, lo, hi] =>
    match decodeChars h, lo.toNat?, hi.toNat? with
    | some s, some lo, some hi => "ok " ++ boolStr (spanInFile s lo hi)
    | _, _, _ => "bad-op"
  | ["column", af, h] =>
    match parseBool? af, decodeChars h with
    | some af, some s => s!"ok {commentColumn af s}"
    | _, _ => "bad-op"
  | ["norm", h] =>
    match decodeChars h with
    | some s => "ok " ++ hexEncode (String.ofList (identNorm s))
    | none => "bad-op"
  | ["normeq", a, b] =>
    match decodeChars a, decodeChars b with
    | some a, some b => "ok " ++ boolStr (identNorm a == identNorm b) ++ " " ++ boolStr (decide (eqUpTo a b))
    | _, _ => "bad-op"
  | ["scan", name, y, pre, sub, suf] =>
    match synOfStr y, decodeChars pre, decodeChars sub, decodeChars suf with
    | some y, some pre, some sub, some suf => scanOp name y pre sub suf
    | _, _, _, _ => "bad-op"
  | ["asfound", fuel, h, start] =>
    match fuel.toNat?, decodeChars h, start.toNat? with
    | some fuel, some s, some start =>
      let ts := (lex s).toArray
      match sassLoudAsFound fuel (ts.map (·.kind)) start with
      | .outOfFuel => "ok out-of-fuel"
      | .done r => "ok done " ++ resStr ts start 0 r
    | _, _, _ => "bad-op"
  | ["clamp", af, a, b, c] =>
    match parseBool? af, unitOfStr a, unitOfStr b, unitOfStr c with
    | some af, some a, some b, some c =>
      (match clampConversions af a b c with | some _ => "ok returns" | none => "ok panics")
    | _, _, _, _ => "bad-op"
  | _ => "bad-op"

end Grass.Lexer
