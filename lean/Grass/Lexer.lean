import Grass.Proto
/-
  C01 / C18 core — the lexer and the character-level scanners.

  Mirrors
    crates/compiler/src/lexer.rs        `TokenLexer::next` (l.128-146), `Lexer::span_at_index` (l.38-53)
    crates/compiler/src/common.rs       `Identifier::from_str` (l.131-137)
    crates/compiler/src/parse/base.rs   `BaseParser` scanners (whitespace, comments, identifier, escape,
                                        string, declaration_value, try_parse_url)
    crates/compiler/src/parse/sass.rs   `SassParser::whitespace_without_comments` (l.30), `skip_loud_comment` (l.40)
    crates/compiler/src/parse/stylesheet.rs  `parse_interpolated_string` (l.1010), `try_url_contents` (l.797),
                                        `parse_interpolated_identifier` (l.1960),
                                        `parse_interpolated_declaration_value` (l.2070), `almost_any_value` (l.2740)
    crates/compiler/src/parse/value.rs  `parse_number` (l.980), `try_decimal`, `try_exponent`, `consume_natural_number`

  A scanner works on the token buffer `s : Array Char` (the `kind`s produced by the lexer) and a
  cursor `i`.  Every loop of the Rust code is a recursive function here, written WITHOUT fuel:
  Lean accepts the definitions only because it can show `s.size - i` decreases, i.e. because every
  path through the loop body that continues the loop has advanced the cursor.  Where a loop calls
  another scanner, the callee's progress lemma (`…_adv`) is proved first and used in `decreasing_by`.

  Interpolation (`#{`) calls the expression parser, which is above the scanner layer: the
  interpolating variants answer `unsupported` there (never a guess).
-/
namespace Grass.Lexer

/-! ## 1. `TokenLexer` (lexer.rs:128) -/

structure Tok where
  kind : Char
  pos  : Nat          -- byte offset in the source
  deriving DecidableEq, Repr, Inhabited

def FF : Char := Char.ofNat 12
def CR : Char := '\r'
def LF : Char := '\n'

/-- `TokenLexer::next` iterated to the end; `cur` is `self.cursor`.
    FF → LF (1 byte); CR LF → one LF whose `pos` is the LF byte (`cursor += 1` happens before
    `pos` is read); lone CR → LF; anything else is itself, `len_utf8` bytes wide. -/
def lexFrom (cur : Nat) : List Char → List Tok
  | [] => []
  | c :: rest =>
    if c = FF then ⟨LF, cur⟩ :: lexFrom (cur + 1) rest
    else if c = CR then
      match rest with
      | [] => [⟨LF, cur⟩]
      | d :: rest' =>
        if d = LF then ⟨LF, cur + 1⟩ :: lexFrom (cur + 2) rest'
        else ⟨LF, cur⟩ :: lexFrom (cur + 1) (d :: rest')
    else ⟨c, cur⟩ :: lexFrom (cur + c.utf8Size) rest

def lex (s : List Char) : List Tok := lexFrom 0 s

def kinds (ts : List Tok) : List Char := ts.map (·.kind)

/-- Specification of the token kinds: the text with every FF, CRLF, CR written as LF. -/
def normNL : List Char → List Char
  | [] => []
  | c :: rest =>
    if c = FF then LF :: normNL rest
    else if c = CR then
      match rest with
      | [] => [LF]
      | d :: rest' => if d = LF then LF :: normNL rest' else LF :: normNL (d :: rest')
    else c :: normNL rest

/-- Byte length of a text (UTF-8). -/
def byteLen : List Char → Nat
  | [] => 0
  | c :: rest => c.utf8Size + byteLen rest

/-- Byte offsets that are character boundaries of the text, starting at offset `n`
    (includes both ends). -/
def boundaries (n : Nat) : List Char → List Nat
  | [] => [n]
  | c :: rest => n :: boundaries (n + c.utf8Size) rest

/-- The four ways of writing a newline. -/
inductive NL where
  | lf | crlf | cr | ff
  deriving DecidableEq, Repr, Inhabited

def NL.chars : NL → List Char
  | .lf => [LF] | .crlf => [CR, LF] | .cr => [CR] | .ff => [FF]

/-- Write every LF of `s` as `k`. -/
def substNewlines (k : NL) : List Char → List Char
  | [] => []
  | c :: rest => if c = LF then k.chars ++ substNewlines k rest else c :: substNewlines k rest

/-- Positions after LF → CRLF: every token moves right by the number of newlines before it, a
    newline token itself by one more (its `pos` is the LF byte of the pair). -/
def shiftFrom (d : Nat) : List Tok → List Tok
  | [] => []
  | t :: ts =>
    if t.kind = LF then ⟨LF, t.pos + d + 1⟩ :: shiftFrom (d + 1) ts
    else ⟨t.kind, t.pos + d⟩ :: shiftFrom d ts

/-- `Lexer::span_at_index` (lexer.rs:38) for a non-expanded lexer: (start byte, length). -/
def spanAtIndex (ts : Array Tok) (idx : Nat) : Nat × Nat :=
  match ts[idx]? with
  | some t => (t.pos, t.kind.utf8Size)
  | none =>
    match ts.back? with
    | some t => (t.pos, t.kind.utf8Size)
    | none => (0, 0)

/-! ## 2. `Identifier::from_str` (common.rs:131): `_` → `-` -/

def normChar (c : Char) : Char := if c = '_' then '-' else c

def identNorm (s : List Char) : List Char := s.map normChar

/-- Exchange `_` and `-`. -/
def swapChar (c : Char) : Char := if c = '_' then '-' else if c = '-' then '_' else c

def identSwap (s : List Char) : List Char := s.map swapChar

/-- Two characters are the same up to `_`/`-`. -/
def sameUpTo (a b : Char) : Prop := a = b ∨ ((a = '_' ∨ a = '-') ∧ (b = '_' ∨ b = '-'))

instance (a b : Char) : Decidable (sameUpTo a b) := by unfold sameUpTo; infer_instance

/-- Two names are equal up to `_`/`-` (same length, position-wise). -/
def eqUpTo : List Char → List Char → Prop
  | [], [] => True
  | a :: as, b :: bs => sameUpTo a b ∧ eqUpTo as bs
  | _, _ => False

/-! ## 3. Scanner results -/

inductive ErrClass where
  | expectedMoreInput          -- "expected more input."
  | expectedCommentEnd         -- "expected */."
  | expectedDigit              -- "Expected digit."
  | expectedIdentifier         -- "Expected identifier."
  | expectedEscape             -- "Expected escape sequence."
  | expectedExpression         -- "Expected expression."
  | invalidCodePoint           -- "Invalid Unicode code point."
  | expectedQuote (q : Char)   -- "Expected <q>."
  | expectedChar (c : Char)    -- "expected \"<c>\"."
  | expectedToken              -- "Expected token."
  | expectedString             -- "Expected string."
  deriving DecidableEq, Repr, Inhabited

/-- Which lexer span an error carries (`current_span`, `prev_span`, `span_from(start)`), as token
    indexes; `spanBytes` turns it into bytes through `spanAtIndex`. -/
inductive SpanRef where
  | cur (i : Nat)
  | prev (i : Nat)
  | range (start i : Nat)
  deriving DecidableEq, Repr, Inhabited

/-- (low byte, high byte) of a span reference — `span_at_index`, `prev_span`, `span_from` + `merge`. -/
def spanBytes (ts : Array Tok) : SpanRef → Nat × Nat
  | .cur i => let (p, l) := spanAtIndex ts i; (p, p + l)
  | .prev i => let (p, l) := spanAtIndex ts (i - 1); (p, p + l)
  | .range st i =>
    let (p, l) := spanAtIndex ts st
    let (q, m) := spanAtIndex ts (i - 1)
    (min p q, max (p + l) (q + m))

inductive Res where
  | ok (j : Nat)
  | err (e : ErrClass) (sp : SpanRef)
  | unsupported
  deriving DecidableEq, Repr, Inhabited

/-- Result carrying the text the scanner produced. -/
inductive ResT where
  | ok (j : Nat) (text : List Char)
  | err (e : ErrClass) (sp : SpanRef)
  | unsupported
  deriving DecidableEq, Repr, Inhabited

def ResT.toRes : ResT → Res
  | .ok j _ => .ok j
  | .err e sp => .err e sp
  | .unsupported => .unsupported

/-! ## 4. Character classes (utils/chars.rs) -/

def isDigit (c : Char) : Bool := c.isDigit
def isHex (c : Char) : Bool :=
  c.isDigit || ('a'.toNat ≤ c.toNat && c.toNat ≤ 'f'.toNat) || ('A'.toNat ≤ c.toNat && c.toNat ≤ 'F'.toNat)
/-- `is_name_start`: `_`, alphabetic, or ≥ U+0080 (for ASCII, alphabetic = letter). -/
def isNameStart (c : Char) : Bool := c == '_' || c.isAlpha || c.toNat ≥ 0x80
def isName (c : Char) : Bool := isNameStart c || c.isDigit || c == '-'
/-- `char::is_ascii_whitespace`: space, tab, LF, FF, CR. -/
def isAsciiWs (c : Char) : Bool := c == ' ' || c == '\t' || c == '\n' || c == FF || c == '\r'
def hexVal (c : Char) : Nat :=
  if c.isDigit then c.toNat - 48 else if 'a'.toNat ≤ c.toNat then c.toNat - 87 else c.toNat - 55
/-- `char::from_u32`. -/
def validScalar (v : Nat) : Bool := v < 0xD800 || (0xE000 ≤ v && v ≤ 0x10FFFF)
def hexCharFor (n : Nat) : Char := if n < 10 then Char.ofNat (48 + n) else Char.ofNat (87 + n)

/-! ## 5. Simple loops -/

/-- `whitespace_without_comments`: base.rs:12 (space, tab, newline) and the indented override
    sass.rs:30 (space, tab only). -/
def wsNoComments (ind : Bool) (s : Array Char) (i : Nat) : Nat :=
  if h : i < s.size then
    if s[i] == ' ' || s[i] == '\t' || (s[i] == '\n' && !ind) then wsNoComments ind s (i + 1) else i
  else i
termination_by s.size - i

/-- body of `skip_silent_comment` (base.rs:58): up to, not including, the newline. -/
def untilNewline (s : Array Char) (i : Nat) : Nat :=
  if h : i < s.size then
    if s[i] == '\n' then i else untilNewline s (i + 1)
  else i
termination_by s.size - i

/-- `while self.scan_char('*') {}` -/
def skipStars (s : Array Char) (i : Nat) : Nat :=
  if h : i < s.size then
    if s[i] == '*' then skipStars s (i + 1) else i
  else i
termination_by s.size - i

/-- a run of ASCII digits -/
def skipDigits (s : Array Char) (i : Nat) : Nat :=
  if h : i < s.size then
    if isDigit s[i] then skipDigits s (i + 1) else i
  else i
termination_by s.size - i

theorem wsNoComments_ge (ind : Bool) (s : Array Char) (i : Nat) : i ≤ wsNoComments ind s i := by
  fun_induction wsNoComments ind s i <;> omega

theorem wsNoComments_le (ind : Bool) (s : Array Char) (i : Nat) (hi : i ≤ s.size) :
    wsNoComments ind s i ≤ s.size := by
  fun_induction wsNoComments ind s i <;> omega

theorem untilNewline_ge (s : Array Char) (i : Nat) : i ≤ untilNewline s i := by
  fun_induction untilNewline s i <;> omega

theorem untilNewline_le (s : Array Char) (i : Nat) (hi : i ≤ s.size) : untilNewline s i ≤ s.size := by
  fun_induction untilNewline s i <;> omega

theorem skipStars_ge (s : Array Char) (i : Nat) : i ≤ skipStars s i := by
  fun_induction skipStars s i <;> omega

theorem skipStars_le (s : Array Char) (i : Nat) (hi : i ≤ s.size) : skipStars s i ≤ s.size := by
  fun_induction skipStars s i <;> omega

theorem skipDigits_ge (s : Array Char) (i : Nat) : i ≤ skipDigits s i := by
  fun_induction skipDigits s i <;> omega

theorem skipDigits_le (s : Array Char) (i : Nat) (hi : i ≤ s.size) : skipDigits s i ≤ s.size := by
  fun_induction skipDigits s i <;> omega

/-! ## 6. Loud comments -/

/-- `skip_loud_comment`, SCSS/CSS (base.rs:75), after the opening `/*` has been consumed.
    `while let Some(next) = next() { if next != '*' continue; while scan_char('*') {};
     if scan_char('/') return Ok }  Err("expected more input.")` -/
def loudBody (s : Array Char) (i : Nat) : Res :=
  if h : i < s.size then
    if s[i] == '*' then
      let k := skipStars s (i + 1)
      if h2 : k < s.size then
        if s[k] == '/' then .ok (k + 1) else loudBody s k
      else .err .expectedMoreInput (.cur k)
    else loudBody s (i + 1)
  else .err .expectedMoreInput (.cur i)
termination_by s.size - i
decreasing_by
  · have := skipStars_ge s (i + 1); omega
  · omega

/-- `SassParser::skip_loud_comment` (sass.rs:40) as it is now, after the opening `/*`:
    a newline inside the comment is "expected */." at `prev_span`; end of input is
    "expected more input."; after a run of `*` the next token is consumed whatever it is. -/
def sassLoudBody (s : Array Char) (i : Nat) : Res :=
  if h : i < s.size then
    if s[i] == '\n' then .err .expectedCommentEnd (.prev (i + 1))
    else if s[i] == '*' then
      let k := skipStars s (i + 1)
      if h2 : k < s.size then
        if s[k] == '/' then .ok (k + 1) else sassLoudBody s (k + 1)
      else .err .expectedMoreInput (.cur k)
    else sassLoudBody s (i + 1)
  else .err .expectedMoreInput (.cur i)
termination_by s.size - i
decreasing_by
  · have := skipStars_ge s (i + 1); omega
  · omega

/-- Outcome of a fuel-indexed run. -/
inductive Fueled where
  | outOfFuel
  | done (r : Res)
  deriving DecidableEq, Repr, Inhabited

/-- The same loop AS FOUND on the pinned tree (sass.rs:51 before the fix): `None` fell into
    `_ => continue`, which does not advance.  No measure exists, so this one takes fuel; one unit
    per iteration of the outer `loop`. -/
def sassLoudAsFound : Nat → Array Char → Nat → Fueled
  | 0, _, _ => .outOfFuel
  | fuel + 1, s, i =>
    if h : i < s.size then
      if s[i] == '\n' then .done (.err .expectedCommentEnd (.prev (i + 1)))
      else if s[i] == '*' then
        let k := skipStars s (i + 1)
        if h2 : k < s.size then
          if s[k] == '/' then .done (.ok (k + 1)) else sassLoudAsFound fuel s (k + 1)
        else sassLoudAsFound fuel s k
      else sassLoudAsFound fuel s (i + 1)
    else sassLoudAsFound fuel s i          -- `None => continue`: cursor unchanged

theorem loudBody_adv (s : Array Char) (i j : Nat) (h : loudBody s i = .ok j) : i < j ∧ j ≤ s.size := by
  fun_induction loudBody s i
  all_goals (try (simp at h))
  case case1 i hi hs k hk hsl =>
    have := skipStars_ge s (i + 1)
    subst h; omega
  case case2 i hi hs k hk hsl ih =>
    have := skipStars_ge s (i + 1)
    have := ih h; omega
  case case4 i hi hs ih => have := ih h; omega

theorem sassLoudBody_adv (s : Array Char) (i j : Nat) (h : sassLoudBody s i = .ok j) :
    i < j ∧ j ≤ s.size := by
  fun_induction sassLoudBody s i
  all_goals (try (simp at h))
  case case2 i hi hn hs k hk hsl =>
    have := skipStars_ge s (i + 1)
    subst h; omega
  case case3 i hi hn hs k hk hsl ih =>
    have := skipStars_ge s (i + 1)
    have := ih h; omega
  case case5 i hi hn hs ih => have := ih h; omega

/-! ## 7. `whitespace` with comments (base.rs:24, `scan_comment` base.rs:36) -/

def loudFor (ind : Bool) (s : Array Char) (i : Nat) : Res :=
  if ind then sassLoudBody s i else loudBody s i

theorem loudFor_adv (ind : Bool) (s : Array Char) (i j : Nat) (h : loudFor ind s i = .ok j) :
    i < j ∧ j ≤ s.size := by
  unfold loudFor at h
  split at h
  · exact sassLoudBody_adv s i j h
  · exact loudBody_adv s i j h

/-- `loop { whitespace_without_comments(); if !scan_comment()? { break } }` -/
def whitespace (ind : Bool) (s : Array Char) (i : Nat) : Res :=
  let j := wsNoComments ind s i
  if h : j + 1 < s.size then
    if s[j] == '/' then
      if s[j + 1] == '/' then whitespace ind s (untilNewline s (j + 2))
      else if s[j + 1] == '*' then
        match hm : loudFor ind s (j + 2) with
        | .ok k => whitespace ind s k
        | .err e sp => .err e sp
        | .unsupported => .unsupported
      else .ok j
    else .ok j
  else .ok j
termination_by s.size - i
decreasing_by
  · have := wsNoComments_ge ind s i
    have := untilNewline_ge s (wsNoComments ind s i + 2)
    omega
  · have := wsNoComments_ge ind s i
    have := loudFor_adv ind s _ _ hm
    omega

def handle : List String → String
  | _ => "bad-op"

end Grass.Lexer
