/-
  Line-protocol helpers shared by every core's driver entry point.
  A request is one line of space-separated tokens; arbitrary text travels hex-encoded
  (UTF-8 bytes, two lowercase hex digits per byte; the empty string is "-").
  Nothing here is theorem-facing.
-/
namespace Grass.Proto

def hexDigit (n : Nat) : Char :=
  if n < 10 then Char.ofNat (48 + n) else Char.ofNat (87 + n)

def hexVal (c : Char) : Option Nat :=
  if '0' ≤ c ∧ c ≤ '9' then some (c.toNat - 48)
  else if 'a' ≤ c ∧ c ≤ 'f' then some (c.toNat - 87)
  else if 'A' ≤ c ∧ c ≤ 'F' then some (c.toNat - 55)
  else none

def hexEncodeBytes (bs : List UInt8) : String :=
  if bs.isEmpty then "-" else
  String.ofList (bs.foldr (fun b acc => hexDigit (b.toNat / 16) :: hexDigit (b.toNat % 16) :: acc) [])

def hexEncode (s : String) : String := hexEncodeBytes s.toUTF8.toList

def hexDecodeBytes (s : String) : Option (List UInt8) :=
  if s == "-" then some [] else
  let rec go : List Char → List UInt8 → Option (List UInt8)
    | [], acc => some acc.reverse
    | [_], _ => none
    | a :: b :: rest, acc =>
      match hexVal a, hexVal b with
      | some x, some y => go rest (UInt8.ofNat (x * 16 + y) :: acc)
      | _, _ => none
  go s.toList []

def hexDecode (s : String) : Option String := do
  let bs ← hexDecodeBytes s
  String.fromUTF8? (ByteArray.mk bs.toArray)

def tokens (line : String) : List String :=
  (line.trimAscii.toString.splitOn " ").filter (· ≠ "")

def parseInt? (s : String) : Option Int := s.toInt?
def parseNat? (s : String) : Option Nat := s.toNat?

def boolStr (b : Bool) : String := if b then "1" else "0"

def parseBool? (s : String) : Option Bool :=
  if s == "1" then some true else if s == "0" then some false else none

/-- Split on a separator character, keeping empty fields. -/
def splitOnChar (s : String) (c : Char) : List String := s.splitOn (String.singleton c)

end Grass.Proto
