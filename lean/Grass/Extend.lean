import Grass.Proto
import Grass.Selector
/-
  C10 core — `@extend`.
  Mirrors crates/compiler/src/selector/extend/mod.rs (`extend_list` :202, `extend_complex` :244,
  `extend_compound` :355, `extend_simple`/`without_pseudo` :524/:706, `trim` :775, `add_selector`
  :863, `add_extension` :938), extend/functions.rs (`paths` :708, `unify_complex` :13 on single
  compounds), extend/extension.rs:68 (media check), evaluate/visitor.rs `visit_extend_rule`.

  Modelled fragment: selectors without selector pseudos, extensions whose target is one simple
  selector, no extension chains (no extender contains a target).  `run`: extenders are lists of single
  compounds (the theorems).  `runX`: extenders are complex selectors — `unify_complex`, `weave`,
  `weave_parents`, `merge_initial_combinators`, `merge_final_combinators`, `chunks`,
  `longest_common_subsequence`, `group_selectors`, `complex_is_parent_superselector`, `must_unify`
  (functions.rs) are modelled (switch `sibAsFound`, C10-X3), and so are `extend_existing_extensions`
  (mod.rs:1042, one pass, no fixpoint loop) and `MergedExtension::merge`: `runX` covers chains and cycles.
  `extend_pseudo` is NOT modelled: `run`/`runX` answer `unsupported` there (and `run` for chains).

  As-found switches (theorems are about `false`, the correspondence runs with `true`):
  * `mediaCheckNoop`      — D16: `assert_compatible_media_context` (extension.rs:68) does nothing;
  * `mandatoryNotTracked` — D18: no "target selector was not found" error exists;
  * `supAsFound`          — C11-S1 (fixed by 75edc67): `trim` used the unsound superselector walk;
                            the code as it stands is `false`.
-/
namespace Grass.Extend
open Grass.Selector

structure Ext where
  extender : Compound          -- one complex of the extender rule's selector: a single compound
  target   : Simple
  optional : Bool
  media    : Option Nat        -- media context the `@extend` was written in (none = top level)
  deriving DecidableEq, Repr, Inhabited

inductive XErr where
  | crossMedia       -- "You may not @extend selectors across media queries."
  | missingTarget    -- "The target selector was not found."
  | mediaMerge       -- "You may not @extend the same selector from within different media queries." (merged.rs)
  | unsupported
  deriving DecidableEq, Repr, Inhabited

structure Switches where
  mediaCheckNoop      : Bool
  mandatoryNotTracked : Bool
  supAsFound          : Bool
  deriving DecidableEq, Repr, Inhabited

def Switches.spec : Switches := ⟨false, false, false⟩
def Switches.asFound : Switches := ⟨true, true, false⟩

/-- one alternative for a simple selector of a compound: the simple itself (`is_original`) or an extender -/
structure Opt where
  comp       : Compound
  isOriginal : Bool
  media      : Option Nat
  deriving DecidableEq, Repr, Inhabited

def origOpt (c : Compound) : Opt := ⟨c, true, none⟩
def extOpt (e : Ext) : Opt := ⟨e.extender, false, e.media⟩

def extendersOf (exts : List Ext) (s : Simple) : List Ext := exts.filter (fun e => e.target = s)

/-- `paths` (functions.rs:708): the first choice varies fastest, the first path takes every first option -/
def paths {α : Type} (choices : List (List α)) : List (List α) :=
  choices.foldl (fun ps choice => choice.flatMap fun o => ps.map (· ++ [o])) [[]]

/-- the `options` vector of `extend_compound` (mod.rs:366–398) -/
def buildOptions (exts : List Ext) : Compound → Compound → Option (List (List Opt)) → Option (List (List Opt))
  | _, [], acc => acc
  | pre, s :: rest, acc =>
    let es := extendersOf exts s
    if es.isEmpty then
      match acc with
      | some v => buildOptions exts (pre ++ [s]) rest (some (v ++ [[origOpt [s]]]))
      | none => buildOptions exts (pre ++ [s]) rest none
    else
      let entry := origOpt [s] :: es.map extOpt
      match acc with
      | none => buildOptions exts (pre ++ [s]) rest (some ((if pre.isEmpty then [] else [[origOpt pre]]) ++ [entry]))
      | some v => buildOptions exts (pre ++ [s]) rest (some (v ++ [entry]))

/-- `unify_complex` (functions.rs:13) on single compounds: the simples of every later compound are
    folded into the first one -/
def unifyInto : Compound → List Compound → Option Compound
  | base, [] => some base
  | base, c :: rest =>
    match unifyCompound c base with
    | some b => unifyInto b rest
    | none => none

def unifyAll : List Compound → Option Compound
  | [] => none
  | base :: rest => unifyInto base rest

/-- one path of `extend_compound` (mod.rs:454–512), not the first -/
def unifyPath (path : List Opt) : Option Compound :=
  let originals := (path.filter (·.isOriginal)).flatMap (·.comp)
  let others := (path.filter (fun o => !o.isOriginal)).map (·.comp)
  unifyAll (if originals.isEmpty then others else originals :: others)

/-- the media check of extension.rs:68 as specified (dart-sass `assertCompatibleMediaContext`) -/
def mediaOk (ruleMedia : Option Nat) (o : Opt) : Bool :=
  match o.media with
  | none => true
  | some m => ruleMedia = some m

abbrev Flagged := Complex × Bool     -- a complex with "is original" (identity in `originals`)

def maxSourceSpec (srcSpec : Simple → Nat) (x : Complex) : Nat :=
  x.foldl (fun n cp => match cp with
    | .comb _ => n
    | .compound c => c.foldl (fun m s => Nat.max m (srcSpec s)) n) 0

/-- the duplicate-original test of mod.rs:803–808 with `rotate_slice(result, 0, j + 1)`: the first of the
    `n` leading kept selectors equal to `c1` is moved to the front -/
def pullOut (c1 : Complex) : Nat → List Flagged → Option (Flagged × List Flagged)
  | 0, _ => none
  | _, [] => none
  | n + 1, r :: rs =>
    if r.1 = c1 then some (r, rs)
    else match pullOut c1 n rs with
      | some (f, rest) => some (f, r :: rest)
      | none => none

/-- body of `trim` (mod.rs:797–850) on the reversed input: `rest` are the selectors not yet visited
    (last first), `result` the kept ones -/
def trimGo (sup : Complex → Complex → Bool) (srcSpec : Simple → Nat) :
    List Flagged → List Flagged → Nat → List Flagged
  | [], result, _ => result
  | (c1, true) :: earlier, result, n =>
    match pullOut c1 n result with
    | some (f, rest) => trimGo sup srcSpec earlier (f :: rest) n
    | none => trimGo sup srcSpec earlier ((c1, true) :: result) (n + 1)
  | (c1, false) :: earlier, result, n =>
    let ms := maxSourceSpec srcSpec c1
    let covered := fun (c2 : Flagged) => decide (c2.1.minSpecificity ≥ ms) && sup c2.1 c1
    if result.any covered || earlier.any covered then trimGo sup srcSpec earlier result n
    else trimGo sup srcSpec earlier ((c1, false) :: result) n

/-- `ExtensionStore::trim` (mod.rs:775) -/
def trim (sup : Complex → Complex → Bool) (srcSpec : Simple → Nat) (sels : List Flagged) : List Flagged :=
  if sels.length > 100 then sels else trimGo sup srcSpec sels.reverse [] 0

/-- `source_specificity` (mod.rs:989): specificity of the first extender that contains the simple -/
def srcSpecOf (exts : List Ext) (s : Simple) : Nat :=
  match exts.find? (fun e => e.extender.contains s) with
  | some e => (specC e.extender).1
  | none => 0

def checkMedia (sw : Switches) (ruleMedia : Option Nat) (path : List Opt) : Bool :=
  sw.mediaCheckNoop || path.all (mediaOk ruleMedia)

/-- `extend_compound` (mod.rs:355), Normal mode.  `ok none` = no extension applies.  `exts` are the
    extensions being applied (all of them in `add_selector`, only the new ones in
    `extend_existing_selectors`); `all` are all registered so far — `source_specificity` is a
    store-wide map (mod.rs:90). -/
def extendCompound (sw : Switches) (exts all : List Ext) (ruleMedia : Option Nat) (inOriginal : Bool)
    (c : Compound) : Except XErr (Option (List Complex)) :=
  match buildOptions exts [] c none with
  | none => .ok none
  | some options =>
    match options with
    | [single] =>
      if checkMedia sw ruleMedia single then .ok (some (single.map fun o => [.compound o.comp]))
      else .error .crossMedia
    | _ =>
      match paths options with
      | [] => .ok (some [])
      | first :: others =>
        let unified : List (List Opt × Compound) :=
          (first, first.flatMap (·.comp)) :: others.filterMap fun p => (unifyPath p).map fun u => (p, u)
        if unified.all (fun pu => checkMedia sw ruleMedia pu.1) then
          let flagged : List Flagged :=
            match unified with
            | [] => []
            | f :: r => ([.compound f.2], inOriginal) :: r.map fun pu => ([.compound pu.2], false)
          .ok (some ((trim (isSuperComplex0 sw.supAsFound) (srcSpecOf all) flagged).map (·.1)))
        else .error .crossMedia

/-- `extended_not_expanded` of `extend_complex` (mod.rs:267–310) -/
def complexChoices (sw : Switches) (exts all : List Ext) (ruleMedia : Option Nat) (isOrig : Bool) :
    Complex → Except XErr (List (List Complex) × Bool)
  | [] => .ok ([], false)
  | .comb cb :: rest =>
    match complexChoices sw exts all ruleMedia isOrig rest with
    | .error e => .error e
    | .ok (chs, any) => .ok ([[.comb cb]] :: chs, any)
  | .compound c :: rest =>
    match extendCompound sw exts all ruleMedia isOrig c, complexChoices sw exts all ruleMedia isOrig rest with
    | .error e, _ => .error e
    | _, .error e => .error e
    | .ok none, .ok (chs, any) => .ok ([[.compound c]] :: chs, any)
    | .ok (some ext), .ok (chs, _) => .ok (ext :: chs, true)

/-- `extend_complex` (mod.rs:244): every extender is a single compound, so `weave` of a path is the
    concatenation of its components -/
def extendComplex (sw : Switches) (exts all : List Ext) (ruleMedia : Option Nat) (x : Flagged) :
    Except XErr (Option (List Flagged)) :=
  match complexChoices sw exts all ruleMedia x.2 x.1 with
  | .error e => .error e
  | .ok (_, false) => .ok none
  | .ok (chs, true) =>
    match (paths chs).map (fun p => p.flatMap id) with
    | [] => .ok (some [])
    | f :: r => .ok (some ((f, x.2) :: r.map fun y => (y, false)))

def extendEach (sw : Switches) (exts all : List Ext) (ruleMedia : Option Nat) :
    List Flagged → Except XErr (List Flagged × Bool)
  | [] => .ok ([], false)
  | x :: rest =>
    match extendComplex sw exts all ruleMedia x, extendEach sw exts all ruleMedia rest with
    | .error e, _ => .error e
    | _, .error e => .error e
    | .ok none, .ok (r, any) => .ok (x :: r, any)
    | .ok (some ys), .ok (r, _) => .ok (ys ++ r, true)

/-- `extend_list` (mod.rs:202) -/
def extendList (sw : Switches) (exts all : List Ext) (ruleMedia : Option Nat) (l : List Flagged) :
    Except XErr (List Flagged) :=
  match extendEach sw exts all ruleMedia l with
  | .error e => .error e
  | .ok (_, false) => .ok l
  | .ok (ext, true) => .ok (trim (isSuperComplex0 sw.supAsFound) (srcSpecOf all) ext)

/-! ### the store: rules and `@extend`s in document order (mod.rs:863, :938; visitor.rs:1290) -/

inductive Item where
  | rule (sel : SelList) (media : Option Nat)
  | extend (extender : SelList) (target : Simple) (optional : Bool) (media : Option Nat)
  deriving Repr, Inhabited

structure Rule where
  original : SelList
  current  : List Flagged
  media    : Option Nat
  deriving Repr, Inhabited

structure Store where
  rules : List Rule
  exts  : List Ext
  deriving Repr, Inhabited

def simplesOf (x : Complex) : List Simple :=
  x.flatMap fun | .comb _ => [] | .compound c => c

def inFragment (l : SelList) : Bool := noSelL l && !l.containsParent

def asCompounds (l : SelList) : Option (List Compound) :=
  l.mapM fun x => match x with | [.compound c] => some c | _ => none

/-- `add_selector` (mod.rs:863) -/
def addSelector (sw : Switches) (st : Store) (sel : SelList) (media : Option Nat) : Except XErr Store :=
  if !inFragment sel then .error .unsupported else
  let flagged : List Flagged := sel.map fun x => (x, !SelList.isInvisible sel)
  match (if st.exts.isEmpty then .ok flagged else extendList sw st.exts st.exts media flagged) with
  | .error e => .error e
  | .ok cur => .ok { st with rules := st.rules ++ [⟨sel, cur, media⟩] }

def reextend (sw : Switches) (newExts all : List Ext) : List Rule → Except XErr (List Rule)
  | [] => .ok []
  | r :: rs =>
    match extendList sw newExts all r.media r.current, reextend sw newExts all rs with
    | .error e, _ => .error e
    | _, .error e => .error e
    | .ok cur, .ok rs' => .ok ({ r with current := cur } :: rs')

/-- `add_extension` (mod.rs:938) for one `@extend` of a rule whose selector is `extender` -/
def addExtension (sw : Switches) (st : Store) (extender : SelList) (target : Simple) (optional : Bool)
    (media : Option Nat) : Except XErr Store :=
  match asCompounds extender with
  | none => .error .unsupported
  | some comps =>
    if target.isSel || target.isParent || !noSelL extender then .error .unsupported else
    -- chains (an extender that mentions a target, or this target mentioned by an extender): not modelled
    if st.exts.any (fun e => e.extender.contains target) || comps.any (fun c => c.contains target) ||
       comps.any (fun c => st.exts.any (fun e => c.contains e.target)) then .error .unsupported else
    -- MergedExtension::merge (merged.rs): same extender and target from two different media contexts
    if comps.any (fun c => st.exts.any (fun e => e.extender = c && e.target = target &&
        e.media.isSome && media.isSome && e.media ≠ media)) then .error .mediaMerge else
    let fresh := comps.filter fun c => !st.exts.any (fun e => e.extender = c && e.target = target)
    let newExts := fresh.map fun c => (⟨c, target, optional, media⟩ : Ext)
    let allExts := st.exts ++ newExts
    -- source_specificity is complete before `extend_existing_selectors` runs (mod.rs:989, :1021)
    match reextend sw newExts allExts (st.rules.map fun r => r) with
    | .error e => .error e
    | .ok rules => .ok { rules := rules, exts := allExts }

def runItems (sw : Switches) : Store → List Item → Except XErr Store
  | st, [] => .ok st
  | st, .rule sel media :: rest =>
    match addSelector sw st sel media with
    | .error e => .error e
    | .ok st' => runItems sw st' rest
  | st, .extend ex t o m :: rest =>
    match addExtension sw st ex t o m with
    | .error e => .error e
    | .ok st' => runItems sw st' rest

/-- a mandatory extension is satisfied when its target occurs in the selector of some style rule -/
def targetFound (rules : List Rule) (t : Simple) : Bool :=
  rules.any fun r => r.original.any fun x => (simplesOf x).contains t

/-- the whole run: final selector of every rule, or the error the stylesheet must produce -/
def run (sw : Switches) (items : List Item) : Except XErr (List SelList) :=
  match runItems sw ⟨[], []⟩ items with
  | .error e => .error e
  | .ok st =>
    if !sw.mandatoryNotTracked && st.exts.any (fun e => !e.optional && !targetFound st.rules e.target)
    then .error .missingTarget
    else .ok (st.rules.map fun r => r.current.map (·.1))

/-! ### "extenders are credited with the target": the semantics `@extend` has to implement -/

mutual
def cSimple (credit : Simple → Ctx → Bool) : Simple → Ctx → Bool
  | .sel k arg, p =>
    (match k with
     | .not => !(cArgs credit arg p)
     | _ => cArgs credit arg p) || credit (.sel k arg) p
  | .univ, p => mSimple .univ p || credit .univ p
  | .type n, p => mSimple (.type n) p || credit (.type n) p
  | .cls n, p => mSimple (.cls n) p || credit (.cls n) p
  | .id n, p => mSimple (.id n) p || credit (.id n) p
  | .attr n v, p => mSimple (.attr n v) p || credit (.attr n v) p
  | .pclass n, p => mSimple (.pclass n) p || credit (.pclass n) p
  | .pelem n, p => mSimple (.pelem n) p || credit (.pelem n) p
  | .placeholder n, p => credit (.placeholder n) p
  | .parent s, p => credit (.parent s) p
def cArgs (credit : Simple → Ctx → Bool) : List (List Simple × List (Rel × List Simple)) → Ctx → Bool
  | [], _ => false
  | (t, rest) :: cs, p => (cComp credit t p && cSteps credit rest p) || cArgs credit cs p
def cSteps (credit : Simple → Ctx → Bool) : List (Rel × List Simple) → Ctx → Bool
  | [], _ => true
  | (r, c) :: rest, p => (steps r p).any fun q => cComp credit c q && cSteps credit rest q
def cComp (credit : Simple → Ctx → Bool) : List Simple → Ctx → Bool
  | [], _ => true
  | s :: ss, p => cSimple credit s p && cComp credit ss p
end

def cComplex (credit : Simple → Ctx → Bool) (X : Complex) (p : Ctx) : Bool :=
  match norm X with
  | some r => cComp credit r.1 p && cSteps credit r.2 p
  | none => false

def cList (credit : Simple → Ctx → Bool) (L : SelList) (p : Ctx) : Bool := L.any (cComplex credit · p)

/-- a single-compound extension: elements matched by `E` count as matching `T` -/
def credit1 (E : Compound) (T : Simple) : Simple → Ctx → Bool :=
  fun s p => decide (s = T) && mComp E p

/-- `matchesCredited S E T`: the original selector, extenders credited with the target -/
def matchesCredited (S : SelList) (E : Compound) (T : Simple) (p : Ctx) : Bool := cList (credit1 E T) S p

/-- chains and cycles: credit through at most `n` extension steps (complex extenders allowed) -/
def creditN (exts : List (SelList × Simple)) : Nat → Simple → Ctx → Bool
  | 0 => fun _ _ => false
  | n + 1 => fun s p => exts.any fun et => decide (et.2 = s) && cList (creditN exts n) et.1 p

/-- credited matching in which at most one simple selector per compound may use its credit
    (driver side: recognises the incremental-extension class C10-X2, whose missing matches need
    the credits of two different targets inside one compound) -/
def cComp1 (credit : Simple → Ctx → Bool) : Compound → Ctx → Bool
  | [], _ => true
  | s :: ss, p => (mSimple s p && cComp1 credit ss p) || (cSimple credit s p && mComp ss p)

def cSteps1 (credit : Simple → Ctx → Bool) : RSteps → Ctx → Bool
  | [], _ => true
  | (r, c) :: rest, p => (steps r p).any fun q => cComp1 credit c q && cSteps1 credit rest q

def cList1 (credit : Simple → Ctx → Bool) (L : SelList) (p : Ctx) : Bool :=
  L.any fun X => match norm X with
    | some r => cComp1 credit r.1 p && cSteps1 credit r.2 p
    | none => false

/-! ### `weave` and its helpers (extend/functions.rs) — complex extenders

  `weaveParentsWith`/`weaveWith`/`unifyComplexWith` take the recursive callee as a parameter; the knot
  (`unify_complex` → `weave` → `weave_parents` → lcs `select` → `unify_complex`) is tied by `ucF` with a
  fuel that is only consumed on that cycle (each round works on strictly shorter component vectors).
  `sibAsFound` — C10-X3: `merge_final_combinators` (functions.rs:413–486) emits `x ~ y ~` / `x ~ y +`
  although the components that preceded `y` end in `+` (so they would now sit next to `x`); the
  specified variant omits that alternative. -/

def isCombC : Component → Bool | .comb _ => true | .compound _ => false

/-- one row of the `lengths` table of `longest_common_subsequence` (functions.rs:284–301) on the reversed
    prefixes: `prev` is the row of the shorter first list -/
def lcsRow {α : Type} (sel : α → α → Option α) (a : α) (prev : List α → Nat) : List α → Nat
  | [] => 0
  | b :: r2 =>
    if (sel a b).isSome then prev r2 + 1
    else Nat.max (lcsRow sel a prev r2) (prev (b :: r2))

/-- `lengths[i+1][j+1]` for the reversed prefixes `l1`, `l2` -/
def lcsLen {α : Type} (sel : α → α → Option α) : List α → List α → Nat
  | [] => fun _ => 0
  | a :: r1 => lcsRow sel a (lcsLen sel r1)

/-- `backtrack` (functions.rs:303) along one row -/
def lcsBackRow {α : Type} (sel : α → α → Option α) (a : α) (lenHere lenPrev : List α → Nat)
    (backPrev : List α → List α) : List α → List α
  | [] => []
  | b :: r2 =>
    match sel a b with
    | some s => backPrev r2 ++ [s]
    | none =>
      if lenHere r2 > lenPrev (b :: r2) then lcsBackRow sel a lenHere lenPrev backPrev r2
      else backPrev (b :: r2)

/-- `backtrack` (functions.rs:303) on the reversed prefixes; the answer is in forward order -/
def lcsBack {α : Type} (sel : α → α → Option α) : List α → List α → List α
  | [] => fun _ => []
  | a :: r1 => lcsBackRow sel a (lcsLen sel (a :: r1)) (lcsLen sel r1) (lcsBack sel r1)

/-- `longest_common_subsequence` (functions.rs:271) -/
def lcs {α : Type} (sel : α → α → Option α) (l1 l2 : List α) : List α := lcsBack sel l1.reverse l2.reverse

def eqSel {α : Type} [DecidableEq α] (a b : α) : Option α := if a = b then some a else none

def groupGo : Complex → Complex → List Complex → List Complex
  | [], cur, acc => acc ++ [cur]
  | c :: rest, cur, acc =>
    if (match cur.getLast? with | some x => isCombC x | none => false) || isCombC c
    then groupGo rest (cur ++ [c]) acc
    else groupGo rest [c] (acc ++ [cur])

/-- `group_selectors` (functions.rs:596) -/
def groupSelectors : Complex → List Complex
  | [] => []
  | c :: rest => groupGo rest [c] []

/-- the `while !done(queue)` loops of `chunks` (functions.rs:643–651); both `done` callbacks answer
    `true` on the empty queue -/
def popUntil {α : Type} (done : List α → Bool) : List α → List α × List α
  | [] => ([], [])
  | x :: xs =>
    if done (x :: xs) then ([], x :: xs)
    else ((x :: (popUntil done xs).1), (popUntil done xs).2)

/-- `chunks` (functions.rs:638): the orderings and the two remaining queues -/
def chunks {α : Type} (done : List α → Bool) (q1 q2 : List α) : List (List α) × List α × List α :=
  let c1 := popUntil done q1
  let c2 := popUntil done q2
  ((match c1.1.isEmpty, c2.1.isEmpty with
    | true, true => []
    | true, false => [c2.1]
    | false, true => [c1.1]
    | false, false => [c1.1 ++ c2.1, c2.1 ++ c1.1]), c1.2, c2.2)

def headIsComb : Complex → Bool | .comb _ :: _ => true | _ => false

/-- `complex_is_parent_superselector` (functions.rs:675); selectors without selector pseudos -/
def parentSuper (c1 c2 : Complex) : Bool :=
  if headIsComb c1 || headIsComb c2 then false
  else if c1.length > c2.length then false
  else isSuperComplex0 false (c1 ++ [.compound [.placeholder []]]) (c2 ++ [.compound [.placeholder []]])

/-- `is_unique` (functions.rs:756) -/
def isUniqueS : Simple → Bool | .id _ => true | .pelem _ => true | _ => false

/-- `must_unify` (functions.rs:727) -/
def mustUnify (c1 c2 : Complex) : Bool :=
  let us := (simplesOf c1).filter isUniqueS
  if us.isEmpty then false else (simplesOf c2).any fun s => isUniqueS s && us.contains s

def takeCombs : Complex → List Comb × Complex
  | .comb c :: rest => (c :: (takeCombs rest).1, (takeCombs rest).2)
  | l => ([], l)

/-- `merge_initial_combinators` (functions.rs:232): merged leading combinators and the two queues -/
def mergeInitial (q1 q2 : Complex) : Option (List Comb × Complex × Complex) :=
  let t1 := takeCombs q1
  let t2 := takeCombs q2
  let l := lcs eqSel t1.1 t2.1
  if l = t1.1 then some (t2.1, t1.2, t2.2)
  else if l = t2.1 then some (t1.1, t1.2, t2.2)
  else none

def endsNext : Complex → Bool | .comb .next :: _ => true | _ => false

/-- `merge_final_combinators` (functions.rs:341).  The queues are given REVERSED (last component
    first); the answer is (choices in forward order, the two remaining reversed queues). -/
def mergeFinal (sibAsFound : Bool) : Nat → Complex → Complex → List (List Complex) →
    Option (List (List Complex) × Complex × Complex)
  | 0, _, _, _ => none
  | fuel + 1, r1, r2, result =>
    if !headIsComb r1 && !headIsComb r2 then some (result, r1, r2) else
    let t1 := takeCombs r1
    let t2 := takeCombs r2
    if t1.1.length > 1 || t2.1.length > 1 then
      let l := lcs eqSel t1.1 t2.1
      if l = t1.1 then some ([t2.1.reverse.map Component.comb] :: result, t1.2, t2.2)
      else if l = t2.1 then some ([t1.1.reverse.map Component.comb] :: result, t1.2, t2.2)
      else none
    else
    match t1.1.head?, t2.1.head? with
    | some cb1, some cb2 =>
      match t1.2, t2.2 with
      | .compound c1 :: q1, .compound c2 :: q2 =>
        let keep1 := sibAsFound || !endsNext q1     -- may something be put in front of `c1`?
        let keep2 := sibAsFound || !endsNext q2
        match cb1, cb2 with
        | .later, .later =>
          if superCompound0 c1 c2 then mergeFinal sibAsFound fuel q1 q2 ([[.compound c2, .comb .later]] :: result)
          else if superCompound0 c2 c1 then mergeFinal sibAsFound fuel q1 q2 ([[.compound c1, .comb .later]] :: result)
          else
            let ch := (if keep2 then [[Component.compound c1, .comb .later, .compound c2, .comb .later]] else []) ++
                      (if keep1 then [[Component.compound c2, .comb .later, .compound c1, .comb .later]] else []) ++
                      (match unifyCompound c1 c2 with
                       | some u => [[Component.compound u, .comb .later]]
                       | none => [])
            mergeFinal sibAsFound fuel q1 q2 (ch :: result)
        | .later, .next =>
          -- following = c1, next = c2
          if superCompound0 c1 c2 then mergeFinal sibAsFound fuel q1 q2 ([[.compound c2, .comb .next]] :: result)
          else
            let ch := (if keep2 then [[Component.compound c1, .comb .later, .compound c2, .comb .next]] else []) ++
                      (match unifyCompound c1 c2 with
                       | some u => [[Component.compound u, .comb .next]]
                       | none => [])
            mergeFinal sibAsFound fuel q1 q2 (ch :: result)
        | .next, .later =>
          -- following = c2, next = c1
          if superCompound0 c2 c1 then mergeFinal sibAsFound fuel q1 q2 ([[.compound c1, .comb .next]] :: result)
          else
            let ch := (if keep1 then [[Component.compound c2, .comb .later, .compound c1, .comb .next]] else []) ++
                      (match unifyCompound c1 c2 with
                       | some u => [[Component.compound u, .comb .next]]
                       | none => [])
            mergeFinal sibAsFound fuel q1 q2 (ch :: result)
        | .child, .next => mergeFinal sibAsFound fuel r1 q2 ([[.compound c2, .comb cb2]] :: result)
        | .child, .later => mergeFinal sibAsFound fuel r1 q2 ([[.compound c2, .comb cb2]] :: result)
        | .next, .child => mergeFinal sibAsFound fuel q1 r2 ([[.compound c1, .comb cb1]] :: result)
        | .later, .child => mergeFinal sibAsFound fuel q1 r2 ([[.compound c1, .comb cb1]] :: result)
        | _, _ =>
          if cb1 ≠ cb2 then none else
          match unifyCompound c1 c2 with
          | none => none
          | some u => mergeFinal sibAsFound fuel q1 q2 ([[.compound u, .comb cb1]] :: result)
      | _, _ => none      -- `unreachable!()` (functions.rs:405)
    | some cb1, none =>
      match t1.2 with
      | [] => none        -- `pop_back().unwrap()` on an empty queue
      | x :: q1 =>
        let r2' := match cb1, x, r2 with
          | .child, .compound k1, .compound k2 :: q2 => if superCompound0 k2 k1 then q2 else r2
          | _, _, _ => r2
        mergeFinal sibAsFound fuel q1 r2' ([[x, .comb cb1]] :: result)
    | none, some cb2 =>
      match t2.2 with
      | [] => none
      | x :: q2 =>
        let r1' := match cb2, r1, x with
          | .child, .compound k1 :: q1, .compound k2 => if superCompound0 k1 k2 then q1 else r1
          | _, _, _ => r1
        mergeFinal sibAsFound fuel r1' q2 ([[x, .comb cb2]] :: result)
    | none, none => none  -- `unreachable!()`

def hasRoot (c : Compound) : Bool := c.contains (.pclass ['r', 'o', 'o', 't'])

/-- `first_if_root` (functions.rs:564) -/
def firstIfRoot : Complex → Option (Compound × Complex)
  | .compound c :: rest => if hasRoot c then some (c, rest) else none
  | _ => none

def flat (l : List Complex) : Complex := l.flatMap id

/-- the `select` callback of `weave_parents` (functions.rs:148–177) -/
def weaveSelect (uc : List Complex → Option (List Complex)) (g1 g2 : Complex) : Option Complex :=
  if g1 = g2 then some g1
  else match g1, g2 with
    | [], _ => none
    | _, [] => none
    | x :: _, y :: _ =>
      if isCombC x || isCombC y then none
      else if parentSuper g1 g2 then some g2
      else if parentSuper g2 g1 then some g1
      else if !mustUnify g1 g2 then none
      else match uc [g1, g2] with
        | some [u] => some u
        | _ => none

/-- the `for group in lcs` loop of `weave_parents` (functions.rs:185–203) -/
def weaveLoop : List Complex → List Complex → List Complex → List (List Complex) × List Complex × List Complex
  | [], g1, g2 => ([], g1, g2)
  | group :: rest, g1, g2 =>
    let ch := chunks (fun sq => match sq with | [] => true | v :: _ => parentSuper v group) g1 g2
    let more := weaveLoop rest (ch.2.1.drop 1) (ch.2.2.drop 1)
    (ch.1.map flat :: [group] :: more.1, more.2.1, more.2.2)

/-- `weave_parents` (functions.rs:116) -/
def weaveParentsWith (sibAsFound : Bool) (uc : List Complex → Option (List Complex)) (p1 p2 : Complex) :
    Option (List Complex) :=
  match mergeInitial p1 p2 with
  | none => none
  | some (init, q1, q2) =>
    match mergeFinal sibAsFound (q1.length + q2.length + 1) q1.reverse q2.reverse [] with
    | none => none
    | some (fin, r1, r2) =>
      let q1 := r1.reverse
      let q2 := r2.reverse
      let rooted : Option (Complex × Complex) :=
        match firstIfRoot q1, firstIfRoot q2 with
        | some (a, q1'), some (b, q2') =>
          (unifyCompound a b).map fun u => (.compound u :: q1', .compound u :: q2')
        | some (a, q1'), none => some (q1', .compound a :: q2)
        | none, some (b, q2') => some (.compound b :: q1, q2')
        | none, none => some (q1, q2)
      match rooted with
      | none => none
      | some (q1, q2) =>
        let g1 := groupSelectors q1
        let g2 := groupSelectors q2
        let l := lcs (weaveSelect uc) g2 g1
        let lp := weaveLoop l g1 g2
        let last := chunks (fun sq => sq.isEmpty) lp.2.1 lp.2.2
        let choices : List (List Complex) :=
          [[init.map Component.comb]] ++ lp.1 ++ [last.1.map flat] ++ fin
        some ((paths (choices.filter fun ch => !ch.isEmpty)).map flat)

/-- one round of the `for` loop of `weave` (functions.rs:73–98) -/
def weaveStep (wp : Complex → Complex → Option (List Complex)) (prefixes : List Complex) (complex : Complex) :
    List Complex :=
  match complex.reverse with
  | [] => prefixes
  | target :: parentsRev =>
    if parentsRev.isEmpty then prefixes.map (· ++ [target])
    else prefixes.flatMap fun pre =>
      match wp pre parentsRev.reverse with
      | none => []
      | some pps => pps.map (· ++ [target])

/-- `weave` (functions.rs:68) -/
def weaveWith (wp : Complex → Complex → Option (List Complex)) : List Complex → List Complex
  | [] => []
  | first :: rest => rest.foldl (weaveStep wp) [first]

def lastCompound (x : Complex) : Option Compound :=
  match x.getLast? with
  | some (.compound c) => some c
  | _ => none

/-- the base-unification loop of `unify_complex` (functions.rs:24–39) -/
def unifyBases : List Complex → Option Compound → Option Compound
  | [], acc => acc
  | x :: rest, acc =>
    match lastCompound x with
    | none => none
    | some b =>
      match acc with
      | none => unifyBases rest (some b)
      | some u =>
        match unifyCompound b u with
        | none => none
        | some u' => unifyBases rest (some u')

def pushToLast (l : List Complex) (c : Component) : List Complex :=
  match l.reverse with
  | [] => []
  | x :: r => (r.reverse) ++ [x ++ [c]]

/-- `unify_complex` (functions.rs:13) -/
def unifyComplexWith (wv : List Complex → List Complex) (cs : List Complex) : Option (List Complex) :=
  match cs with
  | [] => none
  | [_] => some cs
  | _ =>
    match unifyBases cs none with
    | none => none
    | some u => some (wv (pushToLast (cs.map List.dropLast) (.compound u)))

/-- the recursion `unify_complex → weave → weave_parents → select → unify_complex`, tied with fuel -/
def ucF (sibAsFound : Bool) : Nat → List Complex → Option (List Complex)
  | 0 => fun _ => none
  | f + 1 => unifyComplexWith (weaveWith (weaveParentsWith sibAsFound (ucF sibAsFound f)))

def sizeCs (cs : List Complex) : Nat := cs.foldl (fun n x => n + x.length) 1

def weaveParentsTop (sibAsFound : Bool) (p1 p2 : Complex) : Option (List Complex) :=
  weaveParentsWith sibAsFound (ucF sibAsFound (p1.length + p2.length)) p1 p2

def weaveTop (sibAsFound : Bool) (cs : List Complex) : List Complex :=
  weaveWith (weaveParentsWith sibAsFound (ucF sibAsFound (sizeCs cs))) cs

def unifyComplexTop (sibAsFound : Bool) (cs : List Complex) : Option (List Complex) := ucF sibAsFound (sizeCs cs + 1) cs

/-- `SelectorList::unify` (list.rs:120) behind `selector-unify` -/
def unifyLists (sibAsFound : Bool) (a b : SelList) : Option SelList :=
  let r := a.flatMap fun c1 => b.flatMap fun c2 => (unifyComplexTop sibAsFound [c1, c2]).getD []
  if r.isEmpty then none else some r

/-! ### the extender with complex extenders (`extend_compound` → `unify_complex`, `extend_complex` → `weave`) -/

structure XExt where
  extender : Complex
  target   : Simple
  optional : Bool
  media    : Option Nat
  deriving DecidableEq, Repr, Inhabited

structure XOpt where
  comp       : Complex
  isOriginal : Bool
  media      : Option Nat
  deriving DecidableEq, Repr, Inhabited

structure XSwitches where
  sw         : Switches
  sibAsFound : Bool          -- C10-X3
  deriving DecidableEq, Repr, Inhabited

def origXOpt (c : Compound) : XOpt := ⟨[.compound c], true, none⟩
def extXOpt (e : XExt) : XOpt := ⟨e.extender, false, e.media⟩

def xextendersOf (exts : List XExt) (s : Simple) : List XExt := exts.filter (fun e => e.target = s)

/-- the `options` vector of `extend_compound` (mod.rs:366–398) -/
def buildXOptions (exts : List XExt) : Compound → Compound → Option (List (List XOpt)) → Option (List (List XOpt))
  | _, [], acc => acc
  | pre, s :: rest, acc =>
    let es := xextendersOf exts s
    if es.isEmpty then
      match acc with
      | some v => buildXOptions exts (pre ++ [s]) rest (some (v ++ [[origXOpt [s]]]))
      | none => buildXOptions exts (pre ++ [s]) rest none
    else
      let entry := origXOpt [s] :: es.map extXOpt
      match acc with
      | none => buildXOptions exts (pre ++ [s]) rest (some ((if pre.isEmpty then [] else [[origXOpt pre]]) ++ [entry]))
      | some v => buildXOptions exts (pre ++ [s]) rest (some (v ++ [entry]))

def lastSimples (x : Complex) : Compound := (lastCompound x).getD []

/-- one path of `extend_compound` (mod.rs:472–493), not the first -/
def unifyXPath (sib : Bool) (path : List XOpt) : Option (List Complex) :=
  let originals := (path.filter (·.isOriginal)).flatMap (fun o => lastSimples o.comp)
  let others := (path.filter (fun o => !o.isOriginal)).map (·.comp)
  match (if originals.isEmpty then others else [.compound originals] :: others) with
  | [] => none
  | l => unifyComplexTop sib l

def xmediaOk (ruleMedia : Option Nat) (o : XOpt) : Bool :=
  match o.media with
  | none => true
  | some m => ruleMedia = some m

def checkXMedia (sw : Switches) (ruleMedia : Option Nat) (path : List XOpt) : Bool :=
  sw.mediaCheckNoop || path.all (xmediaOk ruleMedia)

/-- `source_specificity` (mod.rs:986) with complex extenders -/
def srcSpecOfX (exts : List XExt) (s : Simple) : Nat :=
  match exts.find? (fun e => (simplesOf e.extender).contains s) with
  | some e => (specComplex e.extender).1
  | none => 0

/-- `extend_compound` (mod.rs:352), Normal mode, extenders are complex selectors -/
def extendCompoundX (xs : XSwitches) (exts all : List XExt) (ruleMedia : Option Nat) (inOriginal : Bool)
    (c : Compound) : Except XErr (Option (List Complex)) :=
  match buildXOptions exts [] c none with
  | none => .ok none
  | some options =>
    match options with
    | [single] =>
      if checkXMedia xs.sw ruleMedia single then .ok (some (single.map (·.comp)))
      else .error .crossMedia
    | _ =>
      match paths options with
      | [] => .ok (some [])
      | first :: others =>
        let unified : List (List XOpt × List Complex) :=
          (first, [[.compound (first.flatMap fun o => lastSimples o.comp)]]) ::
            others.filterMap fun p => (unifyXPath xs.sibAsFound p).map fun u => (p, u)
        if unified.all (fun pu => checkXMedia xs.sw ruleMedia pu.1) then
          let flagged : List Flagged :=
            match unified.flatMap (·.2) with
            | [] => []
            | f :: r => (f, inOriginal) :: r.map fun y => (y, false)
          .ok (some ((trim (isSuperComplex0 xs.sw.supAsFound) (srcSpecOfX all) flagged).map (·.1)))
        else .error .crossMedia

/-- `extended_not_expanded` of `extend_complex` (mod.rs:264–307) -/
def complexChoicesX (xs : XSwitches) (exts all : List XExt) (ruleMedia : Option Nat) (isOrig : Bool) :
    Complex → Except XErr (List (List Complex) × Bool)
  | [] => .ok ([], false)
  | .comb cb :: rest =>
    match complexChoicesX xs exts all ruleMedia isOrig rest with
    | .error e => .error e
    | .ok (chs, any) => .ok ([[.comb cb]] :: chs, any)
  | .compound c :: rest =>
    match extendCompoundX xs exts all ruleMedia isOrig c, complexChoicesX xs exts all ruleMedia isOrig rest with
    | .error e, _ => .error e
    | _, .error e => .error e
    | .ok none, .ok (chs, any) => .ok ([[.compound c]] :: chs, any)
    | .ok (some ext), .ok (chs, _) => .ok (ext :: chs, true)

/-- `extend_complex` (mod.rs:241): every path of alternatives is woven (`weave`, functions.rs:68) -/
def extendComplexX (xs : XSwitches) (exts all : List XExt) (ruleMedia : Option Nat) (x : Flagged) :
    Except XErr (Option (List Flagged)) :=
  match complexChoicesX xs exts all ruleMedia x.2 x.1 with
  | .error e => .error e
  | .ok (_, false) => .ok none
  | .ok (chs, true) =>
    match (paths chs).flatMap (fun p => weaveTop xs.sibAsFound p) with
    | [] => .ok (some [])
    | f :: r => .ok (some ((f, x.2) :: r.map fun y => (y, false)))

def extendEachX (xs : XSwitches) (exts all : List XExt) (ruleMedia : Option Nat) :
    List Flagged → Except XErr (List Flagged × Bool)
  | [] => .ok ([], false)
  | x :: rest =>
    match extendComplexX xs exts all ruleMedia x, extendEachX xs exts all ruleMedia rest with
    | .error e, _ => .error e
    | _, .error e => .error e
    | .ok none, .ok (r, any) => .ok (x :: r, any)
    | .ok (some ys), .ok (r, _) => .ok (ys ++ r, true)

/-- `extend_list` (mod.rs:199) -/
def extendListX (xs : XSwitches) (exts all : List XExt) (ruleMedia : Option Nat) (l : List Flagged) :
    Except XErr (List Flagged) :=
  match extendEachX xs exts all ruleMedia l with
  | .error e => .error e
  | .ok (_, false) => .ok l
  | .ok (ext, true) => .ok (trim (isSuperComplex0 xs.sw.supAsFound) (srcSpecOfX all) ext)

structure XStore where
  rules : List Rule
  exts  : List XExt
  deriving Repr, Inhabited

def addSelectorX (xs : XSwitches) (st : XStore) (sel : SelList) (media : Option Nat) : Except XErr XStore :=
  if !inFragment sel then .error .unsupported else
  let flagged : List Flagged := sel.map fun x => (x, !SelList.isInvisible sel)
  match (if st.exts.isEmpty then .ok flagged else extendListX xs st.exts st.exts media flagged) with
  | .error e => .error e
  | .ok cur => .ok { st with rules := st.rules ++ [⟨sel, cur, media⟩] }

def reextendX (xs : XSwitches) (newExts all : List XExt) : List Rule → Except XErr (List Rule)
  | [] => .ok []
  | r :: rs =>
    match extendListX xs newExts all r.media r.current, reextendX xs newExts all rs with
    | .error e, _ => .error e
    | _, .error e => .error e
    | .ok cur, .ok rs' => .ok ({ r with current := cur } :: rs')

/-- `MergedExtension::merge` (merged.rs:20).  `into_extension` sets `is_optional: true`; the flag is never read in
    the code as found (D18) — the model keeps "mandatory if either side is mandatory", which is what the specified
    variant's missing-target test needs. -/
def mergeX (l r : XExt) : Except XErr XExt :=
  if l.media.isSome && r.media.isSome && l.media ≠ r.media then .error .mediaMerge
  else if r.optional && r.media.isNone then .ok l
  else if l.optional && l.media.isNone then .ok r
  else .ok { l with media := (match l.media with | some v => some v | none => r.media),
                    optional := l.optional && r.optional }

/-- `sources.insert(complex, merged)` on an existing key: the entry keeps its position (IndexMap) -/
def replaceExt (exts : List XExt) (c : Complex) (t : Simple) (n : XExt) : List XExt :=
  exts.map fun e => if e.extender = c && e.target = t then n else e

/-- the `for complex in extender.components` loop of `add_extension` (mod.rs:947–998): all extensions of the store
    (insertion order; per target this is the order of the IndexMap) and the newly added ones -/
def registerX (target : Simple) (optional : Bool) (media : Option Nat) :
    List Complex → List XExt → List XExt → Except XErr (List XExt × List XExt)
  | [], exts, new => .ok (exts, new)
  | c :: rest, exts, new =>
    let state : XExt := ⟨c, target, optional, media⟩
    match exts.find? (fun e => e.extender = c && e.target = target) with
    | some old =>
      match mergeX old state with
      | .error e => .error e
      | .ok m => registerX target optional media rest (replaceExt exts c target m) new
    | none => registerX target optional media rest (exts ++ [state]) (new ++ [state])

/-- `self.originals.contains(complex)` (mod.rs:268) for the extender of an extension: a complex of a registered
    visible rule (the flags carried by the rules' current selectors) -/
def isOriginalX (rules : List Rule) (x : Complex) : Bool :=
  rules.any fun r => r.current.any fun f => f.2 && f.1 = x

/-- the `for complex in selectors` loop of `extend_existing_extensions` (mod.rs:1078–1113): a derived extension
    `complex → ext.target` is merged into an equal existing one or appended; it is reported back
    (`additional_extensions`) only when its target is the target being extended (`new_extensions.contains_key`) -/
def deriveX (ext : XExt) (newTarget : Simple) : List Complex → List XExt → List XExt → Except XErr (List XExt × List XExt)
  | [], exts, add => .ok (exts, add)
  | c :: rest, exts, add =>
    let w : XExt := { ext with extender := c }
    match exts.find? (fun e => e.extender = c && e.target = ext.target) with
    | some old =>
      match mergeX old w with
      | .error e => .error e
      | .ok m => deriveX ext newTarget rest (replaceExt exts c ext.target m) add
    | none => deriveX ext newTarget rest (exts ++ [w]) (if ext.target = newTarget then add ++ [w] else add)

/-- `extend_existing_extensions` (mod.rs:1042): ONE pass over the extensions whose extender mentions the new target
    (there is no fixpoint loop in the code: structural recursion over that snapshot); each extender is extended with
    the new extensions only, in the media context of its own `@extend` -/
def extendExistingX (xs : XSwitches) (rules : List Rule) (newExts : List XExt) (newTarget : Simple) :
    List XExt → List XExt → List XExt → Except XErr (List XExt × List XExt)
  | [], exts, add => .ok (exts, add)
  | ext :: rest, exts, add =>
    match extendComplexX xs newExts exts ext.media (ext.extender, isOriginalX rules ext.extender) with
    | .error e => .error e
    | .ok none => extendExistingX xs rules newExts newTarget rest exts add
    | .ok (some []) => .error .unsupported
    | .ok (some (f :: more)) =>
      -- `contains_extension` (mod.rs:1076) is false only after a `:not()` expansion: outside the fragment
      if f.1 ≠ ext.extender then .error .unsupported else
      match deriveX ext newTarget (more.map (·.1)) exts add with
      | .error e => .error e
      | .ok (exts', add') => extendExistingX xs rules newExts newTarget rest exts' add'

/-- `extensions_by_extender.get(target)` (mod.rs:943): one entry per occurrence of the target in an extender -/
def byExtenderX (exts : List XExt) (target : Simple) : List XExt :=
  exts.flatMap fun e => ((simplesOf e.extender).filter (fun s => s = target)).map fun _ => e

/-- `add_extension` (mod.rs:935) with complex extenders, chains and cycles included: register, extend the existing
    extensions (`extend_existing_extensions`), then the existing selectors with the new and the derived same-target
    extensions (`extend_existing_selectors`).  Re-extending every rule is the same as re-extending
    `self.selectors.get(target)`: `extend_list` leaves a selector that does not mention the target untouched. -/
def addExtensionX (xs : XSwitches) (st : XStore) (extender : SelList) (target : Simple) (optional : Bool)
    (media : Option Nat) : Except XErr XStore :=
  if target.isSel || target.isParent || !noSelL extender || extender.containsParent then .error .unsupported else
  if extender.any (fun x => lastIsComb x || headIsComb x) then .error .unsupported else
  let existing := byExtenderX st.exts target
  -- a chain or cycle step (an extender mentions a target): modelled for single-compound extenders only — with
  -- complex extenders in a cycle the woven lists explode (C10-X5 in grass itself); those stay `unsupported`
  let chainStep := !existing.isEmpty || extender.any (fun x => (simplesOf x).contains target) ||
     extender.any (fun x => st.exts.any (fun e => (simplesOf x).contains e.target))
  if chainStep && (extender.any (fun x => x.length ≠ 1) || st.exts.any (fun e => e.extender.length ≠ 1) ||
      st.exts.length > 12) then .error .unsupported else
  match registerX target optional media extender st.exts [] with
  | .error e => .error e
  | .ok (exts1, newExts) =>
    if newExts.isEmpty then .ok { st with exts := exts1 } else
    match (if existing.isEmpty then .ok (exts1, []) else extendExistingX xs st.rules newExts target existing exts1 []) with
    | .error e => .error e
    | .ok (exts2, add) =>
      match reextendX xs (newExts ++ add) exts2 st.rules with
      | .error e => .error e
      | .ok rules => .ok { rules := rules, exts := exts2 }

/-- the selector `visit_extend_rule` (visitor.rs:1366) hands to `add_extension` is the CURRENT (already extended)
    selector of the rule the `@extend` is written in — the rule registered just before (`R` then `E` in the driver's
    item list); without such a rule the written extender is used -/
def currentExtender (st : XStore) (ex : SelList) : SelList :=
  match st.rules.getLast? with
  | some r => if r.original = ex then r.current.map (·.1) else ex
  | none => ex

def runItemsX (xs : XSwitches) : XStore → List Item → Except XErr XStore
  | st, [] => .ok st
  | st, .rule sel media :: rest =>
    match addSelectorX xs st sel media with
    | .error e => .error e
    | .ok st' => runItemsX xs st' rest
  | st, .extend ex t o m :: rest =>
    match addExtensionX xs st (currentExtender st ex) t o m with
    | .error e => .error e
    | .ok st' => runItemsX xs st' rest

def runX (xs : XSwitches) (items : List Item) : Except XErr (List SelList) :=
  match runItemsX xs ⟨[], []⟩ items with
  | .error e => .error e
  | .ok st =>
    if !xs.sw.mandatoryNotTracked && st.exts.any (fun e => !e.optional && !targetFound st.rules e.target)
    then .error .missingTarget
    else .ok (st.rules.map fun r => r.current.map (·.1))

/-! ### driver entry points -/
open Grass.Proto

def xerrStr : XErr → String
  | .crossMedia => "cross-media" | .missingTarget => "missing-target" | .mediaMerge => "media-merge"
  | .unsupported => "unsupported"

def mediaOfStr (s : String) : Option (Option Nat) :=
  if s == "-" then some none else s.toNat?.map some

def targetOfStr (h : String) : Option Simple :=
  match decodeSel h with
  | some [[.compound [s]]] => some s
  | _ => none

/-- items: `R <media> <hexsel>` | `E <media> <opt> <hextarget> <hexextender>` -/
def parseItems : List String → Option (List Item)
  | [] => some []
  | "R" :: m :: s :: rest => do
    let m ← mediaOfStr m; let s ← decodeSel s; let r ← parseItems rest
    some (.rule s m :: r)
  | "E" :: m :: o :: t :: e :: rest => do
    let m ← mediaOfStr m; let o ← parseBool? o; let t ← targetOfStr t; let e ← decodeSel e
    let r ← parseItems rest
    some (.extend e t o m :: r)
  | _ => none

def selOut (l : SelList) : String :=
  let v := l.filter (fun c => !c.isInvisible)
  if v.isEmpty then "-" else encodeChars (renderList v)

def hasPlaceholder (l : SelList) : Bool := l.any fun x => (simplesOf x).any Simple.isPlaceholder

/-- extension pairs (extender selector, target) of a stylesheet, for the credited semantics -/
def extPairs : List Item → List (SelList × Simple)
  | [] => []
  | .extend e t _ _ :: rest => (e, t) :: extPairs rest
  | _ :: rest => extPairs rest

/-- what the property demands of a stylesheet, independent of how extension is carried out:
    a mandatory `@extend` whose target occurs in no style rule must be an error, and so must an
    `@extend` written inside `@media` whose target sits in a rule of another media context -/
def expectErrors (items : List Item) : List XErr :=
  let rules : List (SelList × Option Nat) := items.filterMap fun | .rule s m => some (s, m) | _ => none
  let exts : List (Simple × Bool × Option Nat) := items.filterMap fun | .extend _ t o m => some (t, o, m) | _ => none
  let missing := exts.any fun (t, o, _) => !o && !rules.any fun (s, _) => (allSimples s).contains t
  let cross := exts.any fun (t, _, m) =>
    match m with
    | none => false
    | some mm => rules.any fun (s, rm) => decide (rm ≠ some mm) && (allSimples s).contains t
  (if cross then [.crossMedia] else []) ++ (if missing then [.missingTarget] else [])

/-- some extension's target occurs in the extender selector of an extension (chain or cycle) -/
def hasChain (items : List Item) : Bool :=
  let exts : List (SelList × Simple) := extPairs items
  exts.any fun (_, t) => exts.any fun (e, _) => (allSimples e).contains t

/-- unification can fail somewhere in the stylesheet: two different type names, ids or
    pseudo-elements occur among its selectors (otherwise `unify` never answers `none`,
    C11_unify_none_only_if, and incremental extension cannot drop an alternative) -/
def canClash (items : List Item) : Bool :=
  let sels : List SelList := items.map fun | .rule s _ => s | .extend e t _ _ => [[.compound [t]]] ++ e
  let ss := sels.flatMap allSimples
  let distinct := fun (f : Simple → Option Name) => ((ss.filterMap f).eraseDups).length ≥ 2
  distinct (fun | .type n => some n | _ => none) || distinct (fun | .id n => some n | _ => none) ||
  distinct (fun | .pelem n => some n | _ => none)

def handle : List String → String
  | "expect" :: rest =>
    match parseItems rest with
    | some items => "ok" ++ String.join ((expectErrors items).map fun e => " " ++ xerrStr e) ++
        (if hasChain items then " chain" else "") ++ (if canClash items then " clash" else "")
    | none => "unsupported"
  | "run" :: a :: b :: c :: rest =>
    match parseBool? a, parseBool? b, parseBool? c with
    | some a, some b, some c =>
      match parseItems rest with
      | none => "unsupported"
      | some items =>
        match run ⟨a, b, c⟩ items with
        | .ok ls => "ok " ++ " ".intercalate (ls.map selOut)
        | .error .unsupported => "unsupported"
        | .error e => "err " ++ xerrStr e
    | _, _, _ => "bad-op"
  | "credited" :: mode :: seed :: n :: exh :: orig :: out :: rest =>
    -- P̂ on the implementation's output `out` for the rule whose source selector is `orig`:
    --   mode iff : ∀ ctx, matches out ctx ↔ credited orig ctx
    --   mode sub : ∀ ctx, matches out ctx → credited orig ctx   (complex extenders)
    --   mode law : ∀ ctx, matches orig ctx → matches out ctx    (first law, no :not)
    match seed.toNat?, n.toNat?, parseBool? exh with
    | some seed, some n, some exh =>
      match decodeSel orig, (if out == "-" then some [] else decodeSel out), parseItems rest with
      | some S, some O, some items =>
        let pairs := extPairs items
        let cr := creditN pairs (pairs.length + 1)
        let u := ctxUniverse ([S, O] ++ pairs.map (·.1) ++ pairs.map (fun et => [[.compound [et.2]]])) seed n exh
        if mode == "iff" then
          verdict u (fun p => matchesList O p || cList cr S p) (fun p => matchesList O p == cList cr S p)
        else if mode == "sub" then
          verdict u (fun p => matchesList O p) (fun p => cList cr S p)
        else if mode == "sup" then
          verdict u (fun p => cList cr S p) (fun p => matchesList O p)
        else if mode == "law" then
          verdict u (fun p => matchesList S p) (fun p => matchesList O p)
        else "bad-op"
      | _, _, _ => "unsupported"
    | _, _, _ => "bad-op"
  | "x2" :: ctx :: orig :: rest =>
    -- does the credited match of `orig` at `ctx` need two credits inside one compound?
    match (hexDecode ctx).bind (fun t => parseCtx t.toList), decodeSel orig, parseItems rest with
    | some p, some S, some items =>
      let pairs := extPairs items
      let cr := creditN pairs (pairs.length + 1)
      "ok " ++ boolStr (cList cr S p && !cList1 cr S p)
    | _, _, _ => "unsupported"
  | "floor" :: seed :: n :: orig :: out :: rest =>
    -- second law, directly on the implementation's output: wherever the selector obtained by putting a
    -- (single-compound) extender in place of its target matches, the output has a matching complex at least as
    -- specific as that extender
    match seed.toNat?, n.toNat?, decodeSel orig, decodeSel out, parseItems rest with
    | some seed, some n, some S, some O, some items =>
      if !noSelL S then "unsupported" else
      let cands : List (Complex × Nat) := (extPairs items).flatMap fun (E, T) =>
        E.flatMap fun ex =>
          match ex with
          | [.compound ec] =>
            S.flatMap fun x =>
              (List.range x.length).filterMap fun i =>
                match (x[i]? : Option Component) with
                | some (Component.compound c) =>
                  if c.contains T then
                    (unifyCompound ec (c.erase T)).map fun u =>
                      (x.take i ++ [.compound (if (c.erase T).isEmpty then ec else u)] ++ x.drop (i + 1), (specC ec).1)
                  else none
                | _ => none
          | _ => []
      let top := fun (p : Ctx) => (O.filter (matchesComplex · p)).foldl (fun m c => Nat.max m (specComplex c).2) 0
      verdict (ctxUniverse ([S, O] ++ [cands.map (·.1)]) seed n false)
        (fun p => cands.any fun cy => matchesComplex cy.1 p)
        (fun p => cands.all fun cy => !matchesComplex cy.1 p || decide (top p ≥ cy.2))
    | _, _, _, _, _ => "unsupported"
  | "runx" :: a :: b :: c :: d :: rest =>
    -- complex extenders: `extend_compound`/`extend_complex` with `unify_complex` and `weave`
    match parseBool? a, parseBool? b, parseBool? c, parseBool? d with
    | some a, some b, some c, some d =>
      match parseItems rest with
      | none => "unsupported"
      | some items =>
        match runX ⟨⟨a, b, c⟩, d⟩ items with
        | .ok ls => "ok " ++ " ".intercalate (ls.map selOut)
        | .error .unsupported => "unsupported"
        | .error e => "err " ++ xerrStr e
    | _, _, _, _ => "bad-op"
  | ["unifyx", d, a, b] =>
    -- `selector-unify` on complex operands: `unify_complex` + `weave` (list.rs:120)
    match parseBool? d, decodeSel a, decodeSel b with
    | some d, some A, some B =>
      if !noSelL A || !noSelL B || A.containsParent || B.containsParent ||
         (A ++ B).any (fun x => lastIsComb x || headIsComb x) then "unsupported"
      else match unifyLists d A B with
        | some l => "ok " ++ encodeChars (renderList l)
        | none => "ok null"
    | _, _, _ => "unsupported"
  | ["noplaceholder", out] =>
    match decodeSel out with
    | some l => "ok " ++ boolStr (!hasPlaceholder l)
    | none => "unsupported"
  | "specific" :: orig :: out :: exts =>
    -- second law: every complex of `out` that is not one of the rule's own complexes is at least as
    -- specific as some extender complex of the stylesheet
    match decodeSel orig, decodeSel out, exts.mapM decodeSel with
    | some S, some O, some Es =>
      let es := Es.flatMap id
      let bad := O.any fun x => !S.contains x && !es.any fun e => decide ((specComplex x).2 ≥ (specComplex e).1)
      "ok " ++ boolStr (!bad)
    | _, _, _ => "unsupported"
  | _ => "bad-op"

end Grass.Extend
