import Grass.Proto
/- Core `Extend` — stub; replaced by the model (see DESIGN.md §8). -/
namespace Grass.Extend

def handle : List String → String
  | _ => "bad-op"

end Grass.Extend
