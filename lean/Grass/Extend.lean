import Grass.Proto
import Grass.Selector
/-
  C10 core — `@extend`.
  Mirrors crates/compiler/src/selector/extend/mod.rs (`extend_list` :202, `extend_complex` :244,
  `extend_compound` :355, `extend_simple`/`without_pseudo` :524/:706, `trim` :775, `add_selector`
  :863, `add_extension` :938), extend/functions.rs (`paths` :708, `unify_complex` :13 on single
  compounds), extend/extension.rs:68 (media check), evaluate/visitor.rs `visit_extend_rule`.

  Modelled fragment: selectors without selector pseudos, extensions whose target is one simple
  selector and whose extender is a list of single compounds, no extension chains (no extender
  contains a target).  `weave` on real complex extenders, `extend_pseudo`, and
  `extend_existing_extensions` are NOT modelled: `run` answers `unsupported` there.

  As-found switches (theorems are about `false`, the correspondence runs with `true`):
  * `mediaCheckNoop`      — D16: `assert_compatible_media_context` (extension.rs:68) does nothing;
  * `mandatoryNotTracked` — D18: no "target selector was not found" error exists;
  * `supAsFound`          — C11-S1 (fixed by 75edc67): `trim` used the unsound superselector walk;
                            the code as it stands is `false`.
-/
namespace Grass.Extend
open Grass.Selector

structure Ext where
  extender : Compound          -- one complex of the extender rule's selector: a single compound
  target   : Simple
  optional : Bool
  media    : Option Nat        -- media context the `@extend` was written in (none = top level)
  deriving DecidableEq, Repr, Inhabited

inductive XErr where
  | crossMedia       -- "You may not @extend selectors across media queries."
  | missingTarget    -- "The target selector was not found."
  | mediaMerge       -- "You may not @extend the same selector from within different media queries." (merged.rs)
  | unsupported
  deriving DecidableEq, Repr, Inhabited

structure Switches where
  mediaCheckNoop      : Bool
  mandatoryNotTracked : Bool
  supAsFound          : Bool
  deriving DecidableEq, Repr, Inhabited

def Switches.spec : Switches := ⟨false, false, false⟩
def Switches.asFound : Switches := ⟨true, true, false⟩

/-- one alternative for a simple selector of a compound: the simple itself (`is_original`) or an extender -/
structure Opt where
  comp       : Compound
  isOriginal : Bool
  media      : Option Nat
  deriving DecidableEq, Repr, Inhabited

def origOpt (c : Compound) : Opt := ⟨c, true, none⟩
def extOpt (e : Ext) : Opt := ⟨e.extender, false, e.media⟩

def extendersOf (exts : List Ext) (s : Simple) : List Ext := exts.filter (fun e => e.target = s)

/-- `paths` (functions.rs:708): the first choice varies fastest, the first path takes every first option -/
def paths {α : Type} (choices : List (List α)) : List (List α) :=
  choices.foldl (fun ps choice => choice.flatMap fun o => ps.map (· ++ [o])) [[]]

/-- the `options` vector of `extend_compound` (mod.rs:366–398) -/
def buildOptions (exts : List Ext) : Compound → Compound → Option (List (List Opt)) → Option (List (List Opt))
  | _, [], acc => acc
  | pre, s :: rest, acc =>
    let es := extendersOf exts s
    if es.isEmpty then
      match acc with
      | some v => buildOptions exts (pre ++ [s]) rest (some (v ++ [[origOpt [s]]]))
      | none => buildOptions exts (pre ++ [s]) rest none
    else
      let entry := origOpt [s] :: es.map extOpt
      match acc with
      | none => buildOptions exts (pre ++ [s]) rest (some ((if pre.isEmpty then [] else [[origOpt pre]]) ++ [entry]))
      | some v => buildOptions exts (pre ++ [s]) rest (some (v ++ [entry]))

/-- `unify_complex` (functions.rs:13) on single compounds: the simples of every later compound are
    folded into the first one -/
def unifyInto : Compound → List Compound → Option Compound
  | base, [] => some base
  | base, c :: rest =>
    match unifyCompound c base with
    | some b => unifyInto b rest
    | none => none

def unifyAll : List Compound → Option Compound
  | [] => none
  | base :: rest => unifyInto base rest

/-- one path of `extend_compound` (mod.rs:454–512), not the first -/
def unifyPath (path : List Opt) : Option Compound :=
  let originals := (path.filter (·.isOriginal)).flatMap (·.comp)
  let others := (path.filter (fun o => !o.isOriginal)).map (·.comp)
  unifyAll (if originals.isEmpty then others else originals :: others)

/-- the media check of extension.rs:68 as specified (dart-sass `assertCompatibleMediaContext`) -/
def mediaOk (ruleMedia : Option Nat) (o : Opt) : Bool :=
  match o.media with
  | none => true
  | some m => ruleMedia = some m

abbrev Flagged := Complex × Bool     -- a complex with "is original" (identity in `originals`)

def maxSourceSpec (srcSpec : Simple → Nat) (x : Complex) : Nat :=
  x.foldl (fun n cp => match cp with
    | .comb _ => n
    | .compound c => c.foldl (fun m s => Nat.max m (srcSpec s)) n) 0

/-- the duplicate-original test of mod.rs:803–808 with `rotate_slice(result, 0, j + 1)`: the first of the
    `n` leading kept selectors equal to `c1` is moved to the front -/
def pullOut (c1 : Complex) : Nat → List Flagged → Option (Flagged × List Flagged)
  | 0, _ => none
  | _, [] => none
  | n + 1, r :: rs =>
    if r.1 = c1 then some (r, rs)
    else match pullOut c1 n rs with
      | some (f, rest) => some (f, r :: rest)
      | none => none

/-- body of `trim` (mod.rs:797–850) on the reversed input: `rest` are the selectors not yet visited
    (last first), `result` the kept ones -/
def trimGo (sup : Complex → Complex → Bool) (srcSpec : Simple → Nat) :
    List Flagged → List Flagged → Nat → List Flagged
  | [], result, _ => result
  | (c1, true) :: earlier, result, n =>
    match pullOut c1 n result with
    | some (f, rest) => trimGo sup srcSpec earlier (f :: rest) n
    | none => trimGo sup srcSpec earlier ((c1, true) :: result) (n + 1)
  | (c1, false) :: earlier, result, n =>
    let ms := maxSourceSpec srcSpec c1
    let covered := fun (c2 : Flagged) => decide (c2.1.minSpecificity ≥ ms) && sup c2.1 c1
    if result.any covered || earlier.any covered then trimGo sup srcSpec earlier result n
    else trimGo sup srcSpec earlier ((c1, false) :: result) n

/-- `ExtensionStore::trim` (mod.rs:775) -/
def trim (sup : Complex → Complex → Bool) (srcSpec : Simple → Nat) (sels : List Flagged) : List Flagged :=
  if sels.length > 100 then sels else trimGo sup srcSpec sels.reverse [] 0

/-- `source_specificity` (mod.rs:989): specificity of the first extender that contains the simple -/
def srcSpecOf (exts : List Ext) (s : Simple) : Nat :=
  match exts.find? (fun e => e.extender.contains s) with
  | some e => (specC e.extender).1
  | none => 0

def checkMedia (sw : Switches) (ruleMedia : Option Nat) (path : List Opt) : Bool :=
  sw.mediaCheckNoop || path.all (mediaOk ruleMedia)

/-- `extend_compound` (mod.rs:355), Normal mode.  `ok none` = no extension applies.  `exts` are the
    extensions being applied (all of them in `add_selector`, only the new ones in
    `extend_existing_selectors`); `all` are all registered so far — `source_specificity` is a
    store-wide map (mod.rs:90). -/
def extendCompound (sw : Switches) (exts all : List Ext) (ruleMedia : Option Nat) (inOriginal : Bool)
    (c : Compound) : Except XErr (Option (List Complex)) :=
  match buildOptions exts [] c none with
  | none => .ok none
  | some options =>
    match options with
    | [single] =>
      if checkMedia sw ruleMedia single then .ok (some (single.map fun o => [.compound o.comp]))
      else .error .crossMedia
    | _ =>
      match paths options with
      | [] => .ok (some [])
      | first :: others =>
        let unified : List (List Opt × Compound) :=
          (first, first.flatMap (·.comp)) :: others.filterMap fun p => (unifyPath p).map fun u => (p, u)
        if unified.all (fun pu => checkMedia sw ruleMedia pu.1) then
          let flagged : List Flagged :=
            match unified with
            | [] => []
            | f :: r => ([.compound f.2], inOriginal) :: r.map fun pu => ([.compound pu.2], false)
          .ok (some ((trim (isSuperComplex0 sw.supAsFound) (srcSpecOf all) flagged).map (·.1)))
        else .error .crossMedia

/-- `extended_not_expanded` of `extend_complex` (mod.rs:267–310) -/
def complexChoices (sw : Switches) (exts all : List Ext) (ruleMedia : Option Nat) (isOrig : Bool) :
    Complex → Except XErr (List (List Complex) × Bool)
  | [] => .ok ([], false)
  | .comb cb :: rest =>
    match complexChoices sw exts all ruleMedia isOrig rest with
    | .error e => .error e
    | .ok (chs, any) => .ok ([[.comb cb]] :: chs, any)
  | .compound c :: rest =>
    match extendCompound sw exts all ruleMedia isOrig c, complexChoices sw exts all ruleMedia isOrig rest with
    | .error e, _ => .error e
    | _, .error e => .error e
    | .ok none, .ok (chs, any) => .ok ([[.compound c]] :: chs, any)
    | .ok (some ext), .ok (chs, _) => .ok (ext :: chs, true)

/-- `extend_complex` (mod.rs:244): every extender is a single compound, so `weave` of a path is the
    concatenation of its components -/
def extendComplex (sw : Switches) (exts all : List Ext) (ruleMedia : Option Nat) (x : Flagged) :
    Except XErr (Option (List Flagged)) :=
  match complexChoices sw exts all ruleMedia x.2 x.1 with
  | .error e => .error e
  | .ok (_, false) => .ok none
  | .ok (chs, true) =>
    match (paths chs).map (fun p => p.flatMap id) with
    | [] => .ok (some [])
    | f :: r => .ok (some ((f, x.2) :: r.map fun y => (y, false)))

def extendEach (sw : Switches) (exts all : List Ext) (ruleMedia : Option Nat) :
    List Flagged → Except XErr (List Flagged × Bool)
  | [] => .ok ([], false)
  | x :: rest =>
    match extendComplex sw exts all ruleMedia x, extendEach sw exts all ruleMedia rest with
    | .error e, _ => .error e
    | _, .error e => .error e
    | .ok none, .ok (r, any) => .ok (x :: r, any)
    | .ok (some ys), .ok (r, _) => .ok (ys ++ r, true)

/-- `extend_list` (mod.rs:202) -/
def extendList (sw : Switches) (exts all : List Ext) (ruleMedia : Option Nat) (l : List Flagged) :
    Except XErr (List Flagged) :=
  match extendEach sw exts all ruleMedia l with
  | .error e => .error e
  | .ok (_, false) => .ok l
  | .ok (ext, true) => .ok (trim (isSuperComplex0 sw.supAsFound) (srcSpecOf all) ext)

/-! ### the store: rules and `@extend`s in document order (mod.rs:863, :938; visitor.rs:1290) -/

inductive Item where
  | rule (sel : SelList) (media : Option Nat)
  | extend (extender : SelList) (target : Simple) (optional : Bool) (media : Option Nat)
  deriving Repr, Inhabited

structure Rule where
  original : SelList
  current  : List Flagged
  media    : Option Nat
  deriving Repr, Inhabited

structure Store where
  rules : List Rule
  exts  : List Ext
  deriving Repr, Inhabited

def simplesOf (x : Complex) : List Simple :=
  x.flatMap fun | .comb _ => [] | .compound c => c

def inFragment (l : SelList) : Bool := noSelL l && !l.containsParent

def asCompounds (l : SelList) : Option (List Compound) :=
  l.mapM fun x => match x with | [.compound c] => some c | _ => none

/-- `add_selector` (mod.rs:863) -/
def addSelector (sw : Switches) (st : Store) (sel : SelList) (media : Option Nat) : Except XErr Store :=
  if !inFragment sel then .error .unsupported else
  let flagged : List Flagged := sel.map fun x => (x, !SelList.isInvisible sel)
  match (if st.exts.isEmpty then .ok flagged else extendList sw st.exts st.exts media flagged) with
  | .error e => .error e
  | .ok cur => .ok { st with rules := st.rules ++ [⟨sel, cur, media⟩] }

def reextend (sw : Switches) (newExts all : List Ext) : List Rule → Except XErr (List Rule)
  | [] => .ok []
  | r :: rs =>
    match extendList sw newExts all r.media r.current, reextend sw newExts all rs with
    | .error e, _ => .error e
    | _, .error e => .error e
    | .ok cur, .ok rs' => .ok ({ r with current := cur } :: rs')

/-- `add_extension` (mod.rs:938) for one `@extend` of a rule whose selector is `extender` -/
def addExtension (sw : Switches) (st : Store) (extender : SelList) (target : Simple) (optional : Bool)
    (media : Option Nat) : Except XErr Store :=
  match asCompounds extender with
  | none => .error .unsupported
  | some comps =>
    if target.isSel || target.isParent || !noSelL extender then .error .unsupported else
    -- chains (an extender that mentions a target, or this target mentioned by an extender): not modelled
    if st.exts.any (fun e => e.extender.contains target) || comps.any (fun c => c.contains target) ||
       comps.any (fun c => st.exts.any (fun e => c.contains e.target)) then .error .unsupported else
    -- MergedExtension::merge (merged.rs): same extender and target from two different media contexts
    if comps.any (fun c => st.exts.any (fun e => e.extender = c && e.target = target &&
        e.media.isSome && media.isSome && e.media ≠ media)) then .error .mediaMerge else
    let fresh := comps.filter fun c => !st.exts.any (fun e => e.extender = c && e.target = target)
    let newExts := fresh.map fun c => (⟨c, target, optional, media⟩ : Ext)
    let allExts := st.exts ++ newExts
    -- source_specificity is complete before `extend_existing_selectors` runs (mod.rs:989, :1021)
    match reextend sw newExts allExts (st.rules.map fun r => r) with
    | .error e => .error e
    | .ok rules => .ok { rules := rules, exts := allExts }

def runItems (sw : Switches) : Store → List Item → Except XErr Store
  | st, [] => .ok st
  | st, .rule sel media :: rest =>
    match addSelector sw st sel media with
    | .error e => .error e
    | .ok st' => runItems sw st' rest
  | st, .extend ex t o m :: rest =>
    match addExtension sw st ex t o m with
    | .error e => .error e
    | .ok st' => runItems sw st' rest

/-- a mandatory extension is satisfied when its target occurs in the selector of some style rule -/
def targetFound (rules : List Rule) (t : Simple) : Bool :=
  rules.any fun r => r.original.any fun x => (simplesOf x).contains t

/-- the whole run: final selector of every rule, or the error the stylesheet must produce -/
def run (sw : Switches) (items : List Item) : Except XErr (List SelList) :=
  match runItems sw ⟨[], []⟩ items with
  | .error e => .error e
  | .ok st =>
    if !sw.mandatoryNotTracked && st.exts.any (fun e => !e.optional && !targetFound st.rules e.target)
    then .error .missingTarget
    else .ok (st.rules.map fun r => r.current.map (·.1))

/-! ### "extenders are credited with the target": the semantics `@extend` has to implement -/

mutual
def cSimple (credit : Simple → Ctx → Bool) : Simple → Ctx → Bool
  | .sel k arg, p =>
    (match k with
     | .not => !(cArgs credit arg p)
     | _ => cArgs credit arg p) || credit (.sel k arg) p
  | .univ, p => mSimple .univ p || credit .univ p
  | .type n, p => mSimple (.type n) p || credit (.type n) p
  | .cls n, p => mSimple (.cls n) p || credit (.cls n) p
  | .id n, p => mSimple (.id n) p || credit (.id n) p
  | .attr n v, p => mSimple (.attr n v) p || credit (.attr n v) p
  | .pclass n, p => mSimple (.pclass n) p || credit (.pclass n) p
  | .pelem n, p => mSimple (.pelem n) p || credit (.pelem n) p
  | .placeholder n, p => credit (.placeholder n) p
  | .parent s, p => credit (.parent s) p
def cArgs (credit : Simple → Ctx → Bool) : List (List Simple × List (Rel × List Simple)) → Ctx → Bool
  | [], _ => false
  | (t, rest) :: cs, p => (cComp credit t p && cSteps credit rest p) || cArgs credit cs p
def cSteps (credit : Simple → Ctx → Bool) : List (Rel × List Simple) → Ctx → Bool
  | [], _ => true
  | (r, c) :: rest, p => (steps r p).any fun q => cComp credit c q && cSteps credit rest q
def cComp (credit : Simple → Ctx → Bool) : List Simple → Ctx → Bool
  | [], _ => true
  | s :: ss, p => cSimple credit s p && cComp credit ss p
end

def cComplex (credit : Simple → Ctx → Bool) (X : Complex) (p : Ctx) : Bool :=
  match norm X with
  | some r => cComp credit r.1 p && cSteps credit r.2 p
  | none => false

def cList (credit : Simple → Ctx → Bool) (L : SelList) (p : Ctx) : Bool := L.any (cComplex credit · p)

/-- a single-compound extension: elements matched by `E` count as matching `T` -/
def credit1 (E : Compound) (T : Simple) : Simple → Ctx → Bool :=
  fun s p => decide (s = T) && mComp E p

/-- `matchesCredited S E T`: the original selector, extenders credited with the target -/
def matchesCredited (S : SelList) (E : Compound) (T : Simple) (p : Ctx) : Bool := cList (credit1 E T) S p

/-- chains and cycles: credit through at most `n` extension steps (complex extenders allowed) -/
def creditN (exts : List (SelList × Simple)) : Nat → Simple → Ctx → Bool
  | 0 => fun _ _ => false
  | n + 1 => fun s p => exts.any fun et => decide (et.2 = s) && cList (creditN exts n) et.1 p

/-- credited matching in which at most one simple selector per compound may use its credit
    (driver side: recognises the incremental-extension class C10-X2, whose missing matches need
    the credits of two different targets inside one compound) -/
def cComp1 (credit : Simple → Ctx → Bool) : Compound → Ctx → Bool
  | [], _ => true
  | s :: ss, p => (mSimple s p && cComp1 credit ss p) || (cSimple credit s p && mComp ss p)

def cSteps1 (credit : Simple → Ctx → Bool) : RSteps → Ctx → Bool
  | [], _ => true
  | (r, c) :: rest, p => (steps r p).any fun q => cComp1 credit c q && cSteps1 credit rest q

def cList1 (credit : Simple → Ctx → Bool) (L : SelList) (p : Ctx) : Bool :=
  L.any fun X => match norm X with
    | some r => cComp1 credit r.1 p && cSteps1 credit r.2 p
    | none => false

/-! ### driver entry points -/
open Grass.Proto

def xerrStr : XErr → String
  | .crossMedia => "cross-media" | .missingTarget => "missing-target" | .mediaMerge => "media-merge"
  | .unsupported => "unsupported"

def mediaOfStr (s : String) : Option (Option Nat) :=
  if s == "-" then some none else s.toNat?.map some

def targetOfStr (h : String) : Option Simple :=
  match decodeSel h with
  | some [[.compound [s]]] => some s
  | _ => none

/-- items: `R <media> <hexsel>` | `E <media> <opt> <hextarget> <hexextender>` -/
def parseItems : List String → Option (List Item)
  | [] => some []
  | "R" :: m :: s :: rest => do
    let m ← mediaOfStr m; let s ← decodeSel s; let r ← parseItems rest
    some (.rule s m :: r)
  | "E" :: m :: o :: t :: e :: rest => do
    let m ← mediaOfStr m; let o ← parseBool? o; let t ← targetOfStr t; let e ← decodeSel e
    let r ← parseItems rest
    some (.extend e t o m :: r)
  | _ => none

def selOut (l : SelList) : String :=
  let v := l.filter (fun c => !c.isInvisible)
  if v.isEmpty then "-" else encodeChars (renderList v)

def hasPlaceholder (l : SelList) : Bool := l.any fun x => (simplesOf x).any Simple.isPlaceholder

/-- extension pairs (extender selector, target) of a stylesheet, for the credited semantics -/
def extPairs : List Item → List (SelList × Simple)
  | [] => []
  | .extend e t _ _ :: rest => (e, t) :: extPairs rest
  | _ :: rest => extPairs rest

/-- what the property demands of a stylesheet, independent of how extension is carried out:
    a mandatory `@extend` whose target occurs in no style rule must be an error, and so must an
    `@extend` written inside `@media` whose target sits in a rule of another media context -/
def expectErrors (items : List Item) : List XErr :=
  let rules : List (SelList × Option Nat) := items.filterMap fun | .rule s m => some (s, m) | _ => none
  let exts : List (Simple × Bool × Option Nat) := items.filterMap fun | .extend _ t o m => some (t, o, m) | _ => none
  let missing := exts.any fun (t, o, _) => !o && !rules.any fun (s, _) => (allSimples s).contains t
  let cross := exts.any fun (t, _, m) =>
    match m with
    | none => false
    | some mm => rules.any fun (s, rm) => decide (rm ≠ some mm) && (allSimples s).contains t
  (if cross then [.crossMedia] else []) ++ (if missing then [.missingTarget] else [])

/-- some extension's target occurs in the extender selector of an extension (chain or cycle) -/
def hasChain (items : List Item) : Bool :=
  let exts : List (SelList × Simple) := extPairs items
  exts.any fun (_, t) => exts.any fun (e, _) => (allSimples e).contains t

/-- unification can fail somewhere in the stylesheet: two different type names, ids or
    pseudo-elements occur among its selectors (otherwise `unify` never answers `none`,
    C11_unify_none_only_if, and incremental extension cannot drop an alternative) -/
def canClash (items : List Item) : Bool :=
  let sels : List SelList := items.map fun | .rule s _ => s | .extend e t _ _ => [[.compound [t]]] ++ e
  let ss := sels.flatMap allSimples
  let distinct := fun (f : Simple → Option Name) => ((ss.filterMap f).eraseDups).length ≥ 2
  distinct (fun | .type n => some n | _ => none) || distinct (fun | .id n => some n | _ => none) ||
  distinct (fun | .pelem n => some n | _ => none)

def handle : List String → String
  | "expect" :: rest =>
    match parseItems rest with
    | some items => "ok" ++ String.join ((expectErrors items).map fun e => " " ++ xerrStr e) ++
        (if hasChain items then " chain" else "") ++ (if canClash items then " clash" else "")
    | none => "unsupported"
  | "run" :: a :: b :: c :: rest =>
    match parseBool? a, parseBool? b, parseBool? c with
    | some a, some b, some c =>
      match parseItems rest with
      | none => "unsupported"
      | some items =>
        match run ⟨a, b, c⟩ items with
        | .ok ls => "ok " ++ " ".intercalate (ls.map selOut)
        | .error .unsupported => "unsupported"
        | .error e => "err " ++ xerrStr e
    | _, _, _ => "bad-op"
  | "credited" :: mode :: seed :: n :: exh :: orig :: out :: rest =>
    -- P̂ on the implementation's output `out` for the rule whose source selector is `orig`:
    --   mode iff : ∀ ctx, matches out ctx ↔ credited orig ctx
    --   mode sub : ∀ ctx, matches out ctx → credited orig ctx   (complex extenders)
    --   mode law : ∀ ctx, matches orig ctx → matches out ctx    (first law, no :not)
    match seed.toNat?, n.toNat?, parseBool? exh with
    | some seed, some n, some exh =>
      match decodeSel orig, (if out == "-" then some [] else decodeSel out), parseItems rest with
      | some S, some O, some items =>
        let pairs := extPairs items
        let cr := creditN pairs (pairs.length + 1)
        let u := ctxUniverse ([S, O] ++ pairs.map (·.1) ++ pairs.map (fun et => [[.compound [et.2]]])) seed n exh
        if mode == "iff" then
          verdict u (fun p => matchesList O p || cList cr S p) (fun p => matchesList O p == cList cr S p)
        else if mode == "sub" then
          verdict u (fun p => matchesList O p) (fun p => cList cr S p)
        else if mode == "sup" then
          verdict u (fun p => cList cr S p) (fun p => matchesList O p)
        else if mode == "law" then
          verdict u (fun p => matchesList S p) (fun p => matchesList O p)
        else "bad-op"
      | _, _, _ => "unsupported"
    | _, _, _ => "bad-op"
  | "x2" :: ctx :: orig :: rest =>
    -- does the credited match of `orig` at `ctx` need two credits inside one compound?
    match (hexDecode ctx).bind (fun t => parseCtx t.toList), decodeSel orig, parseItems rest with
    | some p, some S, some items =>
      let pairs := extPairs items
      let cr := creditN pairs (pairs.length + 1)
      "ok " ++ boolStr (cList cr S p && !cList1 cr S p)
    | _, _, _ => "unsupported"
  | "floor" :: seed :: n :: orig :: out :: rest =>
    -- second law, directly on the implementation's output: wherever the selector obtained by putting a
    -- (single-compound) extender in place of its target matches, the output has a matching complex at least as
    -- specific as that extender
    match seed.toNat?, n.toNat?, decodeSel orig, decodeSel out, parseItems rest with
    | some seed, some n, some S, some O, some items =>
      if !noSelL S then "unsupported" else
      let cands : List (Complex × Nat) := (extPairs items).flatMap fun (E, T) =>
        E.flatMap fun ex =>
          match ex with
          | [.compound ec] =>
            S.flatMap fun x =>
              (List.range x.length).filterMap fun i =>
                match (x[i]? : Option Component) with
                | some (Component.compound c) =>
                  if c.contains T then
                    (unifyCompound ec (c.erase T)).map fun u =>
                      (x.take i ++ [.compound (if (c.erase T).isEmpty then ec else u)] ++ x.drop (i + 1), (specC ec).1)
                  else none
                | _ => none
          | _ => []
      let top := fun (p : Ctx) => (O.filter (matchesComplex · p)).foldl (fun m c => Nat.max m (specComplex c).2) 0
      verdict (ctxUniverse ([S, O] ++ [cands.map (·.1)]) seed n false)
        (fun p => cands.any fun cy => matchesComplex cy.1 p)
        (fun p => cands.all fun cy => !matchesComplex cy.1 p || decide (top p ≥ cy.2))
    | _, _, _, _, _ => "unsupported"
  | ["noplaceholder", out] =>
    match decodeSel out with
    | some l => "ok " ++ boolStr (!hasPlaceholder l)
    | none => "unsupported"
  | "specific" :: orig :: out :: exts =>
    -- second law: every complex of `out` that is not one of the rule's own complexes is at least as
    -- specific as some extender complex of the stylesheet
    match decodeSel orig, decodeSel out, exts.mapM decodeSel with
    | some S, some O, some Es =>
      let es := Es.flatMap id
      let bad := O.any fun x => !S.contains x && !es.any fun e => decide ((specComplex x).2 ≥ (specComplex e).1)
      "ok " ++ boolStr (!bad)
    | _, _, _ => "unsupported"
  | _ => "bad-op"

end Grass.Extend
